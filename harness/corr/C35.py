"""C35 — SSH binary packet layer: two real transports back to back vs the Lean model + property oracle.

The sender (a real SSHClientTransport or SSHServerTransport) sends the case's messages with real
SSHCiphers (every cipher x MAC the transport offers, plus `none`) and real zlib objects; the stream
(identification lines + version line + the sender's bytes, optionally with one byte altered) is cut into
the case's segments and delivered to the receiving real transport.  Every call the two transports make
into cryptography/hmac/zlib is recorded and handed to the Lean model as a *script*: the model must ask
the same questions in the same order (ok=1), produce the same bytes on the wire and the same sequence
of dispatched payloads / disconnects.  The oracle evaluates the property on the real run only.
"""
import hashlib
import random
import warnings

warnings.filterwarnings("ignore")

from twisted.conch.ssh import transport  # noqa: E402
from twisted.internet.testing import StringTransport  # noqa: E402

HEADLINE = ("TwistedProps.C35.payloads_delivered_in_order_any_segmentation / tamper_never_delivered / "
            "held_back_payloads_keep_their_order / rekey_stream_delivered_any_segmentation_partial")
RULE = ("cipher x MAC x compression cycled over everything SSHTransportBase offers (+ none), 0..6 messages with sizes at "
        "0,1,block-size boundaries and up to a few KB (one pair at the 2^20 packet limit), start sequence numbers at 0 and "
        "around 2^32, identification = 0..3 banner lines (with 'SSH' inside, CRLF/LF, total up to the 4096 limit) + version line; "
        "segmentations: one piece, bytewise, random, cuts at line/packet/first-block boundaries +-1; optional single-byte "
        "alteration at a random/structured offset; distinct = (cipher kind, mac, comp, ident shape, segmentation style, tamper "
        "region, outcome).  Two cases in five are HISTORIES of the sending transport: sendPacket calls (types held back during key "
        "exchange and types allowed then) interleaved with 1..3 key exchanges started by this side (sendKexInit) or by the peer "
        "(real ssh_KEXINIT negotiating that round's cipher/MAC/compression), _keySetup (our NEWKEYS) and the peer's NEWKEYS in "
        "either order (client), 0..3 payloads in flight at every stage, first key exchange from `none`, histories ending inside an "
        "exchange, sendKexInit during an exchange; the receiver switches by its own real ssh_KEXINIT/_keySetup/ssh_NEWKEYS; same "
        "segmentations and alterations; distinct adds (role, kex op sequence, max payloads held back, open/closed).  "
        "Mutation audit (harness/mutants/C35): one case in three gives the OTHER direction of the connection its own algorithms (`rev`, and "
        "6-element epochs: another block size, another MAC length, MAC / compression in one direction only; in histories through KEXINITs "
        "whose name-lists differ per direction), each direction with its own keys; re-keys negotiate the algorithms already in use (all, or "
        "all but one) in ~45% of the rounds; ~26 cases per quick run carry LONG messages (32 KiB .. the 2^20 packet limit, incompressible / "
        "zeros / a pattern; with zlib also payloads of 1-3 MiB that compress to a few KB) delivered in one piece, in 16/64 KiB reads or at "
        "random cuts, a quarter of them with a byte altered — oracle-only (no model line) when a payload or the wire exceeds 20000 bytes; "
        "30% of the identifications have lines before the version line that contain the version line's text (indented, quoted, with CR, "
        "doubled, cut short); a quarter of the identification cases continue in the clear (cipher none) and most of those carry CR LF / LF CR / "
        "CR CR LF inside the packets; block size and MAC length given to the model and used by the oracle come from the RFC tables, not "
        "from the transport's objects; distinct adds (other direction's block size / MAC relation / compression, long/huge, same-algorithm re-key)")
ASSUMES = [
    "key exchange: the negotiation and the queueing/flush state machine run for real (sendKexInit, ssh_KEXINIT, _keySetup, ssh_NEWKEYS, "
    "_newKeys); the key exchange METHOD (DH/ECDH messages, host key signature) is replaced by a shared secret handed to _keySetup on both "
    "sides; the peer's KEXINIT/NEWKEYS reach the sender as direct calls of its handlers (its receiving direction is not part of the run); "
    "the application never sends KEXINIT/NEWKEYS itself",
    "Lean: the subclass glue (client postponing an early NEWKEYS, server EXT_INFO) is not modelled as such — the model is given the "
    "sequence of base-class calls the real subclass code made; the end-to-end theorem over histories is PARTIAL (see "
    "rekey_stream_delivered_any_segmentation_partial): sender order and receiver across NEWKEYS are proved separately, the lemma that a "
    "conforming history's packets form a receiver chain is exercised by the tie only; tampering across a key exchange is oracle + tie only",
    "cipher/MAC/zlib are parameters: dec inverts enc block-aligned and splits over block-aligned concatenation, verify accepts makeMAC, "
    "decompress inverts compress+Z_SYNC_FLUSH; tamper theorem: symbolic unforgeability (for the packet's sequence number verify accepts only "
    "the sender's (packet, tag)) and decrypt injective per state",
    "identification (banner lines + version line) <= 4096 bytes, banner lines do not start with 'SSH-', version is 2.0 or 1.99",
    "each packet length <= 2^20 (getPacket refuses longer packets by design); message payload (type byte + data) is never empty",
    "after a disconnect the connection stops reading (transport.loseConnection); nothing is delivered afterwards",
    "per-direction algorithms in histories: Twisted's own sendKexInit cannot offer different lists for the two directions, so the peer's "
    "KEXINIT handed to the sender is crafted (name-lists per direction, RFC 4253 7.1) and the receiver's real ssh_KEXINIT is handed the "
    "same crafted payload in place of the (symmetric) KEXINIT it has just dispatched from the wire; the other direction carries no traffic",
    "long messages (payload or wire > 20000 bytes) are judged by the oracle only in the quick tier (the list-based model needs seconds "
    "per MiB); the theorems have no size bound below the 2^20 packet limit",
]
TRUSTED = ["cryptography (AES/3DES CBC/CTR), hmac/hashlib, zlib: recorded and replayed into the model as scripts, contracts are hypotheses",
           "harness/corr/C35.py recording proxies around SSHCiphers.encrypt/decrypt/makeMAC/verify and the zlib objects"]
MANIFEST = {
    "text": "Lean theorems (TwistedProps/C35.lean) over a model of sendPacket/getPacket/dataReceived parameterised by cipher, MAC and "
            "compression with explicit contracts: for every message list, start state, identification and EVERY segmentation the "
            "receiver dispatches exactly the sent payloads in order after recording the version line (no disconnect); if any bytes of a "
            "MAC-protected packet are altered the altered payload (and anything after it) is never dispatched, and a disconnect follows "
            "as soon as the bytes the (possibly altered) length field asks for have arrived.  PARTIAL for the cryptographic contracts "
            "(hypotheses, incl. symbolic MAC unforgeability).  The model is tied to transport.py by replaying recorded real "
            "crypto/zlib answers for every cipher x MAC x compression.",
    "note": "trusts Lean kernel, the hand-written model (differentially tied on wire bytes, call order into crypto, dispatched payloads, "
            "disconnects), cryptography/hmac/zlib contracts.  Key (re-)exchange: TwistedModel/Ssh/Rekey.lean models the queueing in front of "
            "sendPacket, sendKexInit, the state step of ssh_KEXINIT, _keySetup's NEWKEYS, _newKeys (both directions) — tied on histories; "
            "proved: for EVERY history the payloads that may not be sent during key exchange reach the wire in the order of the sendPacket "
            "calls, none lost/duplicated (held_back_payloads_keep_their_order), _newKeys sends the whole queue front to back with the new "
            "algorithms (new_keys_sends_held_back_in_order), and a receiver switching algorithms at each dispatched NEWKEYS delivers any "
            "chain of honest packets exactly, under any segmentation (rekey_stream_delivered_any_segmentation_partial; partial: the "
            "sender-chain lemma and the identification phase in front are tie-only); key exchange methods not modelled.  The theorems are "
            "stated for ONE direction (a SendAlg/RecvAlg pair): the algorithms of the other direction do not occur in them; that the transport "
            "keeps the two directions apart (block size, MAC length, compression, keys) is checked by the tie + oracle on cases whose "
            "directions differ (mutation audit, harness/mutants/C35/README.md)",
    "technique": "Lean 4 proof (receiver invariant over arbitrary segmentations, frame chain induction) + scripted-crypto differential tie",
    "design_ref": "DESIGN.md §7 C35",
}

from twisted.logger import Logger  # noqa: E402

_QUIET = Logger(observer=lambda event: None)
CIPHERS = [c.decode() for c in transport.SSHTransportBase.supportedCiphers] + ["none"]
MACS = [m.decode() for m in transport.SSHTransportBase.supportedMACs] + ["none"]
COMPS = ["none", "zlib"]
LIMIT = 1048576


def hx(b):
    return b.hex() if b else "-"


class _CompProxy:
    def __init__(self, obj, log):
        self.obj, self.log, self.cur = obj, log, None

    def compress(self, data, *a):
        out = self.obj.compress(data, *a)
        self.cur = [bytes(data), out]
        return out

    def flush(self, *a):
        out = self.obj.flush(*a)
        self.cur[1] += out
        self.log.append(tuple(self.cur))
        return out


class _DecompProxy:
    def __init__(self, obj, log):
        self.obj, self.log = obj, log

    def decompress(self, data, *a):      # extra arguments (max_length) go through: the proxy must not change what the call does
        try:
            out = self.obj.decompress(data, *a)
        except Exception:
            self.log.append((bytes(data), None))
            raise
        self.log.append((bytes(data), out))
        return out


# block size / MAC length of every algorithm, from RFC 4253 6.3 / 6.4 and RFC 6668 (NOT read from the code under test:
# what the model is told and what the oracle measures offsets with must not follow a regression of the transport)
_MS = {"hmac-sha2-512": 64, "hmac-sha2-384": 48, "hmac-sha2-256": 32, "hmac-sha1": 20, "hmac-md5": 16, "none": 0}


def _bs_of(cipher):
    return 16 if cipher.startswith("aes") else 8


def _fw(ep):
    """the algorithms of the observed direction (sender -> receiver) of a configuration / an epoch"""
    return list(ep[:3])


def _rv(ep):
    """… and of the other direction (receiver -> sender); the same unless the configuration names them"""
    return list(ep[3:6]) if len(ep) >= 6 else list(ep[:3])


def _cfg0(c):
    return [c["cipher"], c["mac"], c["comp"]] + list(c.get("rev") or [])


def _asym(ep):
    return _fw(ep) != _rv(ep)


def _keys(c, d=0):
    """iv, key, integrity key of direction d (0: sender -> receiver, 1: receiver -> sender)"""
    seed = hashlib.sha512(("%s/%s/%s%s" % (c["cipher"], c["mac"], c.get("padseed", 0), "/rev" if d else "")).encode()).digest()
    return seed[:16] * 2, seed[16:48] + seed[:8], seed[:64]


def _mk(cls, c, sender=True):
    """a connected transport past its first key exchange: the sender's outgoing algorithms (= the receiver's incoming ones)
    are the case's cipher/mac, the other direction's are c["rev"] (RFC 4253 7.1 negotiates each direction by itself);
    each direction has its own keys"""
    t = cls()
    t._log = _QUIET
    t.makeConnection(StringTransport())
    t._keyExchangeState = t._KEY_EXCHANGE_NONE
    t._blockedByKeyExchange = None
    t.transport.clear()
    cfg = _cfg0(c)
    out, inn = (_fw(cfg), _rv(cfg)) if sender else (_rv(cfg), _fw(cfg))
    enc = transport.SSHCiphers(out[0].encode(), inn[0].encode(), out[1].encode(), inn[1].encode())
    ko, ki = (_keys(c, 0), _keys(c, 1)) if sender else (_keys(c, 1), _keys(c, 0))
    enc.setKeys(ko[0], ko[1], ki[0], ki[1], ko[2], ki[2])
    t.currentEncryptions = enc
    return t


BIG = 20000       # a run whose wire is longer is oracle-only (the list-based model is slow) and its observable is abbreviated


def _data(m):
    """the data of a message of a case: hex | n (n zero bytes) | ["z", n] zeros | ["r", n, seed] incompressible |
    ["p", n, hex] a pattern repeated to n bytes"""
    d = m[1]
    if isinstance(d, str):
        return bytes.fromhex(d)
    if isinstance(d, int):
        return b"\x00" * d
    kind, n = d[0], d[1]
    if kind == "z":
        return b"\x00" * n
    if kind == "r":
        return random.Random(d[2]).randbytes(n)
    if kind == "p":
        pat = bytes.fromhex(d[2]) or b"\x00"
        return (pat * (n // len(pat) + 1))[:n]
    raise ValueError(kind)


def _short(e):
    """an event with a long payload abbreviated (observable of oracle-only runs)"""
    if len(e) <= 300:
        return e
    head, _, body = e.partition(":")
    return "%s:#%s/%d" % (head, hashlib.sha1(body.encode()).hexdigest(), len(body) // 2)


def ident_bytes(c):
    if c.get("gv"):
        return b""
    return b"".join(bytes.fromhex(l) + b"\n" for l in c.get("banner", [])) + bytes.fromhex(c["version"]) + bytes.fromhex(c["eol"])


def segments(stream, cuts):
    segs, i = [], 0
    for n in cuts:
        if i >= len(stream):
            break
        n = max(0, n)
        segs.append(stream[i:i + n])
        i += n
    if i < len(stream):
        segs.append(stream[i:])
    return segs


_CACHE = {}


def _execute(c):
    """run the real transports; → dict(obs, line, exc, meta)"""
    import zlib
    key = repr(sorted(c.items()))
    if key in _CACHE:
        return _CACHE[key]
    if "hist" in c:
        res = _execute_hist(c)
        if len(_CACHE) > 64:
            _CACHE.clear()
        _CACHE[key] = res
        return res
    rec = {"enc": [], "mac": [], "comp": [], "dec": [], "ver": [], "decomp": [], "pads": [], "pkts": []}
    res = {"exc": None, "rec": rec}
    prng = random.Random(c.get("padseed", 0))
    real_random = transport.randbytes.secureRandom

    def fake_random(n):
        b = bytes(prng.randrange(256) for _ in range(n))
        rec["pads"].append(b)
        return b

    S = _mk(transport.SSHClientTransport if c.get("dir") else transport.SSHServerTransport, c, True)
    R = _mk(transport.SSHServerTransport if c.get("dir") else transport.SSHClientTransport, c, False)
    S.outgoingPacketSequence = R.incomingPacketSequence = c["seq0"]
    se, re_ = S.currentEncryptions, R.currentEncryptions
    bs, ms = _bs_of(c["cipher"]), _MS[c["mac"]]
    oe, om, od, ov = se.encrypt, se.makeMAC, re_.decrypt, re_.verify

    def enc(x):
        o = oe(x)
        rec["enc"].append((bytes(x), o))
        return o

    def mac(q, x):
        o = om(q, x)
        rec["mac"].append((q, bytes(x), o))
        return o

    def dec(x):
        o = od(x)
        rec["dec"].append((bytes(x), o))
        return o

    def ver(q, x, m):
        o = ov(q, x, m)
        rec["ver"].append((q, bytes(x), bytes(m), bool(o)))
        return o

    se.encrypt, se.makeMAC, re_.decrypt, re_.verify = enc, mac, dec, ver
    if c["comp"] == "zlib":
        S.outgoingCompression = _CompProxy(zlib.compressobj(6), rec["comp"])
        R.incomingCompression = _DecompProxy(zlib.decompressobj(), rec["decomp"])
    if _rv(_cfg0(c))[2] == "zlib":      # the other direction's compression (never used by this run)
        S.incomingCompression = zlib.decompressobj()
        R.outgoingCompression = zlib.compressobj(6)

    msgs = [(m[0], _data(m)) for m in c["msgs"]]
    transport.randbytes.secureRandom = fake_random
    try:
        for mt, data in msgs:
            before = len(S.transport.value())
            npads = len(rec["pads"])
            try:
                S.sendPacket(mt, data)
            except Exception as e:  # observable: the sender refused / crashed
                res["exc"] = e
                break
            rec["pkts"].append(len(S.transport.value()) - before)
            if len(rec["pads"]) == npads:
                rec["pads"].append(b"")
    finally:
        transport.randbytes.secureRandom = real_random
    wire = S.transport.value()
    ident = ident_bytes(c)
    stream = bytearray(ident + wire)
    tam = c.get("tamper")
    toff = None
    if tam and wire:
        toff = len(ident) + tam[0] % len(wire)
        stream[toff] ^= tam[1]
    stream = bytes(stream)
    segs = segments(stream, c.get("cuts", []))

    evs = []
    if c.get("gv"):
        R.gotVersion = True
    R.dispatchMessage = lambda n, p: evs.append("M%d:%s" % (n, hx(p)))
    osd = R.sendDisconnect

    def sd(reason, desc):
        evs.append("D%d:%s" % (reason, hx(desc)))
        return osd(reason, desc)

    R.sendDisconnect = sd
    had = R.gotVersion
    if res["exc"] is None:
        try:
            for s in segs:
                n0 = len(evs)
                R.dataReceived(s)
                if R.gotVersion and not had:
                    had = True
                    evs.insert(n0, "V:" + hx(R.otherVersionString))
                if R.transport.disconnecting:
                    break
        except Exception as e:
            res["exc"] = e
    res["evs"] = evs
    res["meta"] = {"bs": bs, "ms": ms, "pkts": rec["pkts"], "toff": toff, "ident": len(ident), "wire": len(wire), "nseg": len(segs),
                   "long": max([len(wire)] + [len(d) for _, d in msgs])}
    if res["meta"]["long"] > BIG and not c.get("model"):
        # oracle-only: no line for the model, abbreviated observable
        res["obs"] = "wire=#%s/%d|ev=%s|ok=1" % (hashlib.sha1(wire).hexdigest(), len(wire), ",".join(_short(e) for e in evs))
        res["line"] = None
        res.pop("rec")
        _CACHE.clear()
        _CACHE[key] = res
        return res
    res["obs"] = "wire=%s|ev=%s|ok=1" % (hx(wire), ",".join(evs))

    def script(pairs, isid):
        if isid:
            return "id"
        return ";".join(hx(i) + ":" + ("!" if o is None else hx(o)) for i, o in pairs) or "-"

    pads = rec["pads"] + [b""] * len(msgs)
    line = " ".join([
        "run", str(bs), str(ms), str(c["seq0"]), "1" if c.get("gv") else "0", hx(ident),
        ";".join("%d:%s:%s" % (mt, hx(d), hx(pads[i])) for i, (mt, d) in enumerate(msgs)) or "-",
        ",".join(str(len(s)) for s in segs) or "-",
        "-" if toff is None else "%d:%d" % (toff, tam[1]),
        script(rec["enc"], c["cipher"] == "none"),
        ";".join("%d:%s:%s" % (q, hx(x), hx(o)) for q, x, o in rec["mac"] if o) or "-",
        script(rec["comp"], c["comp"] == "none"),
        script(rec["dec"], c["cipher"] == "none"),
        ";".join("%d:%s:%s:%d" % (q, hx(x), hx(m), o) for q, x, m, o in rec["ver"]) or "-",
        script(rec["decomp"], c["comp"] == "none"),
    ])
    res["line"] = line
    res.pop("rec")
    if len(_CACHE) > 64:
        _CACHE.clear()
    _CACHE[key] = res
    return res



# ------------------------------------------------------------------------------------------------
# histories: key (re-)exchange on the sending side while the application keeps sending
#
# case["hist"] is a list of things that happen to the SENDING transport, in order:
#   ["s", type, hex]  the application (or a service) calls sendPacket(type, data)
#   ["k"]             this side starts a key exchange: sendKexInit()
#   ["p"]             the peer's KEXINIT arrives: ssh_KEXINIT(payload) — real negotiation of case["epochs"][round]
#   ["y"]             the key exchange computation finished: _keySetup(sharedSecret, exchangeHash) — sends NEWKEYS
#   ["n"]             the peer's NEWKEYS arrives: ssh_NEWKEYS(b"") — new keys taken into use, held-back messages flushed
# The receiving transport reads the resulting stream (any segmentation); when it dispatches a KEXINIT it runs its own
# real ssh_KEXINIT + _keySetup (same secret), when it dispatches NEWKEYS its real ssh_NEWKEYS.

def _allowed_rfc(mt):
    """RFC 4253 section 7.1 (+ RFC 8308): what may be sent while a key exchange is in progress"""
    if 1 <= mt <= 19:
        return mt not in (5, 6, 7)
    if 20 <= mt <= 29:
        return mt != 20
    return 30 <= mt <= 49


class _ZlibShim:
    def __init__(self, real, ctx):
        self.real, self.ctx = real, ctx

    def compressobj(self, *a):
        log = []
        self.ctx["created"].append((self.ctx["who"], "comp", log))
        return _CompProxy(self.real.compressobj(*a), log)

    def decompressobj(self, *a):
        log = []
        self.ctx["created"].append((self.ctx["who"], "decomp", log))
        return _DecompProxy(self.real.decompressobj(*a), log)

    def __getattr__(self, n):
        return getattr(self.real, n)


def _wrap_out(ciph, ep):
    oe, om = ciph.encrypt, ciph.makeMAC

    def enc(x):
        o = oe(x)
        ep["enc"].append((bytes(x), o))
        return o

    def mac(q, x):
        o = om(q, x)
        ep["mac"].append((q, bytes(x), o))
        return o

    ciph.encrypt, ciph.makeMAC = enc, mac


def _wrap_in(ciph, ep):
    od, ov = ciph.decrypt, ciph.verify

    def dec(x):
        o = od(x)
        ep["dec"].append((bytes(x), o))
        return o

    def ver(q, x, m):
        o = ov(q, x, m)
        ep["ver"].append((q, bytes(x), bytes(m), bool(o)))
        return o

    ciph.decrypt, ciph.verify = dec, ver


def _secret(c, k):
    h = hashlib.sha256(("kex/%d/%d" % (c.get("padseed", 0), k)).encode()).digest()
    return b"\x00\x00\x00\x20" + h, hashlib.sha256(h).digest()


def _restrict(t, ep):
    """what this transport supports in the coming key exchange: this round's algorithms (of both directions)"""
    fw, rv = _fw(ep), _rv(ep)
    t.supportedKeyExchanges = [b"curve25519-sha256"]
    t.supportedPublicKeys = [b"ssh-ed25519", b"rsa-sha2-256"]
    for k, name in enumerate(("supportedCiphers", "supportedMACs", "supportedCompressions")):
        setattr(t, name, [fw[k].encode()] + ([rv[k].encode()] if rv[k] != fw[k] else []))


def _peer_kexinit(cls, ep, sender_is_client=False):
    """a KEXINIT payload as the other side's real sendKexInit writes it for this round's algorithms.  When the round has
    different algorithms for the two directions, the name-lists of the payload are per direction (RFC 4253 7.1:
    encryption/mac/compression_algorithms_client_to_server / _server_to_client) — Twisted's own sendKexInit always writes the
    same list twice, other implementations need not"""
    h = cls()
    h._log = _QUIET
    _restrict(h, ep)
    h.makeConnection(StringTransport())
    p = h.ourKexInitPayload[1:]
    if not _asym(ep):
        return p
    from twisted.conch.ssh.common import NS, getNS
    k = getNS(p[16:], 10)
    f = list(k[:-1])
    cs, sc = (_fw(ep), _rv(ep)) if sender_is_client else (_rv(ep), _fw(ep))
    f[2:8] = [cs[0].encode(), sc[0].encode(), cs[1].encode(), sc[1].encode(), cs[2].encode(), sc[2].encode()]
    return p[:16] + b"".join(NS(x) for x in f) + k[-1]


def _execute_hist(c):
    import zlib
    eps = [_cfg0(c)] + [list(e) for e in c.get("epochs", [])]
    prng = random.Random(c.get("padseed", 0))
    randlog = []
    real_random = transport.randbytes.secureRandom

    def fake_random(n):
        b = bytes(prng.randrange(256) for _ in range(n))
        randlog.append(b)
        return b

    ctx = {"who": "S", "created": []}
    res = {"exc": None}
    scls = transport.SSHClientTransport if c.get("dir") else transport.SSHServerTransport
    rcls = transport.SSHServerTransport if c.get("dir") else transport.SSHClientTransport
    S, R = _mk(scls, c, True), _mk(rcls, c, False)
    S.connectionSecure = R.connectionSecure = lambda: None
    from cryptography.hazmat.primitives.asymmetric import x25519
    ecn = [0]

    def ec_key():     # the client's ephemeral key: deterministic, so that a case always gives the same bytes
        ecn[0] += 1
        return x25519.X25519PrivateKey.from_private_bytes(hashlib.sha256(b"ec/%d/%d" % (c.get("padseed", 0), ecn[0])).digest())

    S._generateECPrivateKey = R._generateECPrivateKey = ec_key
    S.outgoingPacketSequence = R.incomingPacketSequence = c["seq0"]

    def new_ep(ciph, comp):
        return {"bs": None, "ms": None, "enc": [], "mac": [], "dec": [], "ver": [], "comp": comp, "decomp": comp, "ciph": ciph}

    sep = [new_ep(eps[0], "id" if eps[0][2] == "none" else [])]      # epochs as the sender goes through them
    rep = [new_ep(eps[0], "id" if eps[0][2] == "none" else [])]      # … and the receiver
    _wrap_out(S.currentEncryptions, sep[0])
    _wrap_in(R.currentEncryptions, rep[0])
    sep[0]["bs"] = _bs_of(eps[0][0])
    rep[0]["bs"], rep[0]["ms"] = _bs_of(eps[0][0]), _MS[eps[0][1]]
    if eps[0][2] == "zlib":
        S.outgoingCompression = _CompProxy(zlib.compressobj(6), sep[0]["comp"])
        R.incomingCompression = _DecompProxy(zlib.decompressobj(), rep[0]["decomp"])
    if _rv(eps[0])[2] == "zlib":      # the other direction's compression (never used by this run)
        S.incomingCompression = zlib.decompressobj()
        R.outgoingCompression = zlib.compressobj(6)

    ops, sent, writes = [], [], []
    st = {"flush": False, "in": None, "round": 0, "ep": 0, "pending": None, "hop": 0}
    real_sp, real_nk, real_ski = S.sendPacket, S._newKeys, S.sendKexInit

    def sp(mt, payload):
        before, nr = len(S.transport.value()), len(randlog)
        real_sp(mt, payload)
        wrote = len(S.transport.value()) - before
        if wrote:
            writes.append({"mt": mt, "data": bytes(payload), "pad": randlog[nr] if len(randlog) > nr else b"", "n": wrote, "ep": st["ep"]})
        if st["flush"]:
            return
        sent.append((mt, bytes(payload), st["hop"]))
        if st["in"] == "kexinit" and mt == 20:
            st["pending"][1] = len(sent) - 1
            st["in"] = None
        elif st["in"] == "keysetup" and mt == 21:
            ops.append(["y", len(sent) - 1])
            st["in"] = None
        else:
            ops.append(["s", len(sent) - 1])

    def ski():
        # sendKexInit: the KEXINIT it writes belongs to the op that caused it ("k", or "p" answering the peer)
        own = st["pending"] is None
        if own:
            ops.append(["k", None])
            st["pending"] = ops[-1]
        st["in"] = "kexinit"
        try:
            real_ski()
        finally:
            st["in"] = None
            if own:
                st["pending"] = None

    def nk():
        ops.append(["n"])
        # what _newKeys is about to take into use
        ep = new_ep(st["next"], None)
        sep.append(ep)
        _wrap_out(S.nextEncryptions, ep)
        ep["bs"] = _bs_of(st["next"][0])
        st["ep"] = len(sep) - 1
        st["flush"] = True
        n0 = len(ctx["created"])
        try:
            real_nk()
        finally:
            st["flush"] = False
            # the model is told what the negotiated names say (a fresh compressor iff this direction's compression is zlib),
            # not what the transport did: if it made one it should not have (or none), the scripts do not fit
            made = [x for x in ctx["created"][n0:] if x[1] == "comp"]
            ep["comp"] = (made[0][2] if made else []) if st["next"][2] == "zlib" else "keep"

    S.sendPacket, S._newKeys, S.sendKexInit = sp, nk, ski

    transport.randbytes.secureRandom = fake_random
    transport.zlib = _ZlibShim(zlib, ctx)
    try:
        try:
            for hop, op in enumerate(c["hist"]):
                k = op[0]
                st["hop"] = hop
                if k in ("k", "p"):
                    ep = eps[min(st["round"] + 1, len(eps) - 1)]
                    st["next"] = ep
                    _restrict(S, ep)
                if k == "s":
                    S.sendPacket(op[1], bytes.fromhex(op[2]))
                elif k == "k":
                    S.sendKexInit()
                elif k == "p":
                    ops.append(["p", None])
                    st["pending"] = ops[-1]
                    try:
                        S.ssh_KEXINIT(_peer_kexinit(rcls, ep, bool(c.get("dir"))))
                    finally:
                        st["pending"] = None
                elif k == "y":
                    st["in"] = "keysetup"
                    try:
                        S._keySetup(*_secret(c, st["round"]))
                    finally:
                        st["in"] = None
                    st["round"] += 1
                elif k == "n":
                    S.ssh_NEWKEYS(b"")
                else:
                    raise ValueError(k)
        except Exception as e:   # observable: the sender refused / crashed
            res["exc"] = e
        wire = S.transport.value()
        ident = ident_bytes(c)
        stream = bytearray(ident + wire)
        tam, toff = c.get("tamper"), None
        if tam and wire:
            toff = len(ident) + tam[0] % len(wire)
            stream[toff] ^= tam[1]
        stream = bytes(stream)
        segs = segments(stream, c.get("cuts", []))

        evs = []
        if c.get("gv"):
            R.gotVersion = True
        ctx["who"] = "R"
        rst = {"round": 0}
        real_rnk = R._newKeys

        def rnk():
            ep = new_ep(rst["next"], None)
            rep.append(ep)
            _wrap_in(R.nextEncryptions, ep)
            ep["bs"], ep["ms"] = _bs_of(rst["next"][0]), _MS[rst["next"][1]]
            n0 = len(ctx["created"])
            real_rnk()
            made = [x for x in ctx["created"][n0:] if x[1] == "decomp"]
            ep["decomp"] = (made[0][2] if made else []) if rst["next"][2] == "zlib" else "keep"

        R._newKeys = rnk

        def dispatch(n, p):
            evs.append("M%d:%s" % (n, hx(p)))
            if n == 20:
                ep = eps[min(rst["round"] + 1, len(eps) - 1)]
                rst["next"] = ep
                _restrict(R, ep)
                # per-direction algorithms: the receiver is handed the KEXINIT of a peer that lists them per direction
                # (the one on the wire, written by Twisted's sendKexInit, has every list twice)
                type(R).ssh_KEXINIT(R, _peer_kexinit(scls, ep, bool(c.get("dir"))) if _asym(ep) else p)
                R._keySetup(*_secret(c, rst["round"]))
                rst["round"] += 1
            elif n == 21:
                type(R).ssh_NEWKEYS(R, p)

        R.dispatchMessage = dispatch
        osd = R.sendDisconnect

        def sd(reason, desc):
            evs.append("D%d:%s" % (reason, hx(desc)))
            return osd(reason, desc)

        R.sendDisconnect = sd
        had = R.gotVersion
        if res["exc"] is None:
            try:
                for s in segs:
                    n0 = len(evs)
                    R.dataReceived(s)
                    if R.gotVersion and not had:
                        had = True
                        evs.insert(n0, "V:" + hx(R.otherVersionString))
                    if R.transport.disconnecting:
                        break
            except Exception as e:
                res["exc"] = e
    finally:
        transport.randbytes.secureRandom = real_random
        transport.zlib = zlib

    res["obs"] = "wire=%s|ev=%s|ok=1" % (hx(wire), ",".join(evs))
    res["evs"] = evs
    res["sent"] = sent
    res["writes"] = writes
    res["meta"] = {"bs": rep[0]["bs"], "ms": rep[0]["ms"], "pkts": [w["n"] for w in writes], "toff": toff, "ident": len(ident),
                   "wire": len(wire), "nseg": len(segs), "hist": True,
                   "wep": [w["ep"] for w in writes], "epms": [e["ms"] for e in rep], "epbs": [e["bs"] for e in sep]}

    # the line for the model: the sender's history in terms of sendPacket / sendKexInit / ssh_KEXINIT / _newKeys calls, with
    # the random padding each message got when it was written (messages are written in the order the RFC prescribes:
    # held-back ones after NEWKEYS, in the order they were sent — pads are handed out along that order)
    order = _expected_order(c, sent, ops)
    pad_of = {}
    for k, i in enumerate(order):
        if k < len(writes):
            pad_of[i] = writes[k]["pad"]

    def msg(i):
        mt, d, _ = sent[i]
        return "%d:%s:%s" % (mt, hx(d), hx(pad_of.get(i, b"")))

    toks = []
    for op in ops:
        if op[0] == "n" or op[1] is None:
            toks.append(op[0])
        else:
            toks.append(op[0] + ":" + msg(op[1]))

    def script(pairs, isid=False):
        if isid:
            return "id"
        return ";".join(hx(i) + ":" + ("!" if o is None else hx(o)) for i, o in pairs) or "-"

    def zs(v):
        return v if isinstance(v, str) else script(v)

    def sepoch(e):
        return "/".join([str(e["bs"]), script(e["enc"], e["ciph"][0] == "none"),
                         ";".join("%d:%s:%s" % (q, hx(x), hx(o)) for q, x, o in e["mac"] if o) or "-", zs(e["comp"])])

    def repoch(e):
        return "/".join([str(e["bs"]), str(e["ms"]), script(e["dec"], e["ciph"][0] == "none"),
                         ";".join("%d:%s:%s:%d" % (q, hx(x), hx(m), o) for q, x, m, o in e["ver"]) or "-", zs(e["decomp"])])

    # receiver epochs the receiver never reached are still announced to the model (it must not take them into use either)
    res["line"] = " ".join([
        "hist", str(c["seq0"]), "1" if c.get("gv") else "0", hx(ident), ",".join(toks) or "-",
        ",".join(str(len(s)) for s in segs) or "-", "-" if toff is None else "%d:%d" % (toff, tam[1]),
        "|".join(sepoch(e) for e in sep), "|".join(repoch(e) for e in rep)])
    return res


def _expected_order(c, sent, ops):
    """indices into `sent` in the order RFC 4253 7.1 has them on the wire: while a key exchange is in progress only
    the messages allowed during key exchange go out, the others wait for NEWKEYS and then go out in the order they
    were sent (and, this transport taking the new keys into use only then, so does everything sent after its own NEWKEYS)"""
    out, held, inkex, newkeys_sent = [], [], False, False
    for op in ops:
        if op[0] == "n":
            out += held
            held, inkex, newkeys_sent = [], False, False
            continue
        i = op[1]
        if i is None:
            continue
        mt = sent[i][0]
        if inkex and (newkeys_sent or not _allowed_rfc(mt)):
            held.append(i)
        else:
            out.append(i)
        if op[0] in ("k", "p"):
            inkex = True
        if op[0] == "y" and inkex:
            newkeys_sent = True
    return out


def model_line(c):
    return _execute(c)["line"]


def run_impl(c):
    r = _execute(c)
    if r["exc"] is not None:
        raise r["exc"]
    return r["obs"]


# ------------------------------------------------------------------------------------------------
# the property, on the real run only

def _ident_ok(c):
    if c.get("gv"):
        return True
    v = bytes.fromhex(c["version"])
    if not (v.startswith(b"SSH-2.0-") or v.startswith(b"SSH-1.99-")) or b"\n" in v:
        return False
    for l in c.get("banner", []):
        l = bytes.fromhex(l)
        if b"\n" in l or l.startswith(b"SSH-"):
            return False
    return len(ident_bytes(c)) <= 4096


def _sizes_ok(c, meta):
    for p in meta["pkts"]:
        if p - meta["ms"] - 4 > LIMIT:
            return False
    return True



def _hist_walk(c):
    """The case's history read with the protocol in hand (nothing taken from the transports): for every op the key exchange
    round in progress before / after it and whether this side's NEWKEYS is already out; whether the history is one the
    protocol allows; the index of a sendKexInit() made while a key exchange is in progress (documented RuntimeError)."""
    inkex, rnd, gotp, goty, gotn = False, 0, False, False, False
    info, valid, misuse = [], True, None
    for i, op in enumerate(c["hist"]):
        k = op[0]
        before = rnd if inkex else None
        sent_nk = goty and inkex
        if k == "s":
            if op[1] in (20, 21):
                valid = False     # KEXINIT / NEWKEYS are the transport's business
        elif k == "k":
            if inkex:
                misuse = i
                info.append((before, before, sent_nk))
                break
            inkex, gotp, goty, gotn = True, False, False, False
        elif k == "p":
            if inkex and gotp:
                valid = False
            if not inkex:
                inkex, goty, gotn = True, False, False
            gotp = True
        elif k == "y":
            if not (inkex and gotp) or goty:
                valid = False
            goty = True
        elif k == "n":
            if not (inkex and gotp) or gotn:
                valid = False
            if not goty and not c.get("dir"):
                valid = False     # the peer of a server sends NEWKEYS only after it has seen the server's
            gotn = True
        else:
            valid = False
        after = rnd if inkex else None
        info.append((before, after, sent_nk))
        if inkex and goty and gotn:
            inkex, gotp, goty, gotn = False, False, False, False
            rnd += 1
    return info, valid, misuse, (rnd if inkex else None)


def _oracle_hist(c, out, r):
    info, valid, misuse, open_round = _hist_walk(c)
    if out.startswith("!raised"):
        if misuse is not None and out == "!raised RuntimeError":
            return None       # sendKexInit documents it
        if not valid:
            return None
        return {"key": "kex-raised", "detail": f"{out} for the history {c['hist']} (dir={c.get('dir')})"}
    if not valid or misuse is not None or not _ident_ok(c):
        return None
    meta, evs, sent, writes = r["meta"], r["evs"], r["sent"], r["writes"]
    for w in writes:
        if w["n"] - meta["epms"][min(w["ep"], len(meta["epms"]) - 1)] - 4 > LIMIT:
            return None
    exp0 = []
    if not c.get("gv"):
        exp0 = ["V:" + hx(bytes.fromhex(c["version"]).rstrip(b"\r"))]
        if evs[:1] != exp0:
            return {"key": "ident", "detail": f"ident={ident_bytes(c)!r} cuts={c.get('cuts')} got {evs[:3]}"}
    got = evs[len(exp0):]
    toff = meta["toff"]
    if toff is not None:
        # one byte altered: what was written before the altered packet is delivered, the altered one never, then a disconnect
        if toff < meta["ident"]:
            return None
        off, j = toff - meta["ident"], 0
        while off >= writes[j]["n"]:
            off -= writes[j]["n"]
            j += 1
        if any(e[1] == "none" for e in [[c["cipher"], c["mac"]]] + [list(x) for x in c.get("epochs", [])]):
            return None
        exp = ["M%d:%s" % (w["mt"], hx(w["data"])) for w in writes[:j]]
        got_m = [e for e in got if not e.startswith("D")]
        got_d = [e for e in got if e.startswith("D")]
        if got_m != exp[:len(got_m)] or len(got_m) > len(exp):
            return {"key": "tamper-delivered", "detail": f"byte {off} of packet {j} altered: dispatched {got_m[len(exp):][:2]}"}
        if len(got_m) < len(exp):
            return {"key": "delivery", "detail": f"packets before the altered one not delivered: {evs[-3:]}"}
        bs = meta["epbs"][min(writes[j]["ep"], len(meta["epbs"]) - 1)]
        if not got_d and off >= bs:
            return {"key": "tamper-undetected", "detail": f"byte {off} of packet {j} altered, no disconnect"}
        if got_d and got[-1] != got_d[0]:
            return {"key": "tamper-delivered", "detail": f"events after the disconnect: {evs[-3:]}"}
        return None

    hist_txt = f"history {c['hist']} dir={c.get('dir')} {c['cipher']}/{c['mac']}/{c['comp']} -> {c.get('epochs')}"
    ds = [e for e in got if e.startswith("D")]
    if ds:
        return {"key": "kex-disconnect", "detail": f"the peer disconnected ({bytes.fromhex(ds[0].split(':')[1].replace('-', ''))!r}) "
                                                     f"after {len(got) - 1} of {len(sent)} payloads: " + hist_txt}

    def rnd(i):
        mt, _, hop = sent[i]
        before, after, _ = info[hop]
        return before if (mt == 20 or c["hist"][hop][0] not in ("k", "p")) else after

    def after_own_newkeys(i):
        mt, _, hop = sent[i]
        return info[hop][2] or (c["hist"][hop][0] == "y" and mt != 21)

    # every delivered payload is one that was sent (each at most once) …
    pos, used = {}, set()
    for k, e in enumerate(got):
        for i, (mt, d, _) in enumerate(sent):
            if i not in used and e == "M%d:%s" % (mt, hx(d)):
                used.add(i)
                pos[i] = k
                break
        else:
            return {"key": "kex-spurious", "detail": f"delivered {e[:40]} (event {k}) which was not sent (or not that often): " + hist_txt}
    # … every sent payload is delivered, except what the protocol holds back while the last key exchange is unfinished …
    for i, (mt, d, _) in enumerate(sent):
        if i in pos:
            continue
        if open_round is not None and rnd(i) == open_round and (not _allowed_rfc(mt) or after_own_newkeys(i)):
            continue
        return {"key": "kex-lost", "detail": f"payload {i} (type {mt}, {hx(d)[:24]}) was never delivered: " + hist_txt}
    # … in the order they were sent; only a message that is allowed during key exchange may overtake payloads that are
    # held back by that same key exchange (RFC 4253 7.1)
    idx = sorted(pos)
    for a in range(len(idx)):
        for b in range(a + 1, len(idx)):
            i, j = idx[a], idx[b]
            if pos[j] < pos[i]:
                ok = (rnd(i) is not None and rnd(i) == rnd(j) and _allowed_rfc(sent[j][0])
                      and (not _allowed_rfc(sent[i][0]) or after_own_newkeys(i)))
                if not ok:
                    return {"key": "kex-order", "detail": f"payload {j} (type {sent[j][0]}, {hx(sent[j][1])[:16]}) delivered before payload "
                                                           f"{i} (type {sent[i][0]}, {hx(sent[i][1])[:16]}) which was sent earlier: " + hist_txt}
    # a payload that may not be sent during key exchange is not delivered between the peer's KEXINIT and NEWKEYS
    for i in pos:
        if rnd(i) is not None and not _allowed_rfc(sent[i][0]):
            nk = [pos[j] for j in pos if sent[j][0] == 21 and rnd(j) == rnd(i)]
            if not nk or pos[i] < nk[0]:
                return {"key": "kex-not-held", "detail": f"payload {i} (type {sent[i][0]}) sent during key exchange was delivered before NEWKEYS: " + hist_txt}
    return None


def oracle(c, out):
    r = _execute(c)
    if "hist" in c:
        return _oracle_hist(c, out, r)
    meta = r["meta"]
    if out.startswith("!raised"):
        if c["seq0"] + len(c["msgs"]) > 2**32 and c["mac"] != "none":
            return {"key": "seq-wrap", "detail": f"sequence number {c['seq0']}+{len(c['msgs'])} messages: {out} "
                                                   "(RFC 4253 6.4: the sequence number wraps around to zero after every 2^32 packets)"}
        return {"key": "raised", "detail": out}
    if not _ident_ok(c) or not _sizes_ok(c, meta):
        return None
    evs = r["evs"]
    exp = []
    toff = meta["toff"]
    msgs_ev = ["M%d:%s" % (m[0], hx(_data(m))) for m in c["msgs"]]
    ds = [bytes.fromhex(e.split(":", 1)[1]) if not e.endswith(":-") else b"" for e in evs if e.startswith("D")]
    if not c.get("gv"):
        # identification phase: the version line is recorded exactly, nothing before it disturbs the transport
        exp.append("V:" + hx(bytes.fromhex(c["version"]).rstrip(b"\r")))
        detail = f"ident={ident_bytes(c)!r} cuts={str(c.get('cuts'))[:200]} got {[_short(e) for e in evs[:3]]}"
        if any(d.startswith(b"Peer version string longer") for d in ds):
            return {"key": "ident-4k-coalesced", "detail": "identification <= 4096 bytes but refused when delivered together with packets: " + detail}
        if evs and evs[0].startswith("V:") and evs[0] != exp[0]:
            return {"key": "ident-version-misparsed", "detail": "wrong/incomplete version line taken: " + detail}
        if evs and evs[0].startswith("D"):
            return {"key": "ident-banner-as-packet", "detail": "line before the version line parsed as a binary packet: " + detail}
        if not evs or evs[0] != exp[0]:
            return {"key": "ident", "detail": detail}
    if toff is None:
        exp += msgs_ev
        if evs == exp:
            return None
        detail = f"ident={ident_bytes(c)!r} cuts={str(c.get('cuts'))[:200]} expected {len(exp)} events, got {[_short(e) for e in evs[:4]]}"
        return {"key": "delivery", "detail": detail}
    # one byte altered
    if c["mac"] == "none" or toff < meta["ident"]:
        return None
    off, j = toff - meta["ident"], 0
    while off >= meta["pkts"][j]:
        off -= meta["pkts"][j]
        j += 1
    exp += msgs_ev[:j]
    got_m = [e for e in evs if not e.startswith("D")]
    got_d = [e for e in evs if e.startswith("D")]
    if got_m != exp[:len(got_m)] or len(got_m) > len(exp):
        return {"key": "tamper-delivered", "detail": f"byte {off} of packet {j} altered ({c['cipher']},{c['mac']},{c['comp']}): dispatched {[_short(e) for e in got_m[len(exp):][:2]]}"}
    if len(got_m) < len(exp):
        return {"key": "delivery", "detail": f"packets before the altered one not delivered: {[_short(e) for e in evs[:4]]}"}
    if not got_d and off >= meta["bs"]:
        return {"key": "tamper-undetected", "detail": f"byte {off} of packet {j} altered, no disconnect ({c['cipher']},{c['mac']},{c['comp']})"}
    if got_d and evs[-1] != got_d[0]:
        return {"key": "tamper-delivered", "detail": f"events after the disconnect: {[_short(e) for e in evs[-3:]]}"}
    return None


# ------------------------------------------------------------------------------------------------
# cases

def _base(**kw):
    c = {"cipher": "aes128-ctr", "mac": "hmac-sha2-256", "comp": "none", "seq0": 3, "gv": 1, "dir": 0,
         "msgs": [[94, "68656c6c6f"]], "padseed": 1, "cuts": []}
    c.update(kw)
    return c


V = b"SSH-2.0-OpenSSH_9.6".hex()


def corpus():
    return [
        _base(),
        _base(gv=0, banner=[], version=V, eol="0d0a", cuts=[]),
        # witnesses found on the unchanged tree (kept as regression cases)
        _base(gv=0, banner=[b"Welcome to the server".hex()], version=V, eol="0d0a", cuts=[22]),
        _base(gv=0, banner=[b"x SSH-".hex()], version=V, eol="0d0a", cuts=[17]),
        _base(gv=0, banner=[], version=V, eol="0d0a", msgs=[[94, 5000]], cuts=[]),
        _base(gv=0, cipher="none", mac="none", banner=[], version=V, eol="0d0a", msgs=[[10, b"SSH-aaaa".hex()], [94, "00"]], cuts=[]),
        _base(seq0=2**32 - 1, msgs=[[94, "01"], [94, "02"], [95, "03"]]),
        _base(seq0=2**32 - 2, mac="hmac-sha1", cipher="aes256-cbc", comp="zlib", msgs=[[94, "01"], [94, "02"], [95, "03"]], cuts=[1] * 40),
        # boundaries
        _base(gv=0, banner=[(b"b" * 4000).hex()], version=V + (b" " * (4096 - 4001 - 19 - 2)).hex(), eol="0d0a", cuts=[4096]),
        _base(gv=0, banner=[(b"b" * 4000).hex()], version=V + (b" " * (4096 - 4001 - 19 - 1)).hex(), eol="0d0a", cuts=[1] * 5000),
        _base(tamper=[0, 1]), _base(tamper=[4, 255]), _base(tamper=[20, 1]), _base(tamper=[33, 128], cipher="3des-cbc", mac="hmac-md5"),
        _base(comp="zlib", tamper=[7, 2], mac="none"), _base(comp="zlib", msgs=[[94, 300], [94, 300]], tamper=[30, 2], mac="none", cipher="none"),
        _base(msgs=[[94, ""], [1, ""], [255, "00"]], cuts=[1] * 200),
        # mutation audit (harness/mutants/C35): the other direction of the connection uses other algorithms — another MAC
        # length (m01), another block size (m02), a MAC in one direction only (m09), compression in one direction only
        _base(mac="hmac-sha1", rev=["aes128-ctr", "hmac-sha2-256", "none"], msgs=[[94, "68656c6c6f"], [95, "78"]]),
        _base(cipher="aes128-cbc", mac="hmac-sha1", rev=["3des-cbc", "hmac-sha1", "zlib"], msgs=[[94, "68656c6c6f"], [95, "78"]], cuts=[1] * 200),
        _base(cipher="3des-cbc", mac="hmac-md5", comp="zlib", rev=["aes256-ctr", "hmac-md5", "none"], msgs=[[94, "68656c6c6f"], [95, "78"]], dir=1),
        _base(mac="hmac-sha1", rev=["aes128-ctr", "none", "none"], msgs=[[94, "68656c6c6f"], [95, "78"]]),
        _base(mac="hmac-sha1", rev=["aes128-ctr", "none", "none"], msgs=[[94, "68656c6c6f"], [95, "78"]], tamper=[10, 1]),
        _base(mac="none", rev=["aes128-ctr", "hmac-sha2-512", "none"], msgs=[[94, "68656c6c6f"], [95, "78"]], dir=1),
        # long messages: beyond 256 KiB (m05: a lower packet limit), decompressing to more than 256 KiB / than the packet limit (m06)
        _base(msgs=[[94, ["r", 300000, 1]], [95, "78"]]),
        _base(comp="zlib", msgs=[[94, ["z", 300000]], [95, "78"]]),
        _base(comp="zlib", cipher="3des-cbc", mac="hmac-sha1", msgs=[[2, "00"], [94, ["p", 3 * LIMIT + 17, "616263640a"]], [95, "78"]], cuts=[100, 1000]),
        _base(msgs=[[94, ["r", LIMIT - 4096, 2]], [95, "78"]], tamper=[500000, 1]),
        # lines before the version line that contain its text (m07), CR LF inside the packets that arrive together with the
        # version line (m13)
        _base(gv=0, banner=[(b"please use " + bytes.fromhex(V) + b"\r").hex()], version=V, eol="0d0a", cuts=[]),
        _base(gv=0, banner=[(b" " + bytes.fromhex(V)).hex(), (b"> " + bytes.fromhex(V)).hex()], version=V, eol="0a", cuts=[60]),
        _base(gv=0, cipher="none", mac="none", banner=[], version=V, eol="0d0a", msgs=[[94, b"line1\r\nline2".hex()], [95, "78"]], cuts=[]),
        _base(gv=0, cipher="none", mac="hmac-sha1", banner=["6869"], version=V, eol="0d0a", msgs=[[94, b"\r\n\r\n".hex()], [2, "0d"], [95, "0d0a"]], cuts=[30]),
    ] + _hist_corpus()



E1 = ["aes256-cbc", "hmac-sha1", "zlib"]
E2 = ["3des-cbc", "hmac-sha2-512", "none"]


def _h(hist, **kw):
    kw.setdefault("epochs", [E1, E2])
    return _base(msgs=[], hist=hist, **kw)


def _hist_corpus():
    S = lambda t, d: ["s", t, d]    # noqa: E731
    K, P, Y, N = ["k"], ["p"], ["y"], ["n"]
    return [
        # payloads sent while a re-key is in flight are held back and delivered in the order they were sent
        # (>= 2 held back: seeded change C35-2 reversed them), re-key started by this side / by the peer, both roles
        _h([S(94, "aa"), K, S(94, "b1"), S(94, "b2"), S(95, "b3"), P, S(94, "b4"), Y, S(96, "b5"), N, S(97, "cc")]),
        _h([S(94, "aa"), P, S(94, "b1"), S(94, "b2"), Y, S(5, "b3"), S(94, ""), N, S(97, "cc")], dir=1, cuts=[1] * 2000),
        _h([K, P, S(94, "b1"), S(94, "b1"), S(94, "b2"), Y, N], dir=1, comp="zlib", epochs=[E2]),
        # messages allowed during key exchange overtake the held-back ones, not each other
        _h([S(94, "aa"), K, S(94, "b1"), S(2, "c1"), S(4, "c2"), P, S(94, "b2"), S(35, "c3"), Y, N, S(2, "c4")]),
        # found on the unchanged tree (fixed): a message allowed during key exchange sent between our NEWKEYS and the
        # peer's was encrypted with the old keys while the peer already expected the new ones
        _h([S(94, "aa"), K, P, S(94, "b1"), Y, S(2, "1234"), S(94, "b2"), N, S(97, "ff")]),
        _h([P, Y, S(4, "0100000000"), N, S(94, "ff")], dir=1, cipher="none", mac="none"),
        # found on the unchanged tree (fixed): a client that got NEWKEYS before its keys were ready (asynchronous host key
        # check) remembered that for ever and took the keys of the next exchange into use without waiting
        _h([P, N, Y, S(94, "aa"), K, P, Y, S(94, "bb"), N, S(94, "cc")], dir=1),
        _h([P, S(94, "a0"), N, S(94, "a1"), S(2, "a2"), Y, S(94, "aa"), P, S(94, "b1"), S(94, "b2"), N, S(2, "b3"), Y, S(94, "cc")], dir=1),
        # the first key exchange of a connection (nothing encrypted yet), three exchanges in a row, compression kept when
        # the new algorithm is `none`, history ending in the middle of an exchange, sendKexInit during an exchange
        _h([K, S(5, "0000000c7373682d7573657261757468"), P, Y, S(94, "b2"), N, S(94, "cc")], cipher="none", mac="none", dir=1),
        _h([K, P, Y, N, S(94, "aa"), P, S(94, "b1"), Y, N, K, S(94, "c1"), S(94, "c2"), P, Y, N, S(94, "dd")], epochs=[E1, E2, ["aes128-ctr", "hmac-md5", "zlib"]]),
        _h([S(94, "aa" * 40), K, P, S(94, "aa" * 40), S(94, "aa" * 40), Y, N, S(94, "aa" * 40)], comp="zlib", epochs=[E2], cuts=[7] * 400),
        _h([S(94, "aa"), K, S(94, "b1"), S(2, "c1"), P, S(94, "b2"), Y, S(3, "00000001")]),
        _h([S(94, "aa"), K, S(94, "b1"), K, S(94, "b2")]),
        _h([S(94, "aa"), K, S(94, "b1"), S(94, "b2"), P, Y, N, S(94, "cc")], tamper=[700, 4]),
        # mutation audit: a re-key that negotiates the algorithms already in use (the usual case; m08), with messages that are
        # allowed during key exchange sent before our NEWKEYS
        _h([S(94, "aa"), P, S(2, "1234"), Y, N, S(94, "bb")], epochs=[["aes128-ctr", "hmac-sha2-256", "none"]]),
        _h([S(94, "aa"), K, S(2, "12"), P, S(4, "0100000000"), Y, S(94, "b1"), N, S(94, "bb"), K, P, S(2, ""), Y, N, S(94, "cc")], dir=1,
           cipher="3des-cbc", mac="hmac-sha1", comp="zlib", epochs=[["3des-cbc", "hmac-sha1", "zlib"], ["3des-cbc", "hmac-sha1", "zlib"]]),
        # … and one with different algorithms for the two directions (compression one way only: m03, m04; other sizes: m01, m02)
        _h([S(94, "aa"), P, Y, N, S(94, "b1"), S(94, "b2")], epochs=[["aes128-ctr", "hmac-sha1", "zlib", "aes128-ctr", "hmac-sha1", "none"]]),
        _h([S(94, "aa"), P, Y, N, S(94, "b1"), S(94, "b2")], epochs=[["aes128-ctr", "hmac-sha1", "none", "aes128-ctr", "hmac-sha1", "zlib"]]),
        _h([S(94, "aa"), K, S(94, "b0"), P, Y, N, S(94, "b1"), S(94, "b2")], dir=1, rev=["aes192-ctr", "hmac-md5", "zlib"],
           epochs=[["aes256-cbc", "hmac-sha2-512", "none", "3des-cbc", "hmac-sha1", "zlib"], ["3des-cbc", "none", "zlib", "aes128-ctr", "hmac-sha1", "none"]]),
    ]


def _hist(rng, client):
    S_DEFER = [94, 94, 94, 94, 90, 95, 50, 52, 80, 255, 100, 0, 5, 6, 7]
    S_ALLOW = [2, 2, 4, 3, 1, 30, 31, 49, 22, 29, 19, 8]

    def data():
        k = rng.choice([0, 1, 1, 2, 3, 5, 11, 12, 27, rng.randint(0, 40), rng.choice([100, 300])])
        return (bytes([rng.randrange(256)]) * k if rng.random() < 0.5 else bytes(rng.randrange(256) for _ in range(k))).hex()

    def sends(lo, hi, pa=0.25):
        return [["s", rng.choice(S_ALLOW if rng.random() < pa else S_DEFER), data()] for _ in range(rng.randint(lo, hi))]

    h = sends(0, 2, 0.2)
    for _ in range(rng.choice([1, 1, 1, 2, 2, 3])):
        if rng.random() < 0.5:
            h += [["k"]] + sends(0, 3) + [["p"]]
        else:
            h += [["p"]]
        h += sends(0, 3)
        if client and rng.random() < 0.3:
            h += [["n"]] + sends(0, 2) + [["y"]]
        else:
            h += [["y"]] + sends(0, 3, 0.4) + [["n"]]
        h += sends(0, 2, 0.2)
    r = rng.random()
    if r < 0.12:      # ends in the middle of a key exchange
        ks = [i for i, op in enumerate(h) if op[0] in ("p", "y")]
        h = h[: rng.choice(ks) + 1] + sends(0, 2)
    elif r < 0.15:    # sendKexInit() while a key exchange is in progress
        ks = [i for i, op in enumerate(h) if op[0] in ("p",)]
        h.insert(rng.choice(ks) + 1, ["k"])
    return h


def _ident(rng):
    nb = rng.choice([0, 0, 1, 1, 2, 3])
    pool = [b"", b"hi", b"Welcome to the server", b"use SSH-2 please", b"x SSH-", b"SSH", b" SSH-2.0-fake", b"banner\r", b"\r",
            b"-" * rng.randint(1, 40), bytes(rng.randrange(32, 127) for _ in range(rng.randint(0, 60))), b"SSH_", b"ssh-2.0-low",
            b"\x00\x00\x00\x0c\x04", b"b" * rng.choice([7, 8, 9, 100, 1500])]
    banner = [rng.choice(pool) for _ in range(nb)]
    v = rng.choice([b"SSH-2.0-OpenSSH_9.6", b"SSH-2.0-Twisted_23 some comment", b"SSH-1.99-x", b"SSH-2.0-a-b-c", b"SSH-2.0-x SSH- y"])
    if rng.random() < 0.08:
        v = rng.choice([b"SSH-1.5-old", b"SSH-2.0", b"SSH-3.0-new", b"SSH-"])
    if rng.random() < 0.3:
        # lines before the version line that CONTAIN the version line's text (quoted, indented, cut short, doubled):
        # legal (they do not start with "SSH-"), and they defeat locating the version line by its text
        echo = [b" " + v, b"use " + v, b"use " + v + b"\r", b"x" + v + b"\r", v[1:], b"> " + v + b" " + v, b"\t" + v + b"\r"]
        for _ in range(rng.choice([1, 1, 2])):
            banner.insert(rng.randrange(len(banner) + 1), rng.choice(echo))
    if rng.random() < 0.05:   # fill to the 4096 limit +-2
        tot = sum(len(b) + 1 for b in banner) + len(v) + 2
        banner.append(b"f" * max(0, 4096 - tot - 1 + rng.choice([-2, -1, 0, 0, 1, 2])))
    return [b.hex() for b in banner], v.hex(), rng.choice(["0d0a", "0d0a", "0a", "0d0d0a"])


def _msgs(rng, bs):
    n = rng.choice([0, 1, 1, 2, 3, 4, 6])
    out = []
    for _ in range(n):
        k = rng.choice([0, 1, 2, 3, bs - 6, bs - 5, bs - 4, bs - 2, 2 * bs - 6, rng.randint(0, 40), rng.randint(0, 40), rng.choice([100, 300, 1200, 3000])])
        style = rng.random()
        if style < 0.45:
            d = bytes(rng.randrange(256) for _ in range(k))
        elif style < 0.6:
            d = (b"\nSSH-2.0-zz\n" * (k // 12 + 1))[:k]
        elif style < 0.75:     # line terminators inside packet data (CR LF, LF CR, CR CR LF, bare CR)
            pat = rng.choice([b"\r\n", b"ab\r\ncd", b"\r\nSSH-2.0-zz\r\n", b"\n\r", b"\r\r\n", b"x\r"])
            d = (pat * (k // len(pat) + 1))[:max(k, len(pat))]
        else:
            d = bytes([rng.choice([0, 10, 13, 65])]) * k
        out.append([rng.choice([94, 94, 90, 20, 21, 1, 2, 50, 80, 255, 0, 10]), d.hex()])
    return out


def _cuts(rng, c, style=None):
    """segment lengths from what the real sender produces for this case"""
    probe = dict(c, cuts=[], tamper=None)
    meta = _execute(probe)["meta"]
    total = meta["ident"] + meta["wire"]
    style = style or rng.choice(["one", "bytes", "random", "random", "bounds", "bounds", "lines", "small"])
    if style == "one" or total == 0:
        return [], style
    if style == "bytes":
        return [1] * total, style
    if style == "small":
        cuts = []
        while sum(cuts) < total:
            cuts.append(rng.choice([0, 1, 2, 3, 5, 7, 8, 9, 15, 16, 17, 31, 33]))
        return cuts, style
    pts = set()
    if style == "random":
        for _ in range(rng.randint(1, 6)):
            pts.add(rng.randrange(total + 1))
    else:
        marks = []
        ident = ident_bytes(c)
        marks += [i + 1 for i, b in enumerate(ident) if b == 10] + [i for i, b in enumerate(ident) if b == 13]
        p = meta["ident"]
        for n in meta["pkts"]:
            marks += [p, p + 4, p + 5, p + meta["bs"], p + n - meta["ms"], p + n]
            p += n
        if style == "lines":
            marks = marks[: max(1, len([b for b in ident if b in (10, 13)]))] or marks
        for _ in range(rng.randint(1, 5)):
            pts.add(max(0, min(total, rng.choice(marks) + rng.choice([-1, 0, 0, 0, 1]))))
    pts = sorted(pts)
    cuts, prev = [], 0
    for p in pts:
        cuts.append(p - prev)
        prev = p
    return cuts, style


def _other(rng, fw):
    """algorithms for the other direction that differ from `fw` where it matters: another block size, another MAC
    length, MAC / cipher / compression present in one direction only"""
    ci, ma, co = fw
    r = rng.random()
    if r < 0.3:
        ci = rng.choice([x for x in CIPHERS if _bs_of(x) != _bs_of(ci)] or CIPHERS)
    elif r < 0.4:
        ci = rng.choice(CIPHERS)
    r = rng.random()
    if r < 0.35:
        ma = rng.choice([x for x in MACS if _MS[x] != _MS[ma]])
    elif r < 0.5:
        ma = "none" if ma != "none" else rng.choice(MACS[:-1])
    if rng.random() < 0.5:
        co = "zlib" if co == "none" else "none"
    if [ci, ma, co] == list(fw):
        ma = rng.choice([x for x in MACS if x != ma])
    return [ci, ma, co]


def _big_msgs(rng, comp):
    """messages around the sizes where limits live (2^15 … the 2^20 packet limit of getPacket; with compression the
    payload itself may be several times that as long as the compressed packet stays below it)"""
    top = LIMIT - 4096
    sizes = [32768, 40000, 65535, 65536, 100000, 131072, 200000, 262143, 262144, 262145, 300000]
    if rng.random() < 0.15:
        sizes = [524288, 700000, 1000000, top]
    n = rng.choice(sizes) + rng.choice([0, 0, -1, 1, 7])
    kind = rng.choice(["r", "r", "z", "p"] if comp != "zlib" else ["r", "z", "p", "z", "p"])
    if comp == "zlib" and kind != "r" and rng.random() < 0.6:
        n = rng.choice([LIMIT + 5, 2 * LIMIT, 3 * LIMIT + 17])      # compresses to a few KB
    n = min(n, top) if (comp != "zlib" or kind == "r") else n
    spec = {"r": ["r", n, rng.randrange(1 << 30)], "z": ["z", n], "p": ["p", n, rng.choice(["0d0a", "00ff", "53534821", "616263640a"])]}[kind]
    small = lambda: [rng.choice([94, 2, 80]), bytes(rng.randrange(256) for _ in range(rng.choice([0, 1, 5, 40]))).hex()]   # noqa: E731
    return rng.choice([[[94, spec]], [[94, spec], small()], [small(), [94, spec], small()]]), n


def generate(rng, tier):
    n = 1300 if tier == "quick" else 24000
    if tier == "thorough":   # the 2^20 packet-length limit of getPacket, both sides (slow in the list-based model: thorough only)
        big = LIMIT - 4 - 2 - 7   # none cipher (bs 8): 5 + 1 + n + pad
        yield _base(cipher="none", mac="none", msgs=[[94, big], [94, "ff"]], cuts=[], model=1)
        yield _base(cipher="none", mac="none", msgs=[[94, big + 8], [94, "ff"]], cuts=[], model=1)
    combos = [(ci, ma, co) for ci in CIPHERS for ma in MACS for co in COMPS]
    rng.shuffle(combos)
    for i in range(n):
        ci, ma, co = combos[i % len(combos)]
        bs = 8 if ci in ("none", "3des-cbc", "3des-ctr") else 16
        c = {"cipher": ci, "mac": ma, "comp": co, "dir": rng.randrange(2), "padseed": rng.randrange(1 << 30),
             "seq0": rng.choice([0, 0, 3, 3, rng.randrange(2**32), 2**32 - 1, 2**32 - 2, 2**32 - 3, 65535])}
        if rng.random() < 0.45:
            c["gv"] = 0
            c["banner"], c["version"], c["eol"] = _ident(rng)
            if rng.random() < 0.25 and i % 5 not in (1, 3):
                # what follows the identification in every real connection: packets in the clear
                c["cipher"], bs = "none", 8
        else:
            c["gv"] = 1
        asym = rng.random() < 0.35
        if asym:
            # the two directions of a connection are negotiated separately (RFC 4253 7.1): other algorithms the other way
            c["rev"] = _other(rng, [c["cipher"], c["mac"], c["comp"]])
        if i % (50 if tier == "quick" else 150) == 7:
            # long messages (oracle-only unless compression makes the wire short); segment lengths and the altered offset are
            # chosen without a trial run: the way a socket delivers (16 KiB / 64 KiB reads), a few random cuts, one piece
            c["msgs"], n = _big_msgs(rng, c["comp"])
            c["style"] = rng.choice(["one", "random", "reads"])
            c["cuts"] = {"one": [], "random": sorted(rng.randrange(1, 2 * n) for _ in range(rng.randint(1, 4))),
                         "reads": [rng.choice([16384, 65536])] * (n // 16384 + 2)}[c["style"]]
            if c["style"] == "random":
                c["cuts"] = [b - a for a, b in zip([0] + c["cuts"], c["cuts"])]
            if rng.random() < 0.25 and c["mac"] != "none":
                c["tamper"] = [rng.choice([5, 40, n // 2, n, rng.randrange(2 * n)]), rng.choice([1, 128, 255])]    # modulo the wire's length
            yield c
            continue
        if i % 5 in (1, 3):
            # key (re-)exchange on the sending side while payloads are being sent
            c["msgs"] = []
            if rng.random() < 0.15:
                c["cipher"], c["mac"], c["comp"] = "none", "none", "none"      # the first key exchange of a connection
                c.pop("rev", None)
            c["epochs"] = [[rng.choice(CIPHERS), rng.choice(MACS), rng.choice(COMPS)] for _ in range(3)]
            if rng.random() < 0.6:
                c["epochs"] = [[e[0], e[1] if e[1] != "none" else "hmac-sha2-256", e[2]] for e in c["epochs"]]
            # what a re-key negotiates in practice: the algorithms already in use (all three, or all but one)
            prev = [c["cipher"], c["mac"], c["comp"]]
            for k in range(3):
                r = rng.random()
                if r < 0.3:
                    c["epochs"][k] = list(prev)
                elif r < 0.45:
                    j = rng.randrange(3)
                    c["epochs"][k] = [c["epochs"][k][x] if x == j else prev[x] for x in range(3)]
                prev = c["epochs"][k]
            if asym:
                c["epochs"] = [e + (_other(rng, e) if rng.random() < 0.8 else list(e)) for e in c["epochs"]]
            c["seq0"] = rng.choice([0, 3, 3, rng.randrange(2**32), 2**32 - 2, 2**32 - 5])
            c["hist"] = _hist(rng, c["dir"])
            c["cuts"] = []
            c["cuts"], c["style"] = _cuts(rng, c)
            ex = _execute(dict(c, cuts=[], tamper=None))
            if rng.random() < 0.15 and ex["writes"] and c["mac"] != "none" and all(e[1] != "none" for e in c["epochs"]):
                pk = ex["meta"]["pkts"]
                j = rng.randrange(len(pk))
                off = rng.choice([0, 3, 4, 5, 7, 8, 15, 16, pk[j] - 1, pk[j] - 12, rng.randrange(pk[j])])
                c["tamper"] = [sum(pk[:j]) + max(0, min(pk[j] - 1, off)), rng.choice([1, 2, 128, 255, rng.randrange(1, 256)])]
            yield c
            continue
        c["msgs"] = _msgs(rng, bs)
        if not c["gv"] and c["cipher"] == "none" and rng.random() < 0.6:
            # cleartext packets right after the version line that contain line terminators themselves
            pat = rng.choice([b"\r\n", b"line1\r\nline2", b"\r\n\r\n", b"a\rb\nc\r\n", b"\n\r\n"])
            c["msgs"].insert(rng.randrange(len(c["msgs"]) + 1), [rng.choice([94, 2, 4, 20]), (pat * rng.choice([1, 1, 2, 9])).hex()])
        c["cuts"] = []
        c["cuts"], c["style"] = _cuts(rng, c)
        if rng.random() < 0.3 and c["msgs"]:
            meta = _execute(dict(c, cuts=[], tamper=None))["meta"]
            j = rng.randrange(len(meta["pkts"]))
            base = sum(meta["pkts"][:j])
            off = rng.choice([0, 1, 2, 3, 4, 5, meta["bs"] - 1, meta["bs"], meta["pkts"][j] - meta["ms"] - 1,
                              meta["pkts"][j] - meta["ms"], meta["pkts"][j] - 1, rng.randrange(meta["pkts"][j])])
            c["tamper"] = [base + max(0, min(meta["pkts"][j] - 1, off)), rng.choice([1, 2, 128, 255, rng.randrange(1, 256)])]
        yield c


def search(rng, tier, disagreeing):
    """every two-way split and the bytewise delivery of the disagreeing cases; every altered offset"""
    for c in disagreeing[:4]:
        meta = _execute(dict(c, cuts=[], tamper=None))["meta"]
        total = meta["ident"] + meta["wire"]
        for k in range(0, min(total, 400) + 1):
            yield dict(c, cuts=[k])
        if total <= BIG:
            yield dict(c, cuts=[1] * total)
        if c.get("tamper") and c["mac"] != "none":
            for k in range(min(meta["wire"], 300)):
                yield dict(c, tamper=[k, c["tamper"][1]])
    yield from generate(random.Random(rng.randrange(1 << 30)), "quick")


def shrink(c):
    if c.get("tamper"):
        yield dict(c, tamper=None)
    if "hist" in c:
        h = c["hist"]
        for i in range(len(h)):
            yield dict(c, hist=h[:i] + h[i + 1:])
        for i, op in enumerate(h):
            if op[0] == "s" and len(op[2]) > 2:
                yield dict(c, hist=h[:i] + [["s", op[1], op[2][: (len(op[2]) // 4) * 2]]] + h[i + 1:])
            if op[0] == "s" and op[1] not in (94, 2):
                yield dict(c, hist=h[:i] + [["s", 94 if not _allowed_rfc(op[1]) else 2, op[2]]] + h[i + 1:])
        e = c.get("epochs", [])
        if len(e) > 1:
            yield dict(c, epochs=e[:-1])
        for i, x in enumerate(e):
            if len(x) > 3:
                yield dict(c, epochs=e[:i] + [x[:3]] + e[i + 1:])
        for i, x in enumerate(e):
            for k, v in ((2, "none"), (0, "aes128-ctr"), (1, "hmac-sha1")):
                if x[k] != v:
                    yield dict(c, epochs=e[:i] + [x[:k] + [v] + x[k + 1:]] + e[i + 1:])
    if c.get("rev"):
        yield {k: v for k, v in c.items() if k != "rev"}
        for k in range(3):
            if c["rev"][k] != _cfg0(c)[k]:
                yield dict(c, rev=c["rev"][:k] + [_cfg0(c)[k]] + c["rev"][k + 1:])
    for i in range(len(c["msgs"])):
        yield dict(c, msgs=c["msgs"][:i] + c["msgs"][i + 1:])
    for i, m in enumerate(c["msgs"]):
        d = m[1]
        if isinstance(d, str) and len(d) > 2:
            yield dict(c, msgs=c["msgs"][:i] + [[m[0], d[: (len(d) // 4) * 2]]] + c["msgs"][i + 1:])
        if isinstance(d, int) and d > 1:
            yield dict(c, msgs=c["msgs"][:i] + [[m[0], d // 2]] + c["msgs"][i + 1:])
        if isinstance(d, list) and d[1] > 1:
            yield dict(c, msgs=c["msgs"][:i] + [[m[0], [d[0], d[1] // 2] + d[2:]]] + c["msgs"][i + 1:])
            yield dict(c, msgs=c["msgs"][:i] + [[m[0], [d[0], d[1] - 1] + d[2:]]] + c["msgs"][i + 1:])
    if not c.get("gv"):
        b = c.get("banner", [])
        for i in range(len(b)):
            yield dict(c, banner=b[:i] + b[i + 1:])
        for i, l in enumerate(b):
            if len(l) > 2:
                yield dict(c, banner=b[:i] + [l[: (len(l) // 4) * 2]] + b[i + 1:])
        if c["version"] != V:
            yield dict(c, version=V)
        if c["eol"] != "0d0a":
            yield dict(c, eol="0d0a")
    cuts = c.get("cuts", [])
    if cuts:
        yield dict(c, cuts=[])
        for i in range(len(cuts) - 1):
            yield dict(c, cuts=cuts[:i] + [cuts[i] + cuts[i + 1]] + cuts[i + 2:])
        yield dict(c, cuts=cuts[:-1])
    for k, v in (("comp", "none"), ("cipher", "none"), ("mac", "none"), ("seq0", 0), ("dir", 0), ("padseed", 1)):
        if c.get(k) != v:
            yield dict(c, **{k: v})
    if "style" in c:
        yield {k: v for k, v in c.items() if k != "style"}


def _tag_hist(c, out, r):
    meta = r["meta"]
    info, valid, misuse, open_round = _hist_walk(c)
    ops = [op[0] for op in c["hist"]]
    held, cur, inflight = [], 0, False
    for op in c["hist"]:
        if op[0] in ("k", "p"):
            inflight = True
        elif op[0] == "s" and inflight and not _allowed_rfc(op[1]):
            cur += 1
        elif op[0] == "n":
            held.append(cur)
            cur, inflight = 0, False
    who = "".join(o for o in ops if o in "kpyn")[:8]
    ck = "none" if c["cipher"] == "none" else c["cipher"].split("-")[1] + str(meta["bs"])
    idt = "gv" if c.get("gv") else "b%d" % min(len(c.get("banner", [])), 2)
    seg = "1" if meta["nseg"] <= 1 else "few" if meta["nseg"] < 8 else "many"
    ds = [e.split(":")[0] for e in r["evs"] if e.startswith("D")]
    outc = "raise" if out.startswith("!") else (ds[0] if ds else "ok")
    eps = [_cfg0(c)] + [list(e) for e in c.get("epochs", [])]
    asym = "a" if any(_asym(e) for e in eps) else "s"
    same = "same" if any(_fw(eps[k]) == _fw(eps[k + 1]) for k in range(len(eps) - 1)) else "-"
    return (f"H:{c.get('dir', 0)}:{ck}:{c['mac']}:{c['comp']}:{asym}:{same}:{who}:{'v' if valid else 'x'}:{'open' if open_round is not None else '-'}:"
            f"{min(max(held + [cur]), 3)}:{idt}:{seg}:{'t' if meta['toff'] is not None else '-'}:{outc}")


def tag(c, out):
    r = _execute(c)
    if "hist" in c:
        return _tag_hist(c, out, r)
    meta = r["meta"]
    ck = "none" if c["cipher"] == "none" else c["cipher"].split("-")[1] + str(meta["bs"])
    idt = "gv" if c.get("gv") else "b%d" % min(len(c.get("banner", [])), 2)
    nseg = meta["nseg"]
    seg = "1" if nseg <= 1 else "few" if nseg < 8 else "many"
    tam = "-"
    if meta["toff"] is not None and meta["toff"] >= meta["ident"]:
        off = meta["toff"] - meta["ident"]
        for n in meta["pkts"]:
            if off < n:
                tam = "len" if off < 4 else "blk1" if off < meta["bs"] else "mac" if off >= n - meta["ms"] else "body"
                break
            off -= n
    ds = [e.split(":")[0] for e in r["evs"] if e.startswith("D")]
    outc = "raise" if out.startswith("!") else (ds[0] if ds else "ok")
    wrap = "wrap" if c["seq0"] + len(c["msgs"]) > 2**32 else "-"
    rv = _rv(_cfg0(c))
    asym = "sym" if not _asym(_cfg0(c)) else "a%d%s%s" % (_bs_of(rv[0]), "=" if _MS[rv[1]] == meta["ms"] else "0" if rv[1] == "none" else "m", rv[2][0])
    big = "-" if meta["long"] <= BIG else "big" if meta["long"] <= 262144 else "huge"
    return f"{ck}:{c['mac']}:{c['comp']}:{asym}:{idt}:{seg}:{min(len(c['msgs']), 3)}:{tam}:{wrap}:{big}:{outc}"
