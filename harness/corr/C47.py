"""C47 — PROXY protocol headers are parsed regardless of segmentation.

Real `HAProxyWrappingFactory` on a `StringTransport` vs the Lean model (tie), plus the property
oracle on the real code.  The oracle has two independent parts:

 (i)  segmentation invariance: the outcome of delivering the chunks one by one must equal the
      outcome of delivering the same bytes in ONE `dataReceived` (pure implementation-vs-
      implementation comparison, no reference parser involved);
 (ii) a reference recogniser of the PROXY protocol written from the protocol text
      (`ref_classify`, declarative: tokens, regexes, `ipaddress`, no code shared with twisted or
      with the Lean model): a stream that begins with a valid header must yield the header's
      addresses and exactly the bytes after it; a stream that does not must pass nothing and — once
      the header region is complete — be closed.

Cases with op 'conns' drive SEVERAL connections through one `HAProxyWrappingFactory` (sequentially or interleaved);
each connection is judged by (i)+(ii) on its own bytes alone and must equal what it yields as the only connection of a
fresh factory (mutation audit, harness/mutants/C47: parsers shared between connections, caches keyed too coarsely).
"""
import ipaddress
import re

from twisted.internet import address
from twisted.internet.error import ConnectionDone
from twisted.internet.protocol import Factory, Protocol
from twisted.internet.testing import StringTransport
from twisted.python.failure import Failure
from twisted.protocols.haproxy._exceptions import InvalidProxyHeader
from twisted.protocols.haproxy._v1parser import V1Parser
from twisted.protocols.haproxy._v2parser import V2Parser
from twisted.protocols.haproxy._wrapper import HAProxyWrappingFactory

HEADLINE = "TwistedProps.C47.proxy_seg_invariant / invalid_header_closes_and_passes_nothing / interleaving_independent"
RULE = ("streams = header ++ payload; headers drawn from the v1 grammar (TCP4/TCP6/UNKNOWN, ports and line lengths at "
        "their boundaries) and the v2 grammar (LOCAL/PROXY x every family/protocol nibble, exact/short/TLV-extended "
        "lengths incl. declared lengths 255..4097 and occasionally 16384/65535, UNIX paths), plus mutated/truncated "
        "headers, valid v1 lines with ONE token adorned by a byte that int()/strip()/regex-$ tolerate (LF, CR, TAB, VT, "
        "FF, NUL, NBSP, sign, underscore, ...), streams that END at a decision boundary of the header region (after 1, "
        "4..6, 11..17 bytes, around the header end and the 107-byte limit) and non-PROXY junk (incl. signature + wrong "
        "version nibble); delivered whole, at every split point of the header region (+-2 around its end), "
        "byte-by-byte and in random multi-splits, occasionally with empty chunks; AND histories of 2..3 connections "
        "through ONE factory (op 'conns'): an earlier connection abandoned in the middle of a header or closed on an "
        "invalid one (with/without connectionLost) followed by valid ones, the same tokens reused by a later "
        "connection in another family / adorned / repeated / swapped, header segments of concurrent connections "
        "interleaved at random; distinct = (reference class of the stream, header kind, #chunks class, "
        "first-chunk-length class, observed outcome class) resp. (history class, interleaved?, #connections, "
        "per-connection reference and outcome classes)")
ASSUMES = [
    "the transport delivers no further data after loseConnection() (tcp.Connection.loseConnection stops reading); "
    "the harness stops feeding chunks once transport.disconnecting is set, and delivers nothing after connectionLost()",
    "'valid header' is the PROXY protocol v1/v2 grammar: v1 line <= 107 bytes incl. CRLF, exactly the fields of the "
    "family, addresses in inet_pton text form without scope id, ports decimal 0..65535 without sign/leading zeros, "
    "'PROXY UNKNOWN' optionally followed by ' <anything>'; v2 signature, version 2, command LOCAL/PROXY, family "
    "nibble 0..3, protocol nibble 0..2, declared length (any value up to 65535) >= the family's address block (TLVs "
    "beyond it ignored)",
    "v2 family/protocol bytes with exactly one UNSPEC nibble (0x10, 0x01, ...) are treated as UNSPEC (no addresses), "
    "as Twisted documents and its unit tests pin (test_unspecProto*/test_unspecFamily*), although the protocol text "
    "says receivers should reject them",
    "a v2 UNIX address is the 108-byte field with trailing NULs stripped",
    "an incomplete header (stream ends before CRLF / before 16+length bytes) keeps the connection waiting; closure is "
    "demanded only once the header region is complete or cannot match either signature (13 bytes with a version "
    "nibble other than 2 already cannot)",
    "the property is per connection: every connection of a factory is judged on its own bytes alone, whatever other "
    "connections of the same factory (or earlier ones of the same process) received and however their deliveries "
    "interleave with its own",
]
TRUSTED = [
    "Lean transcription of inet_pton(AF_INET/AF_INET6) text validation used by the model's v1 address check "
    "(theorems are parametric in it; the tie compares it with the libc function through isIPAddress)",
]
MANIFEST = {
    "text": "Lean theorems (TwistedProps/C47.lean): for every stream and EVERY segmentation of it (any number of chunks, "
            "empty chunks included) the wrapper's outcome (closed?, header addresses, bytes passed to the application) "
            "equals a one-shot classification of the whole stream (induction over the chunk list with the invariant "
            "'state represents the classification of the bytes so far'); every encoded v1/v2 header followed by any "
            "payload is classified as accepted with exactly its addresses and that payload; every accepted stream "
            "begins with an encoded valid header (so invalid streams pass nothing and are closed once complete); in "
            "every schedule of dataReceived events over any number of connections of one factory, sequential or "
            "interleaved, each connection ends as if its own chunks were the only traffic (interleaving_independent, "
            "proxy_seg_invariant_any_schedule). Model tied to _wrapper.py/_v1parser.py/_v2parser.py by differential "
            "runs of single connections, direct parser calls and multi-connection schedules through one "
            "HAProxyWrappingFactory.",
    "note": "trusts Lean kernel, the hand-written model (differentially tied; its 'no state shared between connections' "
            "is what the multi-connection cases test), StringTransport as the transport, inet_pton transcription",
    "technique": "Lean 4 proof (state-represents-prefix invariant, induction over segmentations and over schedules) + "
                 "differential tie",
    "design_ref": "DESIGN.md §7 C47",
}

SIG = b"\r\n\r\n\x00\r\nQUIT\n"
CRLF = b"\r\n"


# ------------------------------------------------------------------------------------------
# running the real code

def _fmt(addr, real):
    if addr is real:
        return "real"
    if isinstance(addr, address.IPv4Address):
        return f"{addr.type}4:{str(addr.host).encode('utf-8', 'surrogateescape').hex() or '-'}:{addr.port}"
    if isinstance(addr, address.IPv6Address):
        return f"{addr.type}6:{str(addr.host).encode('utf-8', 'surrogateescape').hex() or '-'}:{addr.port}"
    if isinstance(addr, address.UNIXAddress):
        return "UNIX:" + ((addr.name or b"").hex() or "-")
    return "other"


class _App(Protocol):
    def __init__(self):
        self.chunks = []
        self.seen = []

    def dataReceived(self, data):
        self.chunks.append(data)
        self.seen.append((self.transport.getPeer(), self.transport.getHost()))


def _connect(factory):
    proto = factory.buildProtocol(address.IPv4Address("TCP", "192.168.1.1", 54321))
    tr = StringTransport(hostAddress=address.IPv4Address("TCP", "10.0.0.1", 12345),
                         peerAddress=address.IPv4Address("TCP", "192.168.1.1", 54321))
    proto.makeConnection(tr)
    return proto, tr, proto.wrappedProtocol


def _observe(proto, tr, app):
    peer, host = app.transport.getPeer(), app.transport.getHost()
    rp, rh = tr.getPeer(), tr.getHost()
    seen = all(_fmt(p, rp) == _fmt(peer, rp) and _fmt(h, rh) == _fmt(host, rh) for p, h in app.seen)
    hdr = getattr(proto, "_proxyInfo", None) is not None
    return (f"closed={int(bool(tr.disconnecting))} hdr={int(hdr)} peer={_fmt(peer, rp)} host={_fmt(host, rh)} "
            f"app={b''.join(app.chunks).hex() or '-'} seen={int(seen)}")


def _deliver(chunks):
    """One connection; returns the canonical observable line."""
    proto, tr, app = _connect(HAProxyWrappingFactory(Factory.forProtocol(_App)))
    for ch in chunks:
        if tr.disconnecting:          # see ASSUMES: nothing is delivered after loseConnection
            break
        try:
            proto.dataReceived(ch)
        except Exception as e:        # an exception escaping dataReceived is an observable
            return "!raised " + type(e).__name__
    return _observe(proto, tr, app)


def _deliver_conns(c):
    """Several connections of ONE factory.  `events` = [[i, hex], ...] in delivery order (connection i is accepted
    right before its first event, connections without events at the end); connections listed in `lose` get
    connectionLost() right after their last event (their observable is taken just before).  Returns the
    per-connection observable lines joined by ' | '."""
    factory = HAProxyWrappingFactory(Factory.forProtocol(_App))
    events = [(i, bytes.fromhex(h)) for i, h in c["events"]]
    last = {i: k for k, (i, _) in enumerate(events)}
    conns, lines = {}, {}
    for k, (i, data) in enumerate(events):
        if i not in conns:
            conns[i] = _connect(factory)
        proto, tr, app = conns[i]
        if i not in lines and not tr.disconnecting:
            try:
                proto.dataReceived(data)
            except Exception as e:
                lines[i] = "!raised " + type(e).__name__
        if k == last[i] and i in c.get("lose", []) and i not in lines:
            lines[i] = _observe(proto, tr, app)
            proto.connectionLost(Failure(ConnectionDone()))
    for i in range(c["n"]):
        if i not in conns:
            conns[i] = _connect(factory)
        if i not in lines:
            lines[i] = _observe(*conns[i])
    return " | ".join(lines[i] for i in range(c["n"]))


def _conn_chunks(c, i):
    return [bytes.fromhex(h) for j, h in c["events"] if j == i]


def _chunks(c):
    return [bytes.fromhex(h) for h in c["chunks"]]


def _parse_direct(c):
    cls = V1Parser if c["op"] == "v1parse" else V2Parser
    try:
        info = cls.parse(bytes.fromhex(c["line"]))
    except (InvalidProxyHeader, TypeError) as e:
        return "!raised " + type(e).__name__
    if info.source is None and info.destination is None:
        return "ok real"
    return f"ok {_fmt(info.source, None)} {_fmt(info.destination, None)}"


def run_impl(c):
    if c.get("op", "run") == "conns":
        return _deliver_conns(c)
    if c.get("op", "run") != "run":
        return _parse_direct(c)
    return _deliver(_chunks(c))


def model_line(c):
    if c.get("op", "run") == "conns":
        return f"conns {c['n']} " + (";".join(f"{i}:{h or '-'}" for i, h in c["events"]) if c["events"] else "none")
    if c.get("op", "run") != "run":
        return f"{c['op']} {c['line'] or '-'}"
    return "run " + (";".join(h if h else "-" for h in c["chunks"]) if c["chunks"] else "none")


# ------------------------------------------------------------------------------------------
# the reference recogniser (protocol text, not the code)

_PORT = re.compile(rb"0|[1-9][0-9]{0,4}")


def _ref_port(tok):
    if not _PORT.fullmatch(tok):
        return None
    v = int(tok)
    return v if v <= 65535 else None


def _ref_addr(tok, v6):
    try:
        text = tok.decode("ascii")
    except UnicodeDecodeError:
        return None
    if "%" in text or "/" in text:
        return None
    try:
        return (ipaddress.IPv6Address if v6 else ipaddress.IPv4Address)(text).packed
    except ValueError:
        return None


def ref_classify(s):
    """('accept', src, dst, payload) | ('reject',) | ('pending',); src/dst = None (real endpoints) or
    ('TCP'|'UDP', 4|6, packed, port) or ('UNIX', path)."""
    if s[:5] == b"PROXY"[:len(s)]:
        if len(s) < 5:
            return ("pending",)
        i = s.find(CRLF)
        if i < 0:
            return ("pending",) if len(s) <= 107 else ("reject",)
        if i + 2 > 107:
            return ("reject",)
        line, payload = s[:i], s[i + 2:]
        if line == b"PROXY UNKNOWN" or line.startswith(b"PROXY UNKNOWN "):
            return ("accept", None, None, payload)
        toks = line.split(b" ")
        if len(toks) != 6 or toks[0] != b"PROXY" or toks[1] not in (b"TCP4", b"TCP6"):
            return ("reject",)
        v6 = toks[1] == b"TCP6"
        a, b = _ref_addr(toks[2], v6), _ref_addr(toks[3], v6)
        sp, dp = _ref_port(toks[4]), _ref_port(toks[5])
        if a is None or b is None or sp is None or dp is None:
            return ("reject",)
        fam = 6 if v6 else 4
        return ("accept", ("TCP", fam, a, sp), ("TCP", fam, b, dp), payload)
    if s[:12] == SIG[:min(len(s), 12)]:
        if len(s) < 13:
            return ("pending",)
        if s[12] >> 4 != 2:
            return ("reject",)
        if len(s) < 16:
            return ("pending",)
        n = int.from_bytes(s[14:16], "big")
        if len(s) < 16 + n:
            return ("pending",)
        block, payload = s[16:16 + n], s[16 + n:]
        cmd = s[12] & 15
        if cmd not in (0, 1):
            return ("reject",)
        if cmd == 0:
            return ("accept", None, None, payload)
        fam, pr = s[13] >> 4, s[13] & 15
        if fam > 3 or pr > 2:
            return ("reject",)
        if fam == 0 or pr == 0:
            return ("accept", None, None, payload)
        need = {1: 12, 2: 36, 3: 216}[fam]
        if n < need:
            return ("reject",)
        if fam == 3:
            return ("accept", ("UNIX", block[:108].rstrip(b"\0")), ("UNIX", block[108:216].rstrip(b"\0")), payload)
        w = 4 if fam == 1 else 16
        t = "TCP" if pr == 1 else "UDP"
        sp = int.from_bytes(block[2 * w:2 * w + 2], "big")
        dp = int.from_bytes(block[2 * w + 2:2 * w + 4], "big")
        return ("accept", (t, 4 if fam == 1 else 6, block[:w], sp), (t, 4 if fam == 1 else 6, block[w:2 * w], dp), payload)
    return ("reject",)


def _parse_out(out):
    if out.startswith("!"):
        return None
    return dict(tok.split("=", 1) for tok in out.split(" "))


def _same_addr(shown, exp):
    if exp is None:
        return shown == "real"
    if exp[0] == "UNIX":
        return shown == "UNIX:" + (exp[1].hex() or "-")
    parts = shown.split(":")
    if len(parts) != 3 or parts[0] != f"{exp[0]}{exp[1]}" or parts[2] != str(exp[3]):
        return False
    try:
        return ipaddress.ip_address(bytes.fromhex(parts[1]).decode("ascii")).packed == exp[2]
    except ValueError:
        return False


def _judge(chunks, out):
    """the property on ONE connection that received `chunks` and ended as `out`"""
    s = b"".join(chunks)
    ref = ref_classify(s)
    kind = "v1" if s[:1] == b"P" else "v2" if s[:1] == b"\r" else "other"
    if out.startswith("!"):
        return {"key": f"raised:{out[8:]}", "detail": f"dataReceived raised {out[8:]} on stream {s!r} chunks {[len(x) for x in chunks]}"}
    # (i) segmentation invariance against the single-delivery run of the real code
    try:
        whole = _deliver([s]) if s else _deliver([])
    except Exception as e:  # pragma: no cover
        whole = "!raised " + type(e).__name__
    o, w = _parse_out(out), _parse_out(whole)
    if w is not None:
        obs = lambda d: (d["closed"], d["peer"], d["host"], d["app"])
        if obs(o) != obs(w):
            return {"key": f"segmentation-dependent:{kind}",
                    "detail": f"stream {s!r}: chunks {[len(x) for x in chunks]} -> {out} but one delivery -> {whole}"}
    # (ii) the reference recogniser
    if o["seen"] != "1":
        return {"key": "address-changed-under-app", "detail": f"stream {s!r}: the application saw different addresses over time ({out})"}
    if ref[0] == "accept":
        _, src, dst, payload = ref
        if o["closed"] == "1":
            return {"key": f"valid-header-rejected:{kind}", "detail": f"stream {s!r} begins with a valid header but the connection was closed ({out})"}
        if o["app"] != (payload.hex() or "-"):
            return {"key": f"wrong-app-bytes:{kind}", "detail": f"stream {s!r}: application got {o['app']} expected {payload.hex() or '-'}"}
        if not (_same_addr(o["peer"], src) and _same_addr(o["host"], dst)):
            return {"key": f"wrong-address:{kind}", "detail": f"stream {s!r}: peer={o['peer']} host={o['host']} expected {src} {dst}"}
        return None
    if o["app"] != "-" or o["peer"] != "real" or o["host"] != "real":
        return {"key": f"invalid-header-accepted:{kind}", "detail": f"stream {s!r} does not begin with a valid header ({ref[0]}) but {out}"}
    if ref[0] == "reject" and o["closed"] != "1":
        return {"key": f"invalid-header-not-closed:{kind}", "detail": f"stream {s!r} cannot begin with a valid header but the connection stays open ({out})"}
    return None


def oracle(c, out):
    op = c.get("op", "run")
    if op == "run":
        return _judge(_chunks(c), out)
    if op != "conns":
        return None          # direct parse cases serve the tie only
    # every connection of the factory is judged on its own bytes alone: what other connections of the same factory
    # (earlier, or interleaved with it) received must not matter
    outs = out.split(" | ")
    if len(outs) != c["n"]:
        return {"key": "raised:" + out[8:], "detail": f"{out} for {c}"}
    for i, o in enumerate(outs):
        chunks = _conn_chunks(c, i)
        try:
            alone = _deliver(chunks)
        except Exception as e:  # pragma: no cover
            alone = "!raised " + type(e).__name__
        bad = _judge(chunks, alone)
        if bad is not None:      # fails even as the only connection of a fresh factory: the plain class
            return bad
        bad = _judge(chunks, o)
        if bad is not None:
            order = [j for j, _ in c["events"]]
            return {"key": "other-connection-matters:" + bad["key"],
                    "detail": f"connection {i} of {c['n']} sharing one factory (delivery order {order}, "
                              f"lost {c.get('lose', [])}): " + bad["detail"]}
    return None


# ------------------------------------------------------------------------------------------
# generators

def _case(chunks, kind):
    return {"chunks": [x.hex() for x in chunks], "kind": kind}


def _v4(rng):
    return ".".join(str(rng.choice([0, 1, 9, 10, 99, 100, 127, 199, 200, 249, 250, 255, rng.randrange(256)])) for _ in range(4)).encode()


def _v6(rng):
    r = rng.random()
    groups = ["%x" % rng.choice([0, 1, 0xFFFF, 0xABCD, rng.randrange(65536)]) for _ in range(8)]
    if r < 0.3:
        return ":".join(groups).encode()
    if r < 0.4:
        return rng.choice([b"::1", b"::", b"fe80::1", b"1::", b"::ffff:1.2.3.4", b"2001:DB8::8:800:200C:417A", b"1:2:3:4:5:6:7::",
                           b"::2:3:4:5:6:7:8", b"1:2:3:4:5:6:1.2.3.4"])
    k = rng.randint(0, 6)
    j = rng.randint(0, k)
    return (":".join(groups[:j]) + "::" + ":".join(groups[j:k])).encode()


def _port_ok(rng):
    return str(rng.choice([0, 1, 9, 10, 80, 8080, 65535, 65530, 9999, 10000, rng.randrange(65536)])).encode()


BAD_PORTS = [b"65536", b"99999", b"100000", b"080", b"00", b"+80", b"-1", b"", b"8_0", b"abc", b"\t80", b"80\x0b", b"8 0", b"0x50", b"1e3",
             b"\xd9\xa1\xd9\xa2"]
BAD_V4 = [b"256.1.1.1", b"1.1.1", b"1.1.1.1.1", b"01.1.1.1", b"a.b.c.d", b"", b"1.1.1.", b"::1", b"1.2.3.4\xff", b"\xc3\xa9", b"1..1.1",
          b"1.1.1.1%1", b"0"]
BAD_V6 = [b"1.2.3.4", b":::", b"1:2:3:4:5:6:7:8:9", b"12345::", b"g::1", b"", b"1:2:3:4:5:6:7", b"::1%eth0", b"\xff::1", b"1::2::3", b":1",
          b"::1.2.3", b"::1.2.3.256"]


# bytes that Python's int()/str.strip()/re `$`/`\\s`/`\\d` tolerate around a token but the protocol grammar does not
ADORN = [b"\n", b"\r", b"\t", b"\x0b", b"\x0c", b" ", b"\x00", b"\x1c", b"\x1d", b"\x1e", b"\x1f", b"\x85", b"\xa0", b"\xc2\xa0",
         b"_", b"+", b"-", b"0"]


def _v1_adorned(rng):
    """a VALID TCP4/TCP6 line in which one token (or the whole line) carries one extra byte of `ADORN` before or after
    it — e.g. a port followed by LF, an address preceded by a tab: never a valid header"""
    fam = rng.choice([4, 6])
    g = _v4 if fam == 4 else _v6
    f = [b"PROXY", b"TCP%d" % fam, g(rng), g(rng), _port_ok(rng), _port_ok(rng)]
    k = rng.choice([0, 1, 2, 3, 4, 4, 5, 5, 5])
    a = rng.choice(ADORN) if rng.random() < 0.8 else rng.choice([b"\n", b"\r", b"\t", b" "])
    if k == 0:              # the line as a whole: a byte before CRLF, or (rarely) before PROXY
        line = b" ".join(f)
        return (line + a if rng.random() < 0.85 else a + line) + CRLF, "v1-adorn-line"
    f[k] = f[k] + a if rng.random() < 0.65 else a + f[k]
    return b" ".join(f) + CRLF, "v1-adorn-%s" % ("proto", "addr", "addr", "port", "port")[k - 1]


def _v1_header(rng):
    """→ (header bytes incl. CRLF where applicable, kind)"""
    if rng.random() < 0.12:
        return _v1_adorned(rng)
    r = rng.random()
    if r < 0.30:
        fam = rng.choice([4, 6])
        g = _v4 if fam == 4 else _v6
        return b"PROXY TCP%d %s %s %s %s\r\n" % (fam, g(rng), g(rng), _port_ok(rng), _port_ok(rng)), f"v1-tcp{fam}"
    if r < 0.42:
        tail = rng.choice([b"", b" ", b" anything could go here", b" 1.1.1.1 2.2.2.2 1 2", b" \r x", b" \n", b"  ", b" \xff\x00"])
        return b"PROXY UNKNOWN" + tail + CRLF, "v1-unknown"
    if r < 0.52:   # length boundary: first CRLF ends at 105..110
        total = rng.choice([105, 106, 107, 108, 109, 110, 150, 300])
        base = rng.choice([b"PROXY UNKNOWN ", b"PROXY TCP4 1.1.1.1 2.2.2.2 1 2 "])
        fill = bytes(rng.choice(b"x \rab") for _ in range(total - len(base) - 2)).replace(CRLF, b"xx")
        if fill.endswith(b"\r"):
            fill = fill[:-1] + b"x"
        return base + fill + CRLF, "v1-len%d" % total
    if r < 0.62:
        fam = rng.choice([4, 6])
        g = _v4 if fam == 4 else _v6
        f = [g(rng), g(rng), _port_ok(rng), _port_ok(rng)]
        f[rng.choice([2, 3])] = rng.choice(BAD_PORTS)
        return b"PROXY TCP%d %s\r\n" % (fam, b" ".join(f)), "v1-badport"
    if r < 0.72:
        fam = rng.choice([4, 6])
        g = _v4 if fam == 4 else _v6
        f = [g(rng), g(rng), _port_ok(rng), _port_ok(rng)]
        f[rng.choice([0, 1])] = rng.choice(BAD_V4 if fam == 4 else BAD_V6)
        return b"PROXY TCP%d %s\r\n" % (fam, b" ".join(f)), "v1-badaddr"
    if r < 0.82:
        fam = rng.choice([4, 6])
        g = _v4 if fam == 4 else _v6
        f = [g(rng), g(rng), _port_ok(rng), _port_ok(rng)]
        k = rng.random()
        if k < 0.4:
            f = f[:rng.randint(0, 3)]
        elif k < 0.7:
            f.append(rng.choice([b"junk", b"", b"1"]))
        else:
            f.insert(rng.randint(0, 3), b"")
        return b"PROXY TCP%d" % fam + b"".join(b" " + x for x in f) + CRLF, "v1-fields"
    if r < 0.92:
        return rng.choice([b"PROXY\r\n", b"PROXY \r\n", b"PROXY TCP5 1.1.1.1 2.2.2.2 1 2\r\n", b"PROXY tcp4 1.1.1.1 2.2.2.2 1 2\r\n",
                           b"PROXY UNKNOWNX\r\n", b"PROXYTCP4 1.1.1.1 2.2.2.2 1 2\r\n", b"PROXY  TCP4 1.1.1.1 2.2.2.2 1 2\r\n",
                           b"PROXY TCP4\r\n", b"PROXY TCP6 \r\n", b"PROXY UNKNOWN\n", b"PROXY UNKNOWN\r", b"PROXY UDP4 1.1.1.1 2.2.2.2 1 2\r\n",
                           b"PROXZ UNKNOWN\r\n", b"PROXY\tUNKNOWN\r\n", b"PROXY TCP4 1.1.1.1 2.2.2.2 1 2\n"]), "v1-malformed"
    n = rng.choice([108, 109, 120, 200])
    return b"PROXY UNKNOWN " + b"y" * (n - 14), "v1-nocrlf"


BIG_V2 = [255, 256, 257, 300, 472, 473, 511, 512, 513, 1000, 1024, 1025, 2048, 4096, 4097]   # declared v2 lengths


def _v2_header(rng):
    r = rng.random()
    cmd = rng.choice([0, 1, 1, 1])
    fp = rng.choice([0x11, 0x12, 0x21, 0x22, 0x31, 0x32, 0x11, 0x21, 0x31, 0x00, 0x10, 0x20, 0x30, 0x01, 0x02])
    kind = "v2-%s-%02x" % ("local" if cmd == 0 else "proxy", fp)
    if r < 0.15:
        fp = rng.choice([0x40, 0x13, 0x23, 0x33, 0x03, 0xF1, 0x1F, 0xFF, rng.randrange(256)])
        kind = "v2-famproto-%02x" % fp
    need = {1: 12, 2: 36, 3: 216}.get(fp >> 4, 0)
    block = bytes(rng.choice([0, 1, 127, 255, rng.randrange(256)]) for _ in range(need))
    if fp >> 4 == 3:
        def path():
            p = bytes(rng.choice(b"/abcsock.\x00") for _ in range(rng.choice([0, 1, 5, 26, 107, 108])))
            return p[:108] + b"\0" * (108 - len(p))
        block = path() + path()
    q = rng.random()
    if q < 0.25:     # TLVs / padding after the address block
        if rng.random() < 0.35:      # declared length at and beyond the one-byte / "reasonable size" boundaries
            total = rng.choice(BIG_V2 if rng.random() < 0.93 else [16384, 65535])
            extra = max(1, total - len(block))
            block += bytes([rng.randrange(256)]) * (extra - 8) + bytes(rng.randrange(256) for _ in range(min(8, extra)))
            kind += "+bigtlv"
        else:
            block += bytes(rng.randrange(256) for _ in range(rng.choice([1, 3, 7, 20])))
            kind += "+tlv"
    elif q < 0.40 and need:   # declared length too short for the family
        block = block[:rng.choice([0, 1, need - 1, need // 2])]
        kind += "-short"
    vc = 0x20 | cmd
    if 0.15 <= r < 0.25:
        vc = rng.choice([0x22, 0x2F, 0x11, 0x31, 0x01, 0x00, 0xA1])
        kind = "v2-vercmd-%02x" % vc
    sig = SIG
    if 0.25 <= r < 0.33:
        k = rng.randrange(12)
        sig = SIG[:k] + bytes([SIG[k] ^ rng.choice([1, 0x20, 0xFF])]) + SIG[k + 1:]
        kind = "v2-sig%d" % k
    return sig + bytes([vc, fp]) + len(block).to_bytes(2, "big") + block, kind


PAYLOADS = [b"", b"G", b"GET / HTTP/1.1\r\n\r\n", b"\r\n", b"PROXY TCP4 9.9.9.9 8.8.8.8 9 8\r\n", SIG + b"\x21\x11\x00\x0c" + b"\x01" * 12,
            b"\x00\xff", b"\n", b"\r"]


def _payload(rng):
    if rng.random() < 0.7:
        return rng.choice(PAYLOADS)
    return bytes(rng.choice(b"\r\n PROXYab\x00\xff") for _ in range(rng.randint(1, 24)))


def _splits(rng, s, hlen, mode):
    """list of chunk lists"""
    if mode == "whole":
        return [[s]]
    if mode == "two":
        pts = set(range(1, min(len(s), 18)))
        pts |= {p for p in range(hlen - 3, hlen + 3) if 0 < p < len(s)}
        pts |= {p for p in (105, 106, 107, 108, 109) if p < len(s)}
        pts = sorted(pts)
        k = min(len(pts), 6)
        return [[s[:p], s[p:]] for p in rng.sample(pts, k)]
    if mode == "all-two":
        return [[s[:p], s[p:]] for p in range(1, len(s))]
    if mode == "bytes":
        if len(s) > 600:       # a huge TLV area byte by byte costs quadratic time and shows nothing new
            k = max(rng.randrange(1, 40), len(s) // 60)
            return [[s[i:i + 1] for i in range(20)] + [s[i:i + k] for i in range(20, len(s), k)]]
        return [[s[i:i + 1] for i in range(len(s))]]
    # random multi-split, sometimes with empty chunks
    out = []
    for _ in range(2):
        cuts = sorted(rng.sample(range(len(s) + 1), min(len(s) + 1, rng.randint(1, 6)))) if s else []
        parts = [s[a:b] for a, b in zip([0] + cuts, cuts + [len(s)])]
        if rng.random() < 0.7:
            parts = [p for p in parts if p]
        out.append(parts)
    return out


def _stream(rng):
    r = rng.random()
    if r < 0.48:
        h, kind = _v1_header(rng)
    elif r < 0.92:
        h, kind = _v2_header(rng)
    else:
        h, kind = rng.choice([(b"GET / HTTP/1.1\r\n", "junk"), (b"", "empty"), (b"P", "junk"), (b"\r", "junk"), (b"\n", "junk"),
                              (b"PROXX", "junk"), (b"proxy unknown\r\n", "junk"), (b"\r\n\r\n\x00\r\nQUIT\r", "junk"),
                              (SIG + bytes([rng.choice([0x11, 0x31, 0x01, 0x00, 0xA1, 0x12, rng.randrange(256)])]) +
                               bytes(rng.randrange(256) for _ in range(rng.choice([0, 0, 1, 2]))), "junk-v2ver"),
                              (bytes(rng.randrange(256) for _ in range(rng.randint(1, 30))), "junk")])
    t = rng.random()
    if t < 0.08 and len(h) > 1:      # truncated header, no payload
        return h[:rng.randrange(1, len(h))], len(h), kind + "-trunc"
    if t < 0.20 and len(h) > 1:      # the stream ENDS at a decision boundary of the header region (the peer sends
        # no more): what cannot become a valid header any more must be closed NOW, the rest must keep waiting
        cuts = [p for p in (1, 4, 5, 6, 11, 12, 13, 14, 15, 16, 17, len(h) - 2, len(h) - 1, 106, 107, 108, 109) if 0 < p < len(h)]
        return h[:rng.choice(cuts)], len(h), kind + "-cut"
    return h + _payload(rng), len(h), kind


# ---- several connections through one factory

def _conns_case(streams, order, lose, kind):
    """streams: list of chunk lists; order: connection index per event (the k-th mention of i delivers its k-th chunk)"""
    pos = [0] * len(streams)
    events = []
    for i in order:
        events.append([i, streams[i][pos[i]].hex()])
        pos[i] += 1
    assert pos == [len(x) for x in streams]
    return {"op": "conns", "n": len(streams), "events": events, "lose": sorted(lose), "kind": kind}


def _sequential(streams):
    return [i for i, chunks in enumerate(streams) for _ in chunks]


def _interleave(rng, streams):
    left = [len(x) for x in streams]
    order = []
    while any(left):
        i = rng.choice([j for j, n in enumerate(left) if n])
        order.append(i)
        left[i] -= 1
    return order


def _few_chunks(rng, s, hlen):
    """1..4 chunks, cut points preferably inside the header region"""
    n = rng.choice([1, 2, 2, 3, 4])
    hi = max(1, min(len(s), hlen + 2))
    cuts = sorted({rng.randrange(1, hi + 1) for _ in range(n - 1)} - {len(s)}) if len(s) > 1 else []
    return [s[a:b] for a, b in zip([0] + cuts, cuts + [len(s)])]


def _valid_header(rng):
    r = rng.random()
    if r < 0.35:
        fam = rng.choice([4, 6])
        g = _v4 if fam == 4 else _v6
        return b"PROXY TCP%d %s %s %s %s\r\n" % (fam, g(rng), g(rng), _port_ok(rng), _port_ok(rng)), f"v1-tcp{fam}"
    if r < 0.45:
        return b"PROXY UNKNOWN" + rng.choice([b"", b" x y"]) + CRLF, "v1-unknown"
    fp = rng.choice([0x11, 0x12, 0x21, 0x22, 0x31, 0x00])
    need = {1: 12, 2: 36, 3: 216}.get(fp >> 4, 0)
    block = bytes(rng.choice([0, 1, 127, 255, rng.randrange(256)]) for _ in range(need)) + bytes(rng.randrange(256) for _ in range(rng.choice([0, 0, 5])))
    return SIG + bytes([0x20 | rng.choice([0, 1, 1, 1]), fp]) + len(block).to_bytes(2, "big") + block, "v2-%02x" % fp


def _conns(rng):
    """one multi-connection case; the classes are histories that a per-connection check can never produce"""
    r = rng.random()
    if r < 0.30:
        # leftover state: an earlier connection stops in the middle of a header (or is closed on an invalid one) and
        # goes away; a later connection of the same factory sends a valid header
        h0, k0 = _valid_header(rng) if rng.random() < 0.7 else (_stream(rng)[0], "any")
        first = h0[:rng.randrange(1, len(h0) + 1)] if len(h0) > 1 and rng.random() < 0.8 else h0
        h1, k1 = _valid_header(rng)
        if rng.random() < 0.5:      # same version as the first, most of the time the very same header
            h1, k1 = (h0, k0) if ref_classify(h0)[0] == "accept" and rng.random() < 0.6 else (h1, k1)
        streams = [_few_chunks(rng, first, len(first)), _few_chunks(rng, h1 + _payload(rng), len(h1))]
        if rng.random() < 0.3:
            h2, _ = _valid_header(rng)
            streams.append(_few_chunks(rng, h2 + _payload(rng), len(h2)))
        lose = {0} if rng.random() < 0.6 else set()
        return _conns_case(streams, _sequential(streams), lose, f"seq-leftover:{k0}>{k1}")
    if r < 0.55:
        # related headers: the same tokens reappear in a later connection in a context where they are NOT valid
        # (address of the other family, adorned port), or the same valid header is simply repeated
        fam = rng.choice([4, 6])
        g = _v4 if fam == 4 else _v6
        a, b, sp, dp = g(rng), g(rng), _port_ok(rng), _port_ok(rng)
        good = b"PROXY TCP%d %s %s %s %s\r\n" % (fam, a, b, sp, dp)
        q = rng.random()
        if q < 0.45:
            other = b"PROXY TCP%d %s %s %s %s\r\n" % (10 - fam, a, b, sp, dp)
            kind = "seq-crossfam"
        elif q < 0.7:
            other = b"PROXY TCP%d %s %s %s %s\r\n" % (fam, a, b, sp + rng.choice(ADORN), dp)
            kind = "seq-adorned"
        elif q < 0.85:
            other, kind = good, "seq-repeat"
        else:
            other = b"PROXY TCP%d %s %s %s %s\r\n" % (fam, b, a, dp, sp)
            kind = "seq-swapped"
        pair = [good, other] if rng.random() < 0.8 else [other, good]
        streams = [_few_chunks(rng, h + _payload(rng), len(h)) for h in pair]
        lose = {i for i in range(2) if rng.random() < 0.5}
        return _conns_case(streams, _sequential(streams), lose, kind)
    if r < 0.90:
        # concurrent connections: header segments of 2..3 connections interleaved
        streams = []
        for _ in range(rng.choice([2, 2, 3])):
            if rng.random() < 0.75:
                h, _k = _valid_header(rng)
                s, hlen = h + _payload(rng), len(h)
            else:
                s, hlen, _k = _stream(rng)
                if len(s) > 700:
                    s, hlen = s[:700], min(hlen, 700)
            ch = _few_chunks(rng, s, hlen)
            if len(ch) == 1 and len(s) > 1 and rng.random() < 0.8:     # make sure something can interleave
                p = rng.randrange(1, max(2, min(len(s), hlen + 1)))
                ch = [s[:p], s[p:]]
            streams.append(ch)
        return _conns_case(streams, _interleave(rng, streams), {i for i in range(len(streams)) if rng.random() < 0.2}, "interleaved")
    streams = []
    for _ in range(rng.choice([2, 3])):
        s, hlen, _k = _stream(rng)
        if len(s) > 700:
            s, hlen = s[:700], min(hlen, 700)
        streams.append(_few_chunks(rng, s, hlen))
    return _conns_case(streams, _sequential(streams), {i for i in range(len(streams)) if rng.random() < 0.4}, "seq-any")


def corpus():
    v1 = b"PROXY TCP4 1.1.1.1 2.2.2.2 8080 8888\r\n"
    v2 = SIG + b"\x21\x11\x00\x0c\x7f\x00\x00\x01\x7f\x00\x00\x02\x1f\x90\x22\xb8"
    cs = [
        # the known witness: a first delivery shorter than the signature
        _case([b"PROX", b"Y TCP4 1.1.1.1 2.2.2.2 8080 8888\r\nGET /"], "v1-tcp4"),
        _case([v2[:10], v2[10:] + b"hello"], "v2-proxy-11"),
        _case([v2[:14], v2[14:] + b"hello"], "v2-proxy-11"),
        _case([v1 + b"GET /"], "v1-tcp4"),
        _case([v1[:20], v1[20:] + b"GET /"], "v1-tcp4"),
        _case([v2 + b"hello"], "v2-proxy-11"),
        _case([b"PROXY UNKNOWN\r\nabc"], "v1-unknown"),
        _case([b"PROXY UNKNOWN " + b"x" * 150 + b"\r\nDATA"], "v1-len166"),
        _case([b"PROXY TCP4 1.1.1.1 2.2.2.2 abc 80\r\nDATA"], "v1-badport"),
        _case([b"PROXY TCP4 1.1.1.1 2.2.2.2 99999 80\r\nDATA"], "v1-badport"),
        _case([b"PROXY TCP4 \xff 2.2.2.2 1 80\r\nDATA"], "v1-badaddr"),
        _case([b"PROXY TCP4 foo bar 1 80\r\nDATA"], "v1-badaddr"),
        _case([b"PROXY TCP4 1.1.1.1 2.2.2.2 1 80 junk\r\nDATA"], "v1-fields"),
        _case([b"GET / HTTP/1.1\r\n\r\n"], "junk"),
        _case([], "empty"),
        _case([b""], "empty"),
        _case([b"", v1 + b"x"], "v1-tcp4"),
        # --- classes added by the mutation audit (harness/mutants/C47)
        # a token followed by LF (what a regex `$` or int() would let through)
        _case([b"PROXY TCP4 1.1.1.1 2.2.2.2 1 80\n\r\nDATA"], "v1-adorn-port"),
        _case([b"PROXY TCP4 1.1.1.1 2.2.2.2 1\n 80\r\nDATA"], "v1-adorn-port"),
        _case([b"PROXY TCP4 1.1.1.1\n 2.2.2.2 1 80\r\nDATA"], "v1-adorn-addr"),
        # v2 headers with a declared length beyond 255 / 472 / 4096 (TLVs)
        _case([SIG + b"\x21\x11\x01\x2c" + b"\x01" * 300 + b"DATA"], "v2-proxy-11+bigtlv"),
        _case([SIG + b"\x21\x21\x02\x00" + b"\x02" * 512, b"DATA"], "v2-proxy-21+bigtlv"),
        _case([SIG + b"\x21\x11\x10\x01" + b"\x03" * 4097 + b"D"], "v2-proxy-11+bigtlv"),
        # a stream that ends where it can no longer become a header: closed at once
        _case([SIG + b"\x11"], "junk-v2ver"),
        _case([SIG + b"\x31\x11\x00"], "junk-v2ver"),
        _case([SIG + b"\x21\x11\x00"], "v2-proxy-11-cut"),
        # several connections of one factory: leftover of an unfinished header, tokens reused across families,
        # interleaved header segments
        _conns_case([[v1[:20]], [v1 + b"GET /"]], [0, 1], {0}, "seq-leftover"),
        _conns_case([[v2[:20]], [v2 + b"hello"]], [0, 1], set(), "seq-leftover"),
        _conns_case([[b"PROXY TCP6 ::1 ::2 1 2\r\nA"], [b"PROXY TCP4 ::1 ::2 1 2\r\nB"]], [0, 1], {0}, "seq-crossfam"),
        _conns_case([[v1[:22], v1[22:] + b"AAA"], [b"PROXY TCP4 3.3.3.3 4.4.", b"4.4 7 8\r\nBBB"]], [0, 1, 0, 1], set(), "interleaved"),
        _conns_case([[v2[:20], v2[20:] + b"AAA"], [v2[:18], v2[18:] + b"BBB"]], [0, 1, 1, 0], set(), "interleaved"),
        _conns_case([[], [v1]], [1], set(), "seq-any"),
    ]
    return cs


ADDR_ALPHA = b"0123456789abcdefABCDEF::::....%g \x00\xff"


def _parse_cases(rng, n):
    for _ in range(n):
        r = rng.random()
        if r < 0.5:       # address validator: inet_pton text forms
            fam = rng.choice([4, 6])
            if rng.random() < 0.5:
                tok = (_v4 if fam == 4 else _v6)(rng)
                if rng.random() < 0.5 and tok:
                    k = rng.randrange(len(tok))
                    tok = tok[:k] + bytes([rng.choice(ADDR_ALPHA)]) * rng.choice([0, 1, 1, 2]) + tok[k + rng.choice([0, 1]):]
            else:
                tok = bytes(rng.choice(ADDR_ALPHA[:32] if rng.random() < 0.9 else ADDR_ALPHA) for _ in range(rng.randint(0, 20)))
            tok = tok.replace(b" ", b"")
            other = (_v4 if fam == 4 else _v6)(rng)
            pair = [tok, other] if rng.random() < 0.5 else [other, tok]
            yield {"op": "v1parse", "line": (b"PROXY TCP%d %s %s 1 2" % (fam, pair[0], pair[1])).hex(), "kind": "addr%d" % fam}
        elif r < 0.75:
            h, kind = _v1_header(rng)
            i = h.find(CRLF)
            yield {"op": "v1parse", "line": (h[:i] if i >= 0 else h).hex(), "kind": kind}
        else:
            h, kind = _v2_header(rng)
            if rng.random() < 0.1:
                h = h[:rng.randrange(len(h) + 1)]
            yield {"op": "v2parse", "line": h.hex(), "kind": kind}


def generate(rng, tier):
    yield from _parse_cases(rng, 1200 if tier == "quick" else 40000)
    n = 420 if tier == "quick" else 9000
    for i in range(n):
        s, hlen, kind = _stream(rng)
        modes = ["whole", "two", "multi"]
        if i % 7 == 0:
            modes.append("bytes")
        if tier == "thorough" and i % 10 == 0 and len(s) < 140:
            modes.append("all-two")
        for m in modes:
            for chunks in _splits(rng, s, hlen, m):
                yield _case(chunks, kind)
        for _ in range(3):
            yield _conns(rng)


def search(rng, tier, disagreeing):
    """every two-way split and the byte-by-byte delivery of each disagreeing stream + fresh thorough cases"""
    for c in disagreeing[:50]:
        if c.get("op", "run") == "conns":    # every connection alone, then the same connections one after the other
            for i in range(c["n"]):
                yield _case(_conn_chunks(c, i), c.get("kind", "?"))
            streams = [_conn_chunks(c, i) for i in range(c["n"])]
            yield _conns_case(streams, _sequential(streams), set(c.get("lose", [])), c.get("kind", "?"))
            continue
        if c.get("op", "run") != "run":      # a direct-parse disagreement: drive the same line through the wrapper
            s = bytes.fromhex(c["line"]) + (CRLF + b"DATA" if c["op"] == "v1parse" else b"DATA")
        else:
            s = b"".join(_chunks(c))
        for p in range(0, len(s) + 1):
            yield _case([s[:p], s[p:]], c.get("kind", "?"))
        yield _case([s[i:i + 1] for i in range(len(s))], c.get("kind", "?"))
    for _ in range(600):
        s, hlen, kind = _stream(rng)
        for chunks in _splits(rng, s, hlen, "all-two" if len(s) < 140 else "two"):
            yield _case(chunks, kind)
        yield _conns(rng)


def _shrink_conns(c):
    kind, lose = c.get("kind", "?"), set(c.get("lose", []))
    ev = c["events"]
    n = c["n"]
    for i in range(n):                       # drop a whole connection
        if n > 1:
            ren = lambda j: j - (j > i)
            yield {"op": "conns", "n": n - 1, "events": [[ren(j), h] for j, h in ev if j != i],
                   "lose": sorted(ren(j) for j in lose if j != i), "kind": kind}
    if lose:
        yield dict(c, lose=[])
    for k in range(len(ev)):                 # drop one event; merge an event into the connection's next one
        yield dict(c, events=ev[:k] + ev[k + 1:])
        for m in range(k + 1, len(ev)):
            if ev[m][0] == ev[k][0]:
                yield dict(c, events=ev[:k] + ev[k + 1:m] + [[ev[k][0], ev[k][1] + ev[m][1]]] + ev[m + 1:])
                break
    for k, (i, h) in enumerate(ev):          # shorten a chunk from its end
        b = bytes.fromhex(h)
        for cut in (len(b) // 2, 1):
            if 0 < cut < len(b):
                yield dict(c, events=ev[:k] + [[i, b[:-cut].hex()]] + ev[k + 1:])


def shrink(c):
    if c.get("op", "run") == "conns":
        yield from _shrink_conns(c)
        return
    if c.get("op", "run") != "run":
        line = bytes.fromhex(c["line"])
        for j in range(len(line)):
            yield {"op": c["op"], "line": (line[:j] + line[j + 1:]).hex(), "kind": c.get("kind", "?")}
        return
    chunks = _chunks(c)
    kind = c.get("kind", "?")
    # merge adjacent chunks
    for i in range(len(chunks) - 1):
        yield _case(chunks[:i] + [chunks[i] + chunks[i + 1]] + chunks[i + 2:], kind)
    # drop empty chunks
    for i, ch in enumerate(chunks):
        if not ch and len(chunks) > 1:
            yield _case(chunks[:i] + chunks[i + 1:], kind)
    # shorten from the end (payload), then remove single bytes anywhere
    if chunks and chunks[-1]:
        last = chunks[-1]
        for k in (len(last) // 2, 1):
            if 0 < k <= len(last):
                yield _case(chunks[:-1] + [last[:-k]], kind)
    for i, ch in enumerate(chunks):
        if len(ch) <= 60:
            for j in range(len(ch)):
                yield _case(chunks[:i] + [ch[:j] + ch[j + 1:]] + chunks[i + 1:], kind)


def _lenclass(n):
    for b in (0, 1, 4, 5, 7, 8, 12, 13, 15, 16):
        if n <= b:
            return str(b)
    return "big"


def _outclass(o):
    o = _parse_out(o)
    return "raise" if o is None else ("closed" if o["closed"] == "1" else ("hdr" if o["hdr"] == "1" else "wait")) + \
        ("" if o is None or o["peer"] == "real" else ":" + o["peer"].split(":")[0])


def tag(c, out):
    if c.get("op", "run") == "conns":
        order = [i for i, _ in c["events"]]
        inter = "interleaved" if any(order[k] > order[k + 1] for k in range(len(order) - 1)) else "sequential"
        refs = ",".join(ref_classify(b"".join(_conn_chunks(c, i)))[0][:3] for i in range(c["n"]))
        return f"conns:{c.get('kind', '?').split(':')[0]}:{inter}:n{c['n']}:lose{len(c.get('lose', []))}:{refs}:" + \
            ",".join(_outclass(o) for o in out.split(" | "))
    if c.get("op", "run") != "run":
        return f"{c['op']}:{c.get('kind', '?')}:{out.split(':')[0] if out.startswith('ok') else out}"
    chunks = _chunks(c)
    ref = ref_classify(b"".join(chunks))[0]
    o = _parse_out(out)
    oc = "raise" if o is None else ("closed" if o["closed"] == "1" else ("hdr" if o["hdr"] == "1" else "wait")) + \
        ("" if o is None or o["peer"] == "real" else ":" + o["peer"].split(":")[0])
    n = len(chunks)
    return f"{ref}:{c.get('kind', '?')}:n{n if n < 4 else 'many'}:f{_lenclass(len(chunks[0])) if chunks else '-'}:{oc}"
