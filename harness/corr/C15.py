"""C15 — TCP byte streams on every reactor: real tcp.Connection/abstract.FileDescriptor/posixbase dispatch
vs. the Lean model (TwistedModel/Transport/Tcp.lean), and the property oracle.

Two kinds of cases.

``sim``   deterministic, in-process.  Two real ``tcp.Server`` transports are wired to a *fake kernel*
          (two sockets with bounded receive queues, FIN/RST flags — the Python twin of the kernel part of
          the Lean model) and a fake reactor whose dispatch is the REAL ``_PollLikeMixin._doReadOrWrite`` /
          ``_DisconnectSelectableMixin._disconnectSelectable``.  A schedule (application calls, readiness
          reports with the number of bytes the kernel moves, delayed calls) is played on both sides and the
          per-event state (flags, counters, connectionLost reasons) is compared token by token.

``real``  one real loopback TCP connection on one of the select/poll/epoll/asyncio reactors, which runs in
          a SUBPROCESS (one reactor per process; a persistent worker per reactor).  Small SO_SNDBUF/SO_RCVBUF,
          seeded write patterns, reader-side pauses.  Only schedule-independent observables are compared with
          the model's prediction (the model is run under a fair schedule): bytes received (digest) for orderly
          closes, the prefix relation for aborts, connectionLost count/reason.  OS timing cannot change them.
"""
import atexit
import errno
import json
import os
import select as _select
import struct
import subprocess
import sys

HEADLINE = ("TwistedProps.C15.stream_accounting / connectionLost_at_most_once / no_data_after_connectionLost / "
            "close_never_forgotten / done_from_doWrite_is_connectionLost / "
            "singleBit_read_dispatch / singleBit_write_dispatch / singleBit_done_from_doWrite_is_connectionLost / "
            "loseConnection_clean_close / loseConnection_delivers_written / halfClose_clean_close / abortConnection_close / "
            "closeFromDataReceived_clean_close_partial")
RULE = ("sim: schedules over {write, writeSequence, loseConnection, loseWriteConnection, abortConnection, pause, resume, "
        "readiness reports (IN/OUT/HUP bits, kernel byte counts incl. 0), delayed calls} on a fake kernel with tiny SEND_LIMIT/"
        "recv size/queue capacity; disciplined templates (lose / half-close with reply / abort, either side) with noise, "
        "request/response templates (the peer writes requests; the closer replies from dataReceived at byte thresholds and calls "
        "loseConnection / loseWriteConnection / abortConnection RE-ENTRANTLY from dataReceived when the last request byte "
        "arrives — directed variants report IN|OUT in one event while a reply is still pending), protocol scripts for "
        "dataReceived / readConnectionLost / writeConnectionLost (any transport call), and undisciplined soups; "
        "30% of the sim schedules are played through the REAL single-condition dispatch of the select reactor "
        "(SelectReactor._doReadOrWrite) or the asyncio reactor (AsyncioSelectorReactor._readOrWrite): every report split "
        "into IN then OUT, no HUP bit, single-bit drain `S`; every writeSequence call passes its chunks as a list / one-shot "
        "generator / tuple / list iterator / deque in rotation (start drawn per protocol); the fake kernel answers a send() "
        "that cannot take anything with EWOULDBLOCK or ENOBUFS and interrupts send() with EINTR (flavour drawn per case); "
        "oracle-only classes: protocol callbacks that RAISE (readConnectionLost / writeConnectionLost / dataReceived; 70% an "
        "exception outside the Exception hierarchy) — connectionLost still exactly once per side after the drain; megabyte "
        "streams (1 MiB … 4 MiB, at and around the MiB marks) through the default SEND_LIMIT / bufferSize with partial "
        "sends, judged on digests; real: loopback connections on 4 reactors in subprocesses, closer = client|server, "
        "close kind lose|half|abort, sizes 0..256 KiB (4 MiB thorough), small socket buffers, reader pauses, plus "
        "request/response runs closing from dataReceived; "
        "distinct = (mode, template/reactor, close kind, half-closeable flags, outcome reasons, size class)")
ASSUMES = [
    "the Linux TCP stack and the select/poll/epoll/asyncio doIteration loops refine the kernel + poller of the model "
    "(bounded queue per direction, FIN after data, RST on abort or on close with unread data, POLLHUP only with POLLIN "
    "when registered for reading); the real-socket runs test this refinement on schedule-independent observables only",
    "safety theorems (stream_accounting, prefix, connectionLost at most once, nothing after it): no assumption on the "
    "schedule at all",
    "liveness / clean-close theorems: the one-closer discipline, stated as hypotheses of the theorems — schedule = "
    "pre ++ [loseConnection | loseWriteConnection | abortConnection of side w] ++ post; in pre only w writes, both sides "
    "may pause/resume, any readiness reports / delayed calls; in post only readiness reports / delayed calls (no "
    "application call, in particular no write after the close); the other side (both sides for a half-close) is "
    "reading when the close is issued; a half-closeable protocol reacts to readConnectionLost with loseConnection "
    "(half-close: with writes, then loseConnection); SEND_LIMIT, recv size and queue capacity > 0 (otherwise TCP itself "
    "resets the connection or nothing can move — not a Twisted behaviour)",
    "close issued from dataReceived (closeFromDataReceived_clean_close_partial): the closing situation RR is a hypothesis "
    "on the state reached (requester flushed and silent, its last bytes unread in the responder's queue, the responder's "
    "last dataReceived reaction = writes then loseConnection, armed for exactly that total); that a request/response "
    "pre-phase establishes RR is NOT proved (tested: the rr templates; the oracle reads the expected bytes/reasons off "
    "the case).  half-close / abort issued from dataReceived: safety theorems + tie + oracle only",
    "model and theorems: protocol callbacks do not raise (raising callbacks are an oracle-only sim class: the dispatch's "
    "except clauses, log.callWithLogger around it emulated by the harness); the select/asyncio dispatch (one doRead or "
    "one doWrite per call) is the single-bit special case of the modelled poll/epoll dispatch (singleBit_* theorems) "
    "and is tied step by step on the fake kernel AND by the real-socket runs; the doSelect/doPoll/asyncio event loops "
    "themselves (which fd is reported when) only by the real-socket runs; termination of the single-bit drain is "
    "checked per case, not proved; no TLS, no producers (C14)",
    "the container passed to writeSequence and the errno of a send() that takes nothing (EWOULDBLOCK / ENOBUFS / a "
    "preceding EINTR) are invisible to the model: the same model line must fit all of them",
    "megabyte sim cases are oracle-only (the List-based model is quadratic in the stream length; the real-socket "
    "megabyte runs of the thorough tier stay model-compared through `fair`)",
]
TRUSTED = ["harness fake kernel/poller in corr/C15.py (Python twin of kSend/kRecv/kShutWr/kClose/hupCond of the model)",
           "CPython socket module + Linux loopback TCP for the real-socket runs"]
MANIFEST = {
    "text": "Lean theorems (TwistedProps/C15.lean) over ALL schedules of readiness reports, partial send/recv sizes, delayed "
            "calls and application calls on a model of tcp.Connection + FileDescriptor + _doReadOrWrite/_disconnectSelectable "
            "over a kernel socket pair: delivered bytes are always a prefix of the bytes written, connectionLost at most once "
            "per side, nothing delivered after it, a pending loseConnection always keeps its writer registered and the CONNECTION_DONE "
            "of the doWrite part of any report (IN|OUT included) is dispatched as connectionLost(ConnectionDone) — for ANY protocol "
            "behaviour, re-entrant transport calls from dataReceived / readConnectionLost / writeConnectionLost included (no "
            "discipline assumed). Close requested from dataReceived (request/response): from the closing situation RR, one IN|* "
            "report then any reports → quiescent, ConnectionDone once on both sides, all bytes both ways (partial: RR assumed "
            "of the pre-phase). Under the one-closer discipline (either side "
            "closing, any pre-close writes/pauses/readiness noise, any post-close noise): no RST is ever generated, FIN is "
            "sent only after the flush, the peer closes only after EOF, nothing is discarded, pending bytes imply a "
            "registered writer; a progress measure strictly decreases over every fair round, so runFair reaches quiescence, "
            "where both protocols were told exactly once — ConnectionDone/ConnectionDone with received = accepted in both "
            "directions after loseConnection or a completed half-close (with reply), the closer's accepted bytes being "
            "exactly the concatenation of the schedule's write()/writeSequence() arguments, ConnectionAborted on the aborting "
            "side and exactly one reason on the other after abortConnection (reader holds a prefix). The same conclusions "
            "hold in any quiescent state a disciplined schedule reaches. Model tied to the code by step-by-step "
            "differential runs on a fake kernel (poll-like dispatch, and the select / asyncio single-condition dispatch — "
            "singleBit_* theorems: it is the single-bit case of the modelled one, a doWrite CONNECTION_DONE is connectionLost "
            "there too) and by real loopback runs on four reactors in subprocesses.",
    "note": "safety (all protocol behaviours) and liveness/clean-close (one-closer discipline) proved in Lean; close from "
            "dataReceived proved from the closing situation on (pre-phase assumed, `_partial`); ASSUMED (tested by the real-socket runs, not "
            "proved): Linux TCP and the four doIteration loops refine the model's kernel/poller; trusts Lean kernel, the "
            "hand-written model, the harness fake kernel",
    "technique": "Lean 4 invariants over all schedules + phase invariants and a progress measure under the discipline + differential tie (fake kernel, real dispatch code) + real-socket runs",
    "design_ref": "DESIGN.md §7 C15",
}

BIG = 10**9
REACTORS = ["select", "poll", "epoll", "asyncio"]


# =========================================================================================
# shared helpers

_BASE251 = bytes(range(251))


_pattern_cache = {}


def pattern(seed, n):
    """bytes (seed + i) mod 251, i < n — built by repetition (megabytes in milliseconds); big ones are remembered
    (the same op token is decoded by the run and by the oracle)"""
    r = seed % 251
    if n >= 65536 and (r, n) in _pattern_cache:
        return _pattern_cache[(r, n)]
    rot = _BASE251[r:] + _BASE251[:r]
    b = (rot * (n // 251 + 1))[:n]
    if n >= 65536:
        if len(_pattern_cache) > 6:
            _pattern_cache.clear()
        _pattern_cache[(r, n)] = b
    return b


def digest(b):
    # length + (the bytes as a base-256 number) mod a prime: position sensitive, and linear-time in C
    return f"{len(b)}.{int.from_bytes(bytes(b), 'big') % 4294967291}"


def fdigest(b):
    """length + SHA-1 prefix: the digest of the oracle-only megabyte sim cases (no Lean twin needed)"""
    import hashlib
    return f"{len(b)}.{hashlib.sha1(bytes(b)).hexdigest()[:16]}"


def _hex(b):
    return bytes(b).hex() if b else "-"


def _unhex(s):
    return b"" if s == "-" else bytes.fromhex(s)


def _letter(reason):
    from twisted.internet import error
    if reason.check(error.ConnectionAborted):
        return "X"
    if reason.check(error.ConnectionDone):
        return "D"
    if reason.check(error.ConnectionLost):
        return "L"
    return "O"


def op_bytes(tok):
    """bytes a write-ish op token passes to the transport (list of chunks), or None"""
    if tok.startswith("w"):
        return [_unhex(tok[1:])]
    if tok.startswith("q"):
        return [] if tok == "q" else [_unhex(x) for x in tok[1:].split(",")]
    if tok.startswith("g"):
        seed, n = tok[1:].split(".")
        return [pattern(int(seed), int(n))]
    return None


SEQ_KINDS = 5


class ScriptedCancel(BaseException):
    """what a protocol callback raises for the op `!B`: an exception OUTSIDE the Exception hierarchy (like
    asyncio.CancelledError / GeneratorExit)"""


class ScriptedError(Exception):
    """what a protocol callback raises for the op `!E`"""


def as_iovec(ds, kind):
    """the chunks of one writeSequence call as one of the iterables the API accepts (`Iterable[bytes]`): a list, a
    one-shot generator, a tuple, a one-shot list iterator, a deque — same bytes, whatever the container"""
    kind %= SEQ_KINDS
    if kind == 1:
        return (x for x in list(ds))
    if kind == 2:
        return tuple(ds)
    if kind == 3:
        return iter(list(ds))
    if kind == 4:
        import collections
        return collections.deque(ds)
    return list(ds)


def apply_op(transport, tok, written, proto=None):
    """perform one application op token on a real transport.  `proto` (the protocol that owns `written`) carries the
    rotation of writeSequence argument kinds: call number n of a protocol passes kind (seq + n) mod SEQ_KINDS."""
    if tok[0] in "wg":
        d = op_bytes(tok)[0]
        written.append(d)
        transport.write(d)
    elif tok[0] == "q":
        ds = op_bytes(tok)
        written.extend(ds)
        kind = 0
        if proto is not None:
            kind = proto.seq
            proto.seq += 1
        transport.writeSequence(as_iovec(ds, kind))
    elif tok == "L":
        transport.loseConnection()
    elif tok == "H":
        transport.loseWriteConnection()
    elif tok == "X":
        transport.abortConnection()
    elif tok == "P":
        transport.pauseProducing()
    elif tok == "R":
        transport.resumeProducing()
    elif tok == "!B":
        raise ScriptedCancel("scripted")
    elif tok == "!E":
        raise ScriptedError("scripted")
    else:
        raise ValueError(tok)


def make_protocols():
    from zope.interface import implementer
    from twisted.internet.interfaces import IHalfCloseableProtocol
    from twisted.internet.protocol import Protocol

    class Plain(Protocol):
        def __init__(self, cfg=None):
            cfg = cfg or {}
            self.received = bytearray()
            self.lost = []
            self.late = 0
            self.readLost = 0
            self.writeLost = 0
            self.written = []
            self.onrl = list(cfg.get("onrl", []))
            self.ondata = [[int(t), list(ops)] for t, ops in cfg.get("ondata", [])]
            self.onwl = list(cfg.get("onwl", []))
            self.seq = int(cfg.get("seq", 1))      # first writeSequence of a protocol: a generator, unless told otherwise
            self.on_lost = None
            self.on_data = None

        def dataReceived(self, data):
            if self.lost:
                self.late += 1
            self.received += data
            # re-entrant transport calls from inside dataReceived (twin of `dataReceived` in Tcp.lean): the ops
            # of every leading entry whose threshold is reached, once
            while self.ondata and len(self.received) >= self.ondata[0][0]:
                _, ops = self.ondata.pop(0)
                for tok in ops:
                    apply_op(self.transport, tok, self.written, self)
            if self.on_data:
                self.on_data(self)

        def connectionLost(self, reason):
            self.lost.append(_letter(reason))
            if self.on_lost:
                self.on_lost(self)

    @implementer(IHalfCloseableProtocol)
    class Half(Plain):
        def readConnectionLost(self):
            if self.lost:
                self.late += 1
            self.readLost += 1
            for tok in self.onrl:
                apply_op(self.transport, tok, self.written, self)

        def writeConnectionLost(self):
            if self.lost:
                self.late += 1
            self.writeLost += 1
            for tok in self.onwl:
                apply_op(self.transport, tok, self.written, self)

    return Plain, Half


# =========================================================================================
# sim: fake kernel + real transports + real dispatch

class KSock:
    """kernel side of one endpoint — twin of `Sock` + kSend/kRecv/kShutWr/kClose in Tcp.lean"""

    def __init__(self, cap, eno=0):
        # eno: which errno a send() that cannot take anything answers — the kernel's choice, invisible to the model
        # (its `some 0`): 0 = always EWOULDBLOCK; 1 = ENOBUFS and EWOULDBLOCK in turn; 2 = the same and every third
        # send() call is first interrupted (EINTR) before anything happened
        self.eno = eno
        self.nsend = self.nzero = 0
        self.inq = bytearray()
        self.inFin = self.inRst = self.shutWr = self.closed = False
        self.cap = cap
        self.peer = None
        self.nr = self.nw = 0
        self.linger0 = False
        self.sent = 0

    # -- the socket API tcp.py uses
    def setblocking(self, flag):
        pass

    def fileno(self):
        return 1000 + id(self) % 1000

    def setsockopt(self, level, opt, value):
        import socket
        if level == socket.SOL_SOCKET and opt == socket.SO_LINGER:
            self.linger0 = struct.unpack("ii", value) == (1, 0)

    def recv(self, bufsize):
        n = self.nr
        if n == 0:
            raise OSError(errno.EWOULDBLOCK, "would block")
        if self.inq:
            m = min(n, bufsize)
            d = bytes(self.inq[:m])
            del self.inq[:m]
            return d
        if self.inRst:
            raise OSError(errno.ECONNRESET, "reset")
        if self.inFin:
            return b""
        raise OSError(errno.EWOULDBLOCK, "would block")

    def send(self, data):
        data = bytes(data)
        self.nsend += 1
        if self.eno >= 2 and self.nsend % 3 == 0:
            raise InterruptedError(errno.EINTR, "interrupted system call")
        if self.inRst or self.shutWr:
            raise OSError(errno.EPIPE, "broken pipe")
        if not data:
            return 0
        if self.peer.closed:
            self.inRst = True
            l = min(self.nw, len(data))
        else:
            l = min(self.nw, len(data), max(0, self.cap - len(self.peer.inq)))
            self.peer.inq += data[:l]
        self.sent += l
        if l == 0:
            self.nzero += 1
            if self.eno and self.nzero % 2:
                raise OSError(errno.ENOBUFS, "no buffer space available")
            raise OSError(errno.EWOULDBLOCK, "would block")
        return l

    def shutdown(self, how):
        if self.closed:
            raise OSError(errno.EBADF, "closed")
        if how in (1, 2):
            self.shutWr = True
            self.peer.inFin = True

    def close(self):
        if self.closed:
            return
        rst = self.linger0 or bool(self.inq)
        self.closed = True
        self.shutWr = True
        del self.inq[:]
        self.peer.inFin = True
        self.peer.inRst = self.peer.inRst or rst


def _sim_classes():
    from twisted.internet.posixbase import _DisconnectSelectableMixin, _PollLikeMixin

    class SimReactor(_PollLikeMixin, _DisconnectSelectableMixin):
        _POLL_DISCONNECTED, _POLL_IN, _POLL_OUT = 1, 2, 4

        def __init__(self):
            self._reads, self._writes, self.calls = set(), set(), []

        def addReader(self, r):
            self._reads.add(r)

        def addWriter(self, w):
            self._writes.add(w)

        def removeReader(self, r):
            self._reads.discard(r)

        def removeWriter(self, w):
            self._writes.discard(w)

        def callLater(self, delay, f, *a, **kw):
            self.calls.append((f, a, kw))

    from twisted.logger import Logger
    SimReactor._log = Logger()          # asyncioreactor._readOrWrite logs through self._log
    return SimReactor


def _dispatch1(style):
    """the REAL single-condition dispatch of the select / asyncio reactor as a function (reactor, selectable, isRead)"""
    if style == "select":
        from twisted.internet.selectreactor import SelectReactor

        def dispatch(r, t, read):
            if t.fileno() == -1:
                # a registered selectable whose descriptor is gone (misuse: loseWriteConnection after connectionLost):
                # select() itself refuses it (ValueError), doSelect preens, _onePreen disconnects it — no doRead/doWrite
                return r._disconnectSelectable(t, ValueError("file descriptor cannot be a negative integer (-1)"), False)
            return SelectReactor._doReadOrWrite(r, t, "doRead" if read else "doWrite")
        return dispatch
    if style == "asyncio":
        from twisted.internet.asyncioreactor import AsyncioSelectorReactor
        return lambda r, t, read: AsyncioSelectorReactor._readOrWrite(r, t, read)
    raise ValueError(style)


_quiet = [False]


def _quiet_log():
    """the real dispatch code reports what it catches through log.err(): without an observer Twisted prints every
    such failure to stderr — thousands of tracebacks for the soups and the raising callbacks.  One no-op observer."""
    if not _quiet[0]:
        _quiet[0] = True
        try:
            from twisted.logger import globalLogBeginner
            globalLogBeginner.beginLoggingTo([lambda event: None], redirectStandardIO=False, discardBuffer=True)
        except Exception:
            pass


class Sim:
    def __init__(self, case):
        from twisted.internet import tcp
        _quiet_log()
        Plain, Half = make_protocols()
        sl, rm, cap = case["params"]
        self.swallow = case.get("tpl") == "raise"     # see `guarded`
        self.escaped = 0
        self.disp = case.get("disp", "poll")
        self.dispatch1 = _dispatch1(self.disp) if self.disp != "poll" else None
        self.reactor = _sim_classes()()
        self.k = {"A": KSock(cap, case.get("eno", 0)), "B": KSock(cap, case.get("eno", 0))}
        self.k["A"].peer, self.k["B"].peer = self.k["B"], self.k["A"]
        self.p, self.t = {}, {}
        for s in "AB":
            cfg = case["cfg"][s]
            self.p[s] = (Half if cfg["half"] else Plain)(cfg)
            t = tcp.Server(self.k[s], self.p[s], ("127.0.0.1", 1), None, 1, self.reactor)
            t.SEND_LIMIT = sl
            t.bufferSize = rm
            self.p[s].makeConnection(t)
            self.t[s] = t

    # -- twin of `io` masking in Tcp.lean (the poller), dispatch is the real _doReadOrWrite
    def io(self, s, bits, nr, nw):
        t, k, r = self.t[s], self.k[s], self.reactor
        if self.dispatch1 is not None:
            # select / asyncio: ONE condition per report, no HUP bit; a report of something not registered is not made
            if bits not in ("i", "o", "-"):
                raise ValueError("single-bit dispatch: " + bits)
            if (bits == "i" and t in r._reads) or (bits == "o" and t in r._writes):
                k.nr, k.nw = nr, nw
                self.guarded(self.dispatch1, r, t, bits == "i")
            return
        reading, writing = t in r._reads, t in r._writes
        hupC = k.inRst or (k.inFin and k.shutWr)
        hupE = ("h" in bits) and hupC and (reading or writing)
        inE = (("i" in bits) or hupE) and reading
        outE = ("o" in bits) and writing
        if not (inE or outE or hupE):
            return
        k.nr, k.nw = nr, nw
        ev = (r._POLL_IN if inE else 0) | (r._POLL_OUT if outE else 0) | (r._POLL_DISCONNECTED if hupE else 0)
        self.guarded(r._doReadOrWrite, t, t, ev)

    def guarded(self, f, *a):
        """every reactor calls its dispatch through log.callWithLogger, which logs and swallows whatever escapes it
        (KeyboardInterrupt excepted).  Emulated only for the cases whose protocols raise on purpose — anywhere else
        an exception escaping the dispatch is a failure of the run."""
        if not self.swallow:
            return f(*a)
        try:
            return f(*a)
        except KeyboardInterrupt:
            raise
        except BaseException:
            self.escaped += 1

    def timer(self, s):
        mine = [c for c in self.reactor.calls if getattr(c[0], "__self__", None) is self.t[s]]
        self.reactor.calls = [c for c in self.reactor.calls if c not in mine]
        for f, a, kw in mine:
            f(*a, **kw)

    def quiescent(self):
        r = self.reactor
        if r.calls:
            return False
        for s in "AB":
            t, k = self.t[s], self.k[s]
            readable = bool(k.inq) or k.inFin or k.inRst
            writable = k.inRst or k.shutWr or k.peer.closed or len(k.peer.inq) < k.cap
            if (t in r._reads and readable) or (t in r._writes and writable):
                return False
        return True

    def drain(self):
        for _ in range(500):
            if self.quiescent():
                return
            self.io("A", "ioh", BIG, BIG)
            self.io("B", "ioh", BIG, BIG)
            self.timer("A")
            self.timer("B")

    def drain1(self):
        """twin of `runSel` in Drv/C15.lean: single-bit rounds until quiescent"""
        for _ in range(500):
            if self.quiescent():
                return
            for s in "AB":
                self.io1(s, "i")
                self.io1(s, "o")
            self.timer("A")
            self.timer("B")

    def io1(self, s, bit):
        t, k, r = self.t[s], self.k[s], self.reactor
        if (bit == "i" and t in r._reads) or (bit == "o" and t in r._writes):
            k.nr, k.nw = BIG, BIG
            if self.dispatch1 is not None:
                self.guarded(self.dispatch1, r, t, bit == "i")
            else:
                self.guarded(r._doReadOrWrite, t, t, r._POLL_IN if bit == "i" else r._POLL_OUT)

    def event(self, tok):
        if tok == "D":
            self.drain()
        elif tok == "S":
            self.drain1()
        elif tok[0] == "a":
            s = tok[1]
            apply_op(self.t[s], tok[3:], self.p[s].written, self.p[s])
        elif tok[0] == "t":
            self.timer(tok[1])
        elif tok[0] == "i":
            s = tok[1]
            bits, nr, nw = tok[3:].split(":")
            self.io(s, bits, int(nr), int(nw))
        else:
            raise ValueError(tok)

    def token(self):
        out = []
        r = self.reactor
        for s in "AB":
            t, p, k = self.t[s], self.p[s], self.k[s]
            flags = [t.connected, t.disconnected, t.disconnecting, t._writeDisconnecting, t._writeDisconnected,
                     t in r._reads, t in r._writes, hasattr(t, "socket"), t._aborting]
            pend = len(t.dataBuffer) - t.offset + t._tempDataLen
            out.append("".join("1" if f else "0" for f in flags)
                       + f"/{len(p.received)}/{pend}/{k.sent}/{''.join(p.lost) or '-'}/{p.readLost}/{p.writeLost}")
        return "|".join(out)


def run_sim(case):
    sim = Sim(case)
    toks = []
    for ev in case["events"]:
        sim.event(ev)
        toks.append(sim.token())
    pa, pb = sim.p["A"], sim.p["B"]
    wa, wb = b"".join(pa.written), b"".join(pb.written)
    if case.get("big"):
        # megabytes: digests instead of the bytes, the prefix relation evaluated here
        pfx = int(wa.startswith(bytes(pb.received)) and wb.startswith(bytes(pa.received)))
        return (";".join(toks) + f" A=#{fdigest(pa.received)} B=#{fdigest(pb.received)}"
                + f" # late={pa.late + pb.late} wA=#{fdigest(wa)} wB=#{fdigest(wb)} q={int(sim.quiescent())} pfx={pfx}")
    line = ";".join(toks) + f" A={_hex(pa.received)} B={_hex(pb.received)}"
    extra = (f" late={pa.late + pb.late} wA={_hex(wa)} wB={_hex(wb)}"
             f" q={int(sim.quiescent())}")
    return line + " #" + extra


# =========================================================================================
# real: worker subprocess (one reactor per process)

def worker_main(name):
    if name == "select":
        from twisted.internet import selectreactor as m
    elif name == "poll":
        from twisted.internet import pollreactor as m
    elif name == "epoll":
        from twisted.internet import epollreactor as m
    elif name == "asyncio":
        from twisted.internet import asyncioreactor as m
    else:
        raise SystemExit("unknown reactor " + name)
    m.install()
    import socket
    from twisted.internet import reactor
    from twisted.internet.protocol import ClientFactory, Factory
    Plain, Half = make_protocols()
    out = sys.stdout

    def run_case(case, done):
        roleC, kind = case["closer"], case["kind"]
        state = {"finished": False, "port": None, "timeout": None, "made": 0}
        protos = {}
        bufs = case.get("bufs", [4096, 4096])

        def mk(role):
            cfg = case["cfgC"] if role == roleC else case["cfgP"]
            p = (Half if cfg["half"] else Plain)(cfg)
            protos[role] = p
            p.on_lost = lost
            p.role = role
            return p

        def tune(p):
            try:
                h = p.transport.getHandle()
                h.setsockopt(socket.SOL_SOCKET, socket.SO_SNDBUF, bufs[0])
                h.setsockopt(socket.SOL_SOCKET, socket.SO_RCVBUF, bufs[1])
            except OSError:
                pass

        class P(object):
            pass

        def made(p):
            tune(p)
            state["made"] += 1
            if state["made"] == 2:
                start()

        def wrap(role):
            p = mk(role)
            orig = p.connectionMade

            def connectionMade():
                orig()
                made(p)
            p.connectionMade = connectionMade
            return p

        class SF(Factory):
            def buildProtocol(self, addr):
                return wrap("server")

        class CF(ClientFactory):
            def buildProtocol(self, addr):
                return wrap("client")

            def clientConnectionFailed(self, connector, reason):
                finish("connect-failed")

        def start():
            c = protos[roleC]
            pr = protos["server" if roleC == "client" else "client"]
            # reader-side pauses: [threshold bytes, seconds]
            pauses = list(case.get("pauses", []))

            def on_data(p):
                while pauses and len(p.received) >= pauses[0][0]:
                    _, secs = pauses.pop(0)
                    p.transport.pauseProducing()
                    reactor.callLater(secs, resume, p)

            def resume(p):
                if not p.lost:
                    p.transport.resumeProducing()
            pr.on_data = on_data
            steps = list(case["steps"])
            # request/response cases: the PEER runs the steps (requests); the closer only reacts from dataReceived
            actor = pr if case.get("rr") else c

            def go():
                while steps:
                    st = steps.pop(0)
                    if st[0] == "d":
                        reactor.callLater(st[1], go)
                        return
                    if not actor.lost:
                        apply_op(actor.transport, st[1], actor.written, actor)
            go()

        def lost(p):
            if len(protos) == 2 and all(q.lost for q in protos.values()) and not state["finished"]:
                reactor.callLater(0.03, finish, "ok")      # linger: catch late data / second connectionLost

        def finish(status):
            if state["finished"]:
                return
            state["finished"] = True
            if state["timeout"] and state["timeout"].active():
                state["timeout"].cancel()
            res = {"status": status}
            for role, p in protos.items():
                who = "A" if role == roleC else "B"
                res[who] = {"lost": "".join(p.lost), "recv": digest(p.received), "acc": digest(b"".join(p.written)),
                            "rl": p.readLost, "wl": p.writeLost, "late": p.late,
                            "recvlen": len(p.received)}
            a, b = protos.get(roleC), protos.get("server" if roleC == "client" else "client")
            if a is not None and b is not None:
                wa, wb = b"".join(a.written), b"".join(b.written)
                res["ab"] = int(wa.startswith(bytes(b.received)))
                res["ba"] = int(wb.startswith(bytes(a.received)))
            for p in protos.values():
                if not p.lost and getattr(p, "transport", None) is not None:
                    p.on_lost = None
                    try:
                        p.transport.abortConnection()
                    except Exception:
                        pass
            d = state["port"].stopListening() if state["port"] else None
            if d is not None:
                d.addBoth(lambda _: done(res))
            else:
                done(res)

        port = reactor.listenTCP(0, SF(), interface="127.0.0.1")
        state["port"] = port
        try:
            port.socket.setsockopt(socket.SOL_SOCKET, socket.SO_SNDBUF, bufs[0])
            port.socket.setsockopt(socket.SOL_SOCKET, socket.SO_RCVBUF, bufs[1])
        except OSError:
            pass
        state["timeout"] = reactor.callLater(case.get("timeout", 10), finish, "timeout")
        reactor.connectTCP("127.0.0.1", port.getHost().port, CF())

    def next_case():
        line = sys.stdin.readline()
        if not line:
            reactor.stop()
            return
        case = json.loads(line)

        def done(res):
            out.write(json.dumps(res) + "\n")
            out.flush()
            reactor.callLater(0, next_case)
        try:
            run_case(case, done)
        except Exception as e:  # infrastructure trouble inside the worker
            done({"status": "worker-error:" + type(e).__name__ + ":" + str(e)[:200]})

    reactor.callWhenRunning(next_case)
    reactor.run()


_workers = {}


def _kill_workers():
    for w in _workers.values():
        try:
            w.stdin.close()
            w.kill()
        except Exception:
            pass
    _workers.clear()


atexit.register(_kill_workers)


def _worker(name):
    w = _workers.get(name)
    if w is None or w.poll() is not None:
        import twisted
        src = os.path.dirname(os.path.dirname(os.path.abspath(twisted.__file__)))
        env = dict(os.environ)
        env["PYTHONPATH"] = src + os.pathsep + os.path.dirname(os.path.dirname(os.path.abspath(__file__)))
        w = subprocess.Popen([sys.executable, os.path.abspath(__file__), "--worker", name], stdin=subprocess.PIPE,
                             stdout=subprocess.PIPE, stderr=subprocess.DEVNULL, env=env, text=True, bufsize=1,
                             cwd="/")
        _workers[name] = w
    return w


def _ask(name, case, wall):
    w = _worker(name)
    try:
        w.stdin.write(json.dumps(case) + "\n")
        w.stdin.flush()
        r, _, _ = _select.select([w.stdout], [], [], wall)
        if not r:
            raise TimeoutError()
        line = w.stdout.readline()
        if not line:
            raise BrokenPipeError()
        return json.loads(line)
    except (TimeoutError, BrokenPipeError, OSError, ValueError):
        try:
            w.kill()
        except Exception:
            pass
        _workers.pop(name, None)
        return {"status": "worker-died"}


_hangs = [0]


def run_real(case):
    if _hangs[0] >= 3:       # a systematic hang: do not spend the whole budget waiting; same verdict as the first ones
        return "!status timeout (not run: three earlier cases already hung) {}"
    # the machine may be heavily loaded (a fresh worker alone can need many seconds to import twisted): the worker's
    # own time limit decides "timeout"; the wall limit around it only detects a dead / wedged worker and is generous
    wall = case.get("timeout", 10) + 60
    res = _ask(case["reactor"], case, wall)
    if res.get("status") not in ("ok", "timeout"):   # worker trouble (not a verdict): retry in a fresh worker
        res = _ask(case["reactor"], case, wall)
    if res.get("status") != "ok":
        # a loaded machine is not a hang, a slow start is not a dead worker: confirm with six times the time limit
        # before judging it
        slow = dict(case, timeout=case.get("timeout", 10) * 6)
        res = _ask(case["reactor"], slow, slow["timeout"] + 60)
        if res.get("status") not in ("ok", "timeout"):
            res = _ask(case["reactor"], slow, slow["timeout"] + 60)
    if res.get("status") == "timeout":
        _hangs[0] += 1
    if res.get("status") != "ok" or "A" not in res or "B" not in res:
        return "!status " + str(res.get("status")) + " " + json.dumps(res, sort_keys=True)

    def side(x):
        return f"lost={x['lost'] or '-'}:recv={x['recv']}:acc={x['acc']}:rl={x['rl']}:wl={x['wl']}"
    late = res["A"]["late"] + res["B"]["late"]
    return (f"A:{side(res['A'])} B:{side(res['B'])} q=1 ab={res['ab']} ba={res['ba']}"
            f" # late={late}")


# =========================================================================================
# engine interface

_real_cache = {}


def run_impl(c):
    if c["mode"] == "sim":
        return run_sim(c)
    key = json.dumps(c, sort_keys=True)      # a re-run of the same real case (engine: witness confirmation) reports
    if key not in _real_cache:               # what was observed, not a later "not run"
        _real_cache[key] = run_real(c)
    return _real_cache[key]


def _cfg_tok(cfg):
    od = "/".join(f"{int(t)}=" + ("+".join(ops) or "-") for t, ops in cfg.get("ondata", [])) or "-"
    if not cfg["half"]:
        return "p:-:" + od + ":-"
    return "h:" + ("+".join(cfg.get("onrl", [])) or "-") + ":" + od + ":" + ("+".join(cfg.get("onwl", [])) or "-")


def _ops_bytes(ops):
    return b"".join(b"".join(op_bytes(t) or []) for t in ops)


def _ondata_bytes(cfg):
    return b"".join(_ops_bytes(ops) for _, ops in cfg.get("ondata", []))


def model_line(c):
    if c["mode"] == "sim":
        if c.get("big") or c.get("tpl") == "raise":
            return None       # megabyte streams (the List-based model is quadratic there) and raising protocol
                              # callbacks (not modelled): oracle-only
        return "sim " + ",".join(map(str, c["params"])) + f" {_cfg_tok(c['cfg']['A'])} {_cfg_tok(c['cfg']['B'])} " \
               + " ".join(c["events"])
    # real: A = closer.  Every delay ends a phase (the model then runs fair rounds to quiescence).  The kernel
    # parameters of the prediction are immaterial (the compared observables do not depend on them): huge ones
    # keep the List-based model linear in the data size.
    phases, cur = [], []
    for st in c["steps"]:
        if st[0] == "d":
            phases.append(cur)
            cur = []
        else:
            cur.append(("aB:" if c.get("rr") else "aA:") + st[1])
    phases.append(cur)
    return ("fair 1073741824,1073741824,1073741824 " + f"{_cfg_tok(c['cfgC'])} {_cfg_tok(c['cfgP'])} "
            + " ".join("+".join(ph) or "-" for ph in phases))


def _split(out):
    main, _, extra = out.partition(" #")
    return main, dict(kv.split("=", 1) for kv in extra.split())


def _mask_recv(line, who):
    """drop `recv=<digest>` of one side (timing dependent after an abort)"""
    parts = line.split(" ")
    for i, p in enumerate(parts):
        if p.startswith(who + ":"):
            parts[i] = ":".join(f if not f.startswith("recv=") else "recv=*" for f in p.split(":"))
    return " ".join(parts)


def compare(c, impl_out, model_out):
    if impl_out.startswith("!"):
        return False if c["mode"] == "sim" else True     # real: infra/hang is judged by the oracle, not by the tie
    main, _ = _split(impl_out)
    if c["mode"] == "real" and c["kind"] == "X":
        return _mask_recv(main, "B") == _mask_recv(model_out, "B")
    return main == model_out


def _fields(side_tok):
    return dict(f.split("=", 1) for f in side_tok.split(":")[1:])


def oracle(c, out):
    """The property on the implementation's behaviour (no model involved)."""
    if out.startswith("!status"):
        st = out.split()[1]
        if st == "timeout":
            return {"key": "hang", "detail": "connectionLost not delivered to both sides within the time limit: " + out[:300]}
        return {"key": "infra-" + st.split(":")[0], "detail": out[:300]}
    if out.startswith("!"):
        return {"key": "raised", "detail": out}
    main, extra = _split(out)
    if int(extra.get("late", "0")):
        return {"key": "data-after-connectionLost", "detail": out[-300:]}
    if c["mode"] == "sim":
        states = main.split(" ")[0].split(";")
        last = states[-1]
        ta, tb = last.split("|")
        la, lb = ta.split("/")[4].replace("-", ""), tb.split("/")[4].replace("-", "")
        kv = dict(x.split("=", 1) for x in main.split(" ")[1:])
        big = kv["A"].startswith("#")
        for who, l in (("A", la), ("B", lb)):
            if len(l) > 1:
                return {"key": "connectionLost-twice", "detail": f"{who} connectionLost reasons {l}"}
        if big:
            da, db = kv["A"][1:], kv["B"][1:]              # digests of what A / B received
            if extra.get("pfx") != "1":
                return {"key": "not-a-prefix", "detail": f"A wrote {extra['wA']} B got #{db}; B wrote {extra['wB']} A got #{da}"}
            show = dg = fdigest
        else:
            ra, rb, wa, wb = _unhex(kv["A"]), _unhex(kv["B"]), _unhex(extra["wA"]), _unhex(extra["wB"])
            dg = digest
            da, db = digest(ra), digest(rb)
            if not wa.startswith(rb) or not wb.startswith(ra):
                return {"key": "not-a-prefix", "detail": f"A wrote {wa.hex()} B got {rb.hex()}; B wrote {wb.hex()} A got {ra.hex()}"}
            show = lambda b: bytes(b).hex()
        exp = c.get("expect", "any")
        halfkind = c.get("tpl") == "half" or (c.get("tpl") == "rr" and c.get("kind") == "H")
        if exp == "orderly":
            if (la, lb) != ("D", "D"):
                return {"key": "orderly-close-reasons", "detail": f"connectionLost A={la or '-'} B={lb or '-'} (expected D, D)"}
            # what each side writes is read off the CASE (its write events; every dataReceived reaction — an orderly
            # template arms them so that all fire; a half-closeable peer of a half-close: its reply, once) — not
            # off what the run happened to do
            W = c["closer"]
            R = "B" if W == "A" else "A"
            want = {}
            for s_ in "AB":
                want[s_] = b"".join(b"".join(op_bytes(e[3:]) or []) for e in c["events"] if e.startswith("a" + s_ + ":"))
                want[s_] += _ondata_bytes(c["cfg"][s_])
            if halfkind and c["cfg"][R]["half"]:
                want[R] += _ops_bytes(c["cfg"][R].get("onrl", []))
            if db != dg(want["A"]) or da != dg(want["B"]):
                return {"key": "bytes-missing", "detail": f"A should write {show(want['A'])} B got {db if big else rb.hex()}; "
                                                          f"B should write {show(want['B'])} A got {da if big else ra.hex()}"}
        elif exp == "once":
            # a protocol callback raised: whatever the reasons, after the final drain each side was told exactly once
            if len(la) != 1 or len(lb) != 1:
                return {"key": "connectionLost-count", "detail": f"connectionLost A={la or '-'} B={lb or '-'} after the "
                                                                 f"final drain (a protocol callback raised; expected one call each)"}
        elif exp == "abort":
            w = c["closer"]
            lw, lr = (la, lb) if w == "A" else (lb, la)
            if lw != "X" or len(lr) != 1:
                return {"key": "abort-reasons", "detail": f"closer {lw or '-'} peer {lr or '-'}"}
        # "connectionLost is called exactly once ... after loseConnection": a transport on which loseConnection was
        # called (disconnecting), which is not being aborted, whose protocol was not told, and which is NOT registered
        # for writing any more can never complete the close — no event will ever call its connectionLost
        for i, st in enumerate(states):
            for who, t in zip("AB", st.split("|")):
                f, lost = t.split("/")[0], t.split("/")[4]
                if f[2] == "1" and f[6] == "0" and f[7] == "1" and f[8] == "0" and lost == "-":
                    return {"key": "close-never-completes",
                            "detail": f"after event {i} ({c['events'][i]}): {who} has loseConnection pending, socket open, "
                                      f"connectionLost not called, but no writer registered — state {t}"}
        return None
    # real
    toks = main.split(" ")
    fa, fb = _fields(toks[0]), _fields(toks[1])
    flags = dict(t.split("=") for t in toks[2:])
    la, lb = fa["lost"].replace("-", ""), fb["lost"].replace("-", "")
    if len(la) != 1 or len(lb) != 1:
        return {"key": "connectionLost-count", "detail": f"closer {la or '-'} peer {lb or '-'} on {c['reactor']}"}
    if flags["ab"] != "1" or flags["ba"] != "1":
        return {"key": "not-a-prefix", "detail": main[:300]}
    if c["kind"] == "X":
        if la != "X":
            return {"key": "abort-reasons", "detail": main[:300]}
    else:
        if (la, lb) != ("D", "D"):
            return {"key": "orderly-close-reasons", "detail": f"closer {la} peer {lb} on {c['reactor']} kind {c['kind']}"}
        stepped = b"".join(b"".join(op_bytes(st[1]) or []) for st in c["steps"] if st[0] == "o")
        # request/response: the peer runs the steps, the closer writes only from dataReceived (all reactions fire)
        want_a = _ondata_bytes(c["cfgC"]) if c.get("rr") else stepped
        want_b = stepped if c.get("rr") else b""
        if c["kind"] == "H" and c["cfgP"]["half"]:
            want_b += _ops_bytes(c["cfgP"].get("onrl", []))
        if fb["recv"] != digest(want_a) or fa["recv"] != digest(want_b):
            return {"key": "bytes-missing", "detail": f"peer should get {len(want_a)} bytes, closer {len(want_b)}: " + main[:300]}
    return None


def tag(c, out):
    if c["mode"] == "sim":
        main = out.split(" ")[0]
        last = main.split(";")[-1] if ";" in main or "|" in main else "?"
        reasons = "/".join(t.split("/")[4] for t in last.split("|")) if "|" in last else "?"
        tpl = c.get('tpl', 'soup') + (c.get("kind", "") if c.get("tpl") == "rr" else "") + c.get("site", "")
        tpl += ("-big" if c.get("big") else "") + ("-" + c["disp"] if c.get("disp") else "")
        react = "".join(str(int(bool(c["cfg"][s_].get(k)))) for s_ in "AB" for k in ("ondata", "onwl"))
        return (f"sim:{tpl}:{int(c['cfg']['A']['half'])}{int(c['cfg']['B']['half'])}:r{react}:"
                f"{reasons}:p{min(c['params'])}")
    n = sum(len(b) for st in c["steps"] if st[0] == "o" for b in (op_bytes(st[1]) or []))
    size = 0 if n == 0 else len(str(n))
    return (f"real{'-rr' if c.get('rr') else ''}{'-duplex' if c.get('duplex') else ''}:{c['reactor']}:{c['closer']}:{c['kind']}:"
            f"{int(c['cfgC']['half'])}{int(c['cfgP']['half'])}:s{size}:{out[:1] == '!'}")


# ------------------------------------------------------------------------------- generators

def _rand_bytes(rng, ctr, n):
    b = bytes((ctr[0] + i) % 251 for i in range(n))
    ctr[0] += n
    return b


def _write_tok(rng, ctr, maxlen=9):
    r = rng.random()
    if r < 0.65:
        return "w" + _hex(_rand_bytes(rng, ctr, rng.choice([0, 1, 1, 2, 3, 5, maxlen])))
    k = rng.choice([0, 1, 2, 3])
    if k == 0:
        return "q"
    return "q" + ",".join(_hex(_rand_bytes(rng, ctr, rng.choice([0, 1, 2, 4]))) for _ in range(k))


def _io_tok(rng, s=None):
    s = s or rng.choice("AB")
    bits = rng.choice(["i", "o", "io", "io", "ioh", "h", "oh", "ih", "-"])
    n = lambda: rng.choice([0, 1, 1, 2, 3, 5, 8, BIG])
    return f"i{s}:{bits}:{n()}:{n()}"


def _noise(rng, k):
    out = []
    for _ in range(k):
        out.append(_io_tok(rng) if rng.random() < 0.9 else "t" + rng.choice("AB"))
    return out


def _params(rng):
    return [rng.choice([1, 2, 3, 5, 8, 64]), rng.choice([1, 2, 4, 16]), rng.choice([1, 2, 4, 8, 32])]


def gen_template(rng):
    tpl = rng.choice(["lose", "lose", "half", "half", "abort"])
    W = rng.choice("AB")
    R = "B" if W == "A" else "A"
    ctrW, ctrR = [rng.randrange(200)], [100 + rng.randrange(100)]
    ev = []
    paused = False
    for _ in range(rng.randint(0, 5)):
        ev.append(f"a{W}:" + _write_tok(rng, ctrW))
        ev += _noise(rng, rng.randint(0, 4))
        if rng.random() < 0.3:
            ev.append(f"a{R}:" + ("R" if paused else "P"))
            paused = not paused
        if rng.random() < 0.15:
            ev.append(f"a{W}:" + rng.choice("PR"))
    if paused:
        ev.append(f"a{R}:R")
    cfg = {}
    if tpl == "lose":
        cfg[W] = {"half": rng.random() < 0.5, "onrl": ["L"]}
        cfg[R] = {"half": rng.random() < 0.5, "onrl": ["L"]}
        ev.append(f"a{W}:L")
        expect = "orderly"
    elif tpl == "half":
        cfg[W] = {"half": rng.random() < 0.6, "onrl": ["L"]}
        rhalf = rng.random() < 0.7
        reply = [_write_tok(rng, ctrR) for _ in range(rng.randint(0, 3))] if rhalf else []
        cfg[R] = {"half": rhalf, "onrl": reply + ["L"]}
        ev.append(f"a{W}:R")          # the initiator must be reading to see the reply and the EOF
        ev.append(f"a{W}:H")
        expect = "orderly"
    else:
        cfg[W] = {"half": rng.random() < 0.5, "onrl": ["L"]}
        cfg[R] = {"half": rng.random() < 0.5, "onrl": ["L"]}
        ev.append(f"a{W}:X")
        expect = "abort"
    ev += _noise(rng, rng.randint(0, 10))
    ev.append("D")
    for s in "AB":
        if not cfg[s]["half"]:
            cfg[s] = {"half": False}
    return {"mode": "sim", "tpl": tpl, "closer": W, "expect": expect, "params": _params(rng), "cfg": cfg, "events": ev}


def _nonempty_write_tok(rng, ctr, maxlen=9):
    if rng.random() < 0.75:
        return "w" + _hex(_rand_bytes(rng, ctr, rng.choice([1, 1, 2, 3, 5, maxlen])))
    chunks = [_rand_bytes(rng, ctr, rng.choice([0, 1, 2, 4])) for _ in range(rng.randint(1, 3))]
    if not any(chunks):
        chunks.append(_rand_bytes(rng, ctr, 1))
    return "q" + ",".join(_hex(x) for x in chunks)


def gen_rr(rng):
    """request/response, the close is issued RE-ENTRANTLY from dataReceived: the peer P writes requests (application
    calls); the closer W only reacts — its dataReceived writes replies at byte thresholds and, when the last request
    byte has arrived (threshold = total bytes P ever writes, so nothing is unread or in flight towards W), writes a
    last reply and calls loseConnection / loseWriteConnection / abortConnection.  `directed` shapes the schedule so
    that W still has a reply pending (writer registered) when the last request arrives and reports IN|OUT in ONE
    readiness event with room to flush everything — the close then completes inside the event that requested it."""
    kind = rng.choice(["L", "L", "L", "H", "X"])
    W = rng.choice("AB")
    P = "B" if W == "A" else "A"
    ctrW, ctrP = [rng.randrange(200)], [100 + rng.randrange(100)]
    directed = rng.random() < 0.5
    reqs = [_nonempty_write_tok(rng, ctrP) for _ in range(rng.randint(1, 4))]
    sizes = [len(b"".join(op_bytes(t))) for t in reqs]
    total = sum(sizes)
    if directed:
        cuts = []
        acc = 0
        for n in sizes:
            acc += n
            cuts.append(acc)
    else:
        cuts = sorted(set(rng.randint(1, total) for _ in range(rng.randint(0, 3))) | {total})
    trig = []
    for t in cuts[:-1]:
        ops = [_write_tok(rng, ctrW) for _ in range(rng.choice([0, 1, 1, 2]))]
        if directed and not any(op_bytes(o) and b"".join(op_bytes(o)) for o in ops):
            ops.append(_nonempty_write_tok(rng, ctrW))     # a reply stays pending: the writer is registered
        trig.append([t, ops])
    trig.append([total, [_write_tok(rng, ctrW) for _ in range(rng.choice([0, 1, 1, 2]))] + [kind]])
    wl = ["R"] if rng.random() < 0.3 else []
    cfg = {W: {"half": rng.random() < 0.7, "onrl": ["L"], "ondata": trig, "onwl": wl}}
    phalf = rng.random() < 0.5
    reply = [_write_tok(rng, ctrP) for _ in range(rng.randint(0, 2))] if (kind == "H" and phalf) else []
    cfg[P] = {"half": phalf, "onrl": reply + ["L"]}
    for s in "AB":
        if not cfg[s]["half"]:
            cfg[s] = {"half": False, **({"ondata": cfg[s]["ondata"]} if "ondata" in cfg[s] else {})}
    ev = []
    if directed:
        params = [rng.choice([16, 64, 64]), rng.choice([16, 64]), rng.choice([32, 64])]
        for i, r in enumerate(reqs):
            ev.append(f"a{P}:{r}")
            ev.append(f"i{P}:o:{BIG}:{BIG}")
            if rng.random() < 0.3:
                ev += _noise(rng, 1)
            last = i == len(reqs) - 1
            bits = "io" if (last or rng.random() < 0.3) else "i"
            if rng.random() < 0.2:
                bits += "h"
            ev.append(f"i{W}:{bits}:{BIG}:{rng.choice([BIG, BIG, BIG, 2])}")
    else:
        params = _params(rng)
        paused = {"A": False, "B": False}
        for r in reqs:
            ev.append(f"a{P}:{r}")
            ev += _noise(rng, rng.randint(0, 5))
            if rng.random() < 0.25:
                s = rng.choice("AB")
                ev.append(f"a{s}:" + ("R" if paused[s] else "P"))
                paused[s] = not paused[s]
        # nobody stays paused: the closer must see the last request, the peer the replies and the EOF
        for s in "AB":
            if paused[s]:
                ev.append(f"a{s}:R")
    ev += _noise(rng, rng.randint(0, 8))
    ev.append("D")
    return {"mode": "sim", "tpl": "rr", "kind": kind, "closer": W, "expect": "abort" if kind == "X" else "orderly",
            "params": params, "cfg": cfg, "events": ev}


def _soup_reactions(rng, ctr):
    """random dataReceived / writeConnectionLost scripts (any op, close operations included)"""
    od = []
    t = 0
    for _ in range(rng.choice([0, 1, 1, 2, 3])):
        t += rng.choice([0, 1, 1, 2, 3, 5])
        ops = [rng.choice(["L", "L", "H", "X", "R", "P", _write_tok(rng, ctr), _write_tok(rng, ctr)])
               for _ in range(rng.randint(0, 3))]
        od.append([max(t, 1), ops])
    return od


def gen_soup(rng):
    ctr = {"A": [rng.randrange(200)], "B": [rng.randrange(200)]}
    cfg = {}
    for s in "AB":
        if rng.random() < 0.5:
            onrl = [rng.choice(["L", "L", "H", "X", "R", "P", _write_tok(rng, ctr[s])]) for _ in range(rng.randint(0, 3))]
            cfg[s] = {"half": True, "onrl": onrl}
            if rng.random() < 0.5:
                cfg[s]["onwl"] = [rng.choice(["L", "L", "H", "X", "R", "P", _write_tok(rng, ctr[s])])
                                  for _ in range(rng.randint(0, 2))]
        else:
            cfg[s] = {"half": False}
        if rng.random() < 0.5:
            cfg[s]["ondata"] = _soup_reactions(rng, ctr[s])
    ev = []
    for _ in range(rng.randint(1, 40)):
        r = rng.random()
        if r < 0.55:
            ev.append(_io_tok(rng))
        elif r < 0.62:
            ev.append("t" + rng.choice("AB"))
        elif r < 0.8:
            s = rng.choice("AB")
            ev.append(f"a{s}:" + _write_tok(rng, ctr[s]))
        else:
            ev.append(f"a{rng.choice('AB')}:" + rng.choice(["L", "L", "H", "H", "X", "P", "R", "R"]))
    if rng.random() < 0.5:
        ev.append("D")
    return {"mode": "sim", "tpl": "soup", "expect": "any", "params": _params(rng), "cfg": cfg, "events": ev}


def restyle(c, style):
    """the same schedule for a reactor that reports ONE condition per dispatch (select / asyncio): every readiness
    report is split into its IN part and its OUT part (two consecutive reports, reads first), HUP bits are dropped,
    the final drain is made of single-bit rounds"""
    ev = []
    for e in c["events"]:
        if e == "D":
            ev.append("S")
        elif e[0] == "i":
            bits, nr, nw = e[3:].split(":")
            for b in "io":
                if b in bits:
                    ev.append(f"i{e[1]}:{b}:{nr}:{nw}")
        else:
            ev.append(e)
    if not ev:                  # nothing but HUP-only reports: keep one item
        ev.append("S")
    return dict(c, disp=style, events=ev)


def gen_raise(rng):
    """a protocol callback RAISES (70%: an exception outside the Exception hierarchy): the reader's readConnectionLost,
    the half-closer's writeConnectionLost, or the reader's dataReceived at the first byte.  Whatever the callback
    does, each protocol must have been told connectionLost exactly once when everything has drained.  Oracle-only."""
    while True:
        c = gen_template(rng)
        if c["tpl"] in ("lose", "half"):
            break
    W = c["closer"]
    R = "B" if W == "A" else "A"
    boom = "!B" if rng.random() < 0.7 else "!E"
    site = rng.choice(["rl", "rl", "wl", "data"] if c["tpl"] == "half" else ["rl", "rl", "data"])
    cfg = {k: dict(v) for k, v in c["cfg"].items()}
    if site == "rl":
        pre = [_write_tok(rng, [7])] if rng.random() < 0.3 else []
        cfg[R] = dict(cfg[R], half=True, onrl=pre + [boom] + (["L"] if rng.random() < 0.3 else []))
    elif site == "wl":
        cfg[W] = dict(cfg[W], half=True, onrl=cfg[W].get("onrl", ["L"]), onwl=[boom])
    else:
        cfg[R] = dict(cfg[R], ondata=[[1, [boom]]])
    return dict(c, tpl="raise", site=site, expect="once", cfg=cfg)


def gen_big(rng):
    """megabyte streams through the REAL default SEND_LIMIT / bufferSize on the fake kernel (sizes up to the 4 MiB of
    the statement, at and around 1 MiB / 2 MiB, partial sends): lose / half-close (with a big reply) / abort.
    Oracle-only (digests)."""
    tpl = rng.choice(["lose", "lose", "half", "abort"])
    W = rng.choice("AB")
    R = "B" if W == "A" else "A"
    first = [1 << 20, (1 << 20) + 1, 1500000, (2 << 20) + 1, 3000000, 4 << 20]
    later = [0, 1, 70000, 131072, 131073, 1 << 20]
    ev, seed = [], rng.randrange(251)
    for j in range(rng.randint(1, 3)):
        n = rng.choice(first if j == 0 else later)
        ev.append(f"a{W}:g{seed}.{n}")
        seed = (seed + n) % 251
        for _ in range(rng.randint(0, 4)):
            ev.append(f"i{W}:o:{BIG}:{rng.choice([BIG, 300000, 131072, 70000, 4096])}")
            if rng.random() < 0.7:
                ev.append(f"i{R}:i:{rng.choice([BIG, 65536, 1000])}:{BIG}")
    cfg = {W: {"half": rng.random() < 0.5, "onrl": ["L"]}, R: {"half": rng.random() < 0.5, "onrl": ["L"]}}
    expect = "orderly"
    if tpl == "lose":
        ev.append(f"a{W}:L")
    elif tpl == "half":
        if cfg[R]["half"]:
            cfg[R]["onrl"] = [f"g{rng.randrange(251)}.{rng.choice([0, 70000, (1 << 20) + 7, 2500000])}", "L"]
        ev.append(f"a{W}:H")
    else:
        ev.append(f"a{W}:X")
        expect = "abort"
    for _ in range(rng.randint(0, 4)):
        s_ = rng.choice("AB")
        ev.append(f"i{s_}:{rng.choice(['i', 'o', 'io', 'ioh'])}:{rng.choice([BIG, 65536, 1000])}:{rng.choice([BIG, 300000, 70000])}")
    ev.append("D")
    for s_ in "AB":
        if not cfg[s_]["half"]:
            cfg[s_] = {"half": False}
    return {"mode": "sim", "tpl": tpl, "big": True, "closer": W, "expect": expect,
            "params": [131072, 65536, rng.choice([65536, 200000, 1 << 20, 1 << 22])], "cfg": cfg, "events": ev}


def sim_case(rng):
    """one sim case: template / request-response / soup / raising callbacks, 30% of them played through the select or
    asyncio dispatch; random writeSequence argument kinds and kernel errno flavours (both invisible to the model)"""
    x = rng.random()
    c = gen_template(rng) if x < 0.32 else gen_rr(rng) if x < 0.6 else gen_raise(rng) if x < 0.68 else gen_soup(rng)
    y = rng.random()
    if y < 0.3:
        c = restyle(c, "select" if y < 0.15 else "asyncio")
    c["cfg"] = {k: dict(v, seq=rng.randrange(SEQ_KINDS)) for k, v in c["cfg"].items()}
    c["eno"] = rng.choice([0, 1, 1, 2])
    return c


def gen_real(rng, reactor, tier, big=False):
    kind = rng.choice(["L", "L", "H", "H", "X"])
    closer = rng.choice(["client", "server"])
    top = (262144 if tier == "quick" else 1048576)
    sizes = [0, 1, 100, 4095, 4096, 4097, 65536, 131072, 131073, top]
    if big:
        sizes = [4 * 1048576, 2 * 1048576 + 1]
    steps, seed, total = [], rng.randrange(251), 0
    for _ in range(rng.randint(1, 4)):
        if rng.random() < 0.7:
            n = rng.choice(sizes)
            steps.append(["o", f"g{seed}.{n}"])
        else:
            ns = [rng.choice([0, 1, 10, 1000, 70000]) for _ in range(rng.randint(0, 4))]
            n = sum(ns)
            # writeSequence has no pattern token: small chunks only, hex-encoded
            ns = [min(x, 1000) for x in ns]
            n = sum(ns)
            chunks, off = [], 0
            for x in ns:
                chunks.append(_hex(pattern(seed + off, x)))
                off += x
            steps.append(["o", "q" + ",".join(chunks)] if chunks else ["o", "q"])
        seed = (seed + n) % 251
        total += n
        if rng.random() < 0.35:
            steps.append(["d", rng.choice([0, 0.001, 0.01])])
        if total > (4 * 1048576 if big else 2 * top):
            break
    steps.append(["o", kind])
    cfgC = {"half": rng.random() < 0.5, "onrl": ["L"]}
    if kind == "H":
        phalf = rng.random() < 0.7
        reply = [f"g{rng.randrange(251)}.{rng.choice([0, 1, 5000, 70000, 200000])}" for _ in range(rng.randint(0, 2))] if phalf else []
        cfgP = {"half": phalf, "onrl": reply + ["L"]}
    else:
        cfgP = {"half": rng.random() < 0.5, "onrl": ["L"]}
    for cfg in (cfgC, cfgP):
        if not cfg["half"]:
            cfg.pop("onrl")
    pauses = []
    if total and rng.random() < 0.6:
        t = 0
        for _ in range(rng.randint(1, 3)):
            t += rng.randrange(1, max(2, total // 2))
            pauses.append([t, rng.choice([0.001, 0.005, 0.02])])
    b = rng.choice([2048, 4096, 16384])
    cfgC["seq"], cfgP["seq"] = rng.randrange(SEQ_KINDS), rng.randrange(SEQ_KINDS)
    return {"mode": "real", "reactor": reactor, "closer": closer, "kind": kind, "steps": steps, "cfgC": cfgC, "cfgP": cfgP,
            "pauses": pauses, "bufs": [b, rng.choice([16384, 32768, 65536])], "timeout": 10 if tier == "quick" else 40}


def gen_real_rr(rng, reactor, tier):
    """request/response on a real connection: the peer writes the requests; the closer replies from dataReceived and
    closes from dataReceived when the last request byte has arrived"""
    kind = rng.choice(["L", "L", "H", "X"])
    closer = rng.choice(["client", "server"])
    if rng.random() < 0.3:
        # duplex pressure: a large request and — from the first chunk on — a large reply, so BOTH ends have more output
        # pending than the socket buffers hold while input keeps arriving (a reactor must keep polling for input then)
        n, m = rng.choice([70000, 200000]), rng.choice([70000, 200000])
        seed, rs = rng.randrange(251), rng.randrange(251)
        trig = [[1, [f"g{rs}.{m}"]], [n, [kind]]]
        phalf = rng.random() < 0.6
        cfgC = {"half": rng.random() < 0.7, "onrl": ["L"], "ondata": trig}
        cfgP = {"half": phalf, "onrl": ["L"]}
        if not cfgC["half"]:
            cfgC = {"half": False, "ondata": trig}
        if not cfgP["half"]:
            cfgP = {"half": False}
        b = rng.choice([2048, 4096])
        return {"mode": "real", "rr": True, "duplex": True, "reactor": reactor, "closer": closer, "kind": kind,
                "steps": [["o", f"g{seed}.{n}"]], "cfgC": cfgC, "cfgP": cfgP, "pauses": [], "bufs": [b, 16384],
                "timeout": 10 if tier == "quick" else 40}
    sizes = [1, 100, 4096, 20000, 70000]
    steps, seed, total = [], rng.randrange(251), 0
    cuts = []
    for _ in range(rng.randint(1, 3)):
        n = rng.choice(sizes)
        steps.append(["o", f"g{seed}.{n}"])
        seed = (seed + n) % 251
        total += n
        cuts.append(total)
        if rng.random() < 0.5:
            steps.append(["d", rng.choice([0, 0.001, 0.01])])
    trig, rs = [], rng.randrange(251)
    for t in cuts[:-1]:
        n = rng.choice([1, 100, 5000, 70000])
        trig.append([t, [f"g{rs}.{n}"]])
        rs = (rs + n) % 251
    last = [f"g{rs}.{rng.choice([1, 100, 5000, 70000])}"] if rng.random() < 0.7 else []
    trig.append([total, last + [kind]])
    cfgC = {"half": rng.random() < 0.7, "onrl": ["L"], "ondata": trig}
    phalf = rng.random() < 0.6
    reply = [f"g{rng.randrange(251)}.{rng.choice([0, 1, 5000, 70000])}"] if (kind == "H" and phalf) else []
    cfgP = {"half": phalf, "onrl": reply + ["L"]}
    if not cfgC["half"]:
        cfgC = {"half": False, "ondata": trig}
    if not cfgP["half"]:
        cfgP = {"half": False}
    b = rng.choice([2048, 4096, 16384])
    return {"mode": "real", "rr": True, "reactor": reactor, "closer": closer, "kind": kind, "steps": steps, "cfgC": cfgC,
            "cfgP": cfgP, "pauses": [], "bufs": [b, rng.choice([16384, 65536])], "timeout": 10 if tier == "quick" else 40}


def corpus():
    P = {"half": False}
    HL = {"half": True, "onrl": ["L"]}
    return [
        {"mode": "sim", "tpl": "lose", "closer": "A", "expect": "orderly", "params": [4, 3, 5], "cfg": {"A": P, "B": P},
         "events": ["aA:w0102030405060708", "iA:o:0:3", "iB:i:2:0", "aA:L", "iA:io:9:9", "iB:ioh:9:9", "D"]},
        {"mode": "sim", "tpl": "half", "closer": "A", "expect": "orderly", "params": [2, 2, 3],
         "cfg": {"A": HL, "B": {"half": True, "onrl": ["w0a0b0c", "L"]}},
         "events": ["aA:q0102,-,03", "aA:H", "iA:o:1:1", "D"]},
        {"mode": "sim", "tpl": "abort", "closer": "B", "expect": "abort", "params": [3, 2, 2], "cfg": {"A": P, "B": HL},
         "events": ["aB:w010203040506", "iB:o:0:2", "aB:X", "aB:w07", "iB:io:5:5", "tB", "D"]},
        # both sides close at once; close with unread data resets the peer (kernel), reasons may be L — only safety is checked
        {"mode": "sim", "tpl": "soup", "expect": "any", "params": [2, 2, 2], "cfg": {"A": P, "B": P},
         "events": ["aA:w0102030405", "aB:w0a0b0c0d0e", "aA:L", "aB:L", "D"]},
        # misuse: half-close twice, resume after EOF on a half-closeable protocol
        {"mode": "sim", "tpl": "soup", "expect": "any", "params": [8, 4, 8], "cfg": {"A": {"half": True, "onrl": []}, "B": HL},
         "events": ["aA:w01", "aA:H", "D", "aA:H", "D", "aB:R", "D", "aA:R", "D", "aA:L", "D"]},
        # --- close requested RE-ENTRANTLY from dataReceived (request/response) ---------------------------------
        # the C15-2 witness: a half-closeable server still has reply "one" pending (writer registered) when request 2
        # arrives; ONE readiness event reports IN|OUT; dataReceived writes "two" and calls loseConnection; the doWrite
        # of the same event flushes everything and answers CONNECTION_DONE — that is connectionLost(ConnectionDone),
        # not a read-side half-close
        {"mode": "sim", "tpl": "rr", "kind": "L", "closer": "B", "expect": "orderly", "params": [64, 16, 32],
         "cfg": {"A": P, "B": {"half": True, "onrl": ["L"], "ondata": [[1, ["w6f6e65"]], [2, ["w74776f", "L"]]], "onwl": []}},
         "events": ["aA:w41", f"iA:o:{BIG}:{BIG}", f"iB:i:{BIG}:{BIG}", "aA:w42", f"iA:o:{BIG}:{BIG}", f"iB:io:{BIG}:{BIG}", "D"]},
        # the same with a bare loseConnection() (no last reply), HUP bit proposed too, closer on side A, peer half-closeable
        {"mode": "sim", "tpl": "rr", "kind": "L", "closer": "A", "expect": "orderly", "params": [64, 16, 32],
         "cfg": {"A": {"half": True, "onrl": ["L"], "ondata": [[2, ["w0102030405"]], [3, ["L"]]], "onwl": []}, "B": HL},
         "events": ["aB:w0a0b", f"iB:o:{BIG}:{BIG}", f"iA:i:{BIG}:{BIG}", "aB:w0c", f"iB:o:{BIG}:{BIG}", f"iA:ioh:{BIG}:{BIG}", "D"]},
        # plain closer (control), tiny kernel: the flush needs several events
        {"mode": "sim", "tpl": "rr", "kind": "L", "closer": "B", "expect": "orderly", "params": [2, 2, 3],
         "cfg": {"A": HL, "B": {"half": False, "ondata": [[1, ["w6f6e65"]], [3, ["q74,776f", "L"]]]}},
         "events": ["aA:w414243", "iA:o:2:2", "iB:io:1:1", "iB:io:5:5", "D"]},
        # half-close from dataReceived; writeConnectionLost resumes; the peer replies from readConnectionLost
        {"mode": "sim", "tpl": "rr", "kind": "H", "closer": "B", "expect": "orderly", "params": [64, 16, 32],
         "cfg": {"A": {"half": True, "onrl": ["w0a0b0c", "L"]},
                 "B": {"half": True, "onrl": ["L"], "ondata": [[1, ["w01"]], [2, ["w0203", "H"]]], "onwl": ["R"]}},
         "events": ["aA:w41", f"iA:o:{BIG}:{BIG}", f"iB:i:{BIG}:{BIG}", "aA:w42", f"iA:o:{BIG}:{BIG}", f"iB:io:{BIG}:{BIG}", "D"]},
        # abortConnection from dataReceived with OUT in the same event (doWrite is a no-op on an aborting transport)
        {"mode": "sim", "tpl": "rr", "kind": "X", "closer": "B", "expect": "abort", "params": [64, 16, 32],
         "cfg": {"A": P, "B": {"half": True, "onrl": ["L"], "ondata": [[1, ["w01"]], [2, ["w0203", "X"]]], "onwl": []}},
         "events": ["aA:w41", f"iA:o:{BIG}:{BIG}", f"iB:i:{BIG}:{BIG}", "aA:w42", f"iA:o:{BIG}:{BIG}", f"iB:io:{BIG}:{BIG}", "D"]},
        # siblings (safety only): loseConnection from writeConnectionLost (needs _writeDisconnected set BEFORE the
        # handler runs); loseWriteConnection + loseConnection from one dataReceived with IN|OUT; pause from dataReceived
        {"mode": "sim", "tpl": "soup", "expect": "any", "params": [64, 16, 32],
         "cfg": {"A": {"half": True, "onrl": ["L"], "onwl": ["w09", "L"]}, "B": P},
         "events": ["aA:w0102", "aA:H", f"iA:io:{BIG}:{BIG}", "D"]},
        {"mode": "sim", "tpl": "soup", "expect": "any", "params": [64, 16, 32],
         "cfg": {"A": P, "B": {"half": True, "onrl": [], "ondata": [[1, ["w01", "H", "L", "w02"]]], "onwl": ["H"]}},
         "events": ["aB:w07", "aA:w41", f"iA:o:{BIG}:{BIG}", f"iB:io:{BIG}:{BIG}", f"iB:io:{BIG}:{BIG}", "D"]},
        {"mode": "sim", "tpl": "soup", "expect": "any", "params": [2, 1, 4],
         "cfg": {"A": {"half": False, "ondata": [[1, ["P", "w0102"]], [2, ["R", "L"]]]}, "B": P},
         "events": ["aB:w414243", f"iB:o:{BIG}:{BIG}", f"iA:io:{BIG}:{BIG}", f"iA:io:{BIG}:{BIG}", "aA:R", f"iA:io:{BIG}:{BIG}", "D"]},
        # --- mutation audit M15 -------------------------------------------------------------------------------
        # writeSequence given a ONE-SHOT generator / a list iterator / a tuple / a deque (call n of a protocol passes
        # kind (seq + n) mod 5): the chunks must arrive whatever the container
        {"mode": "sim", "tpl": "lose", "closer": "A", "expect": "orderly", "params": [4, 3, 5],
         "cfg": {"A": {"half": False, "seq": 1}, "B": P},
         "events": ["aA:q0102,-,03", "aA:q04", "aA:q0506,07", "aA:q08,09", "aA:q0a", "iA:o:9:9", "aA:L", "D"]},
        # a send() that cannot take anything answers ENOBUFS (and is interrupted by EINTR first): nothing is lost,
        # the close stays clean
        {"mode": "sim", "tpl": "lose", "closer": "B", "expect": "orderly", "params": [2, 2, 1], "eno": 2,
         "cfg": {"A": P, "B": P},
         "events": ["aB:w0102030405", "iB:o:0:0", "iB:o:0:5", "iB:o:0:5", "aB:L", "iB:o:0:0", "D"]},
        # the select / asyncio dispatch (one condition per report): a half-closeable closer's CONNECTION_DONE comes out
        # of doWrite — it is connectionLost(ConnectionDone), not readConnectionLost; a half-closeable reader's EOF
        # comes out of doRead — it is readConnectionLost
        {"mode": "sim", "tpl": "lose", "closer": "A", "expect": "orderly", "params": [4, 3, 5], "disp": "select",
         "cfg": {"A": HL, "B": HL}, "events": ["aA:w010203", "iA:o:9:9", "aA:L", "iA:o:9:9", "iB:i:9:9", "iB:i:9:9", "S"]},
        {"mode": "sim", "tpl": "lose", "closer": "B", "expect": "orderly", "params": [4, 3, 5], "disp": "asyncio",
         "cfg": {"A": HL, "B": HL}, "events": ["aB:w010203", "aB:L", "iB:o:9:9", "iA:i:9:9", "S"]},
        {"mode": "sim", "tpl": "half", "closer": "A", "expect": "orderly", "params": [2, 2, 3], "disp": "select",
         "cfg": {"A": HL, "B": {"half": True, "onrl": ["w0a0b0c", "L"]}},
         "events": ["aA:q0102,-,03", "aA:H", "iA:o:1:1", "S"]},
        {"mode": "sim", "tpl": "rr", "kind": "L", "closer": "B", "expect": "orderly", "params": [64, 16, 32], "disp": "asyncio",
         "cfg": {"A": P, "B": {"half": True, "onrl": ["L"], "ondata": [[1, ["w6f6e65"]], [2, ["w74776f", "L"]]], "onwl": []}},
         "events": ["aA:w41", f"iA:o:{BIG}:{BIG}", f"iB:i:{BIG}:{BIG}", "aA:w42", f"iA:o:{BIG}:{BIG}", f"iB:i:{BIG}:{BIG}",
                    f"iB:o:{BIG}:{BIG}", "S"]},
        # a protocol callback raises an exception OUTSIDE the Exception hierarchy: readConnectionLost of the reader,
        # writeConnectionLost of the half-closer, dataReceived — connectionLost still comes exactly once to each side
        {"mode": "sim", "tpl": "raise", "site": "rl", "closer": "A", "expect": "once", "params": [4, 3, 5],
         "cfg": {"A": P, "B": {"half": True, "onrl": ["!B"]}}, "events": ["aA:w0102", "aA:L", "D"]},
        {"mode": "sim", "tpl": "raise", "site": "wl", "closer": "A", "expect": "once", "params": [4, 3, 5],
         "cfg": {"A": {"half": True, "onrl": ["L"], "onwl": ["!B"]}, "B": HL}, "events": ["aA:w0102", "aA:H", "D"]},
        {"mode": "sim", "tpl": "raise", "site": "data", "closer": "A", "expect": "once", "params": [4, 3, 5], "disp": "select",
         "cfg": {"A": P, "B": {"half": False, "ondata": [[1, ["!B"]]]}}, "events": ["aA:w0102", "aA:L", "S"]},
        {"mode": "sim", "tpl": "raise", "site": "data", "closer": "A", "expect": "once", "params": [4, 3, 5], "disp": "asyncio",
         "cfg": {"A": P, "B": {"half": False, "ondata": [[1, ["!E"]]]}}, "events": ["aA:w0102", "aA:L", "S"]},
        # megabytes through the default SEND_LIMIT / bufferSize, partial sends (oracle-only, digests)
        {"mode": "sim", "tpl": "lose", "big": True, "closer": "A", "expect": "orderly", "params": [131072, 65536, 200000],
         "cfg": {"A": P, "B": P},
         "events": ["aA:g7.3000000", f"iA:o:{BIG}:70000", f"iB:i:{BIG}:{BIG}", "aA:g3.131073", "aA:L", "D"]},
        {"mode": "real", "rr": True, "reactor": "poll", "closer": "server", "kind": "L",
         "steps": [["o", "g1.1"], ["d", 0.01], ["o", "g2.1"]],
         "cfgC": {"half": True, "onrl": ["L"], "ondata": [[1, ["g7.3"]], [2, ["g9.3", "L"]]]}, "cfgP": P, "pauses": [],
         "bufs": [4096, 16384], "timeout": 10},
        {"mode": "real", "rr": True, "reactor": "epoll", "closer": "server", "kind": "L",
         "steps": [["o", "g1.100"], ["o", "g2.4096"]],
         "cfgC": {"half": True, "onrl": ["L"], "ondata": [[100, ["g7.70000"]], [4196, ["L"]]]}, "cfgP": HL, "pauses": [],
         "bufs": [4096, 16384], "timeout": 10},
        # duplex pressure (M15 m14): 200000 bytes each way at the same time through 4 KiB / 16 KiB socket buffers
        {"mode": "real", "rr": True, "duplex": True, "reactor": "epoll", "closer": "server", "kind": "L",
         "steps": [["o", "g1.200000"]], "cfgC": {"half": False, "ondata": [[1, ["g7.200000"]], [200000, ["L"]]]},
         "cfgP": P, "pauses": [], "bufs": [4096, 16384], "timeout": 10},
        {"mode": "real", "rr": True, "duplex": True, "reactor": "poll", "closer": "client", "kind": "L",
         "steps": [["o", "g1.200000"]], "cfgC": {"half": True, "onrl": ["L"], "ondata": [[1, ["g7.200000"]], [200000, ["L"]]]},
         "cfgP": HL, "pauses": [], "bufs": [4096, 16384], "timeout": 10},
        {"mode": "real", "reactor": "select", "closer": "client", "kind": "L", "steps": [["o", "g1.70000"], ["o", "L"]],
         "cfgC": P, "cfgP": P, "pauses": [[1000, 0.005]], "bufs": [4096, 4096], "timeout": 10},
        {"mode": "real", "reactor": "epoll", "closer": "server", "kind": "H", "steps": [["o", "g9.200000"], ["o", "H"]],
         "cfgC": HL, "cfgP": {"half": True, "onrl": ["g5.70000", "L"]}, "pauses": [], "bufs": [2048, 16384], "timeout": 10},
        {"mode": "real", "reactor": "poll", "closer": "client", "kind": "X", "steps": [["o", "g1.262144"], ["d", 0.001], ["o", "X"]],
         "cfgC": P, "cfgP": P, "pauses": [], "bufs": [4096, 4096], "timeout": 10},
        {"mode": "real", "reactor": "asyncio", "closer": "client", "kind": "L", "steps": [["o", "q0102,-,03"], ["o", "L"]],
         "cfgC": P, "cfgP": HL, "pauses": [], "bufs": [4096, 4096], "timeout": 10},
    ]


def generate(rng, tier):
    n_sim = 1200 if tier == "quick" else 10000
    n_real = 3 if tier == "quick" else 14          # per reactor
    n_rr = 2 if tier == "quick" else 8             # per reactor: close issued from dataReceived
    for i in range(n_sim):
        yield sim_case(rng)
    for i in range(8 if tier == "quick" else 60):
        yield gen_big(rng)
    for r in REACTORS:
        for i in range(n_real):
            yield gen_real(rng, r, tier)
        for i in range(n_rr):
            yield gen_real_rr(rng, r, tier)
        if tier == "thorough":
            yield gen_real(rng, r, tier, big=True)


def shrink(c):
    if c["mode"] != "sim":
        steps = c["steps"]
        for i in range(len(steps) - 1):
            if c.get("rr") and steps[i][0] != "d":      # request/response: the thresholds are tied to the requests
                continue
            yield dict(c, steps=steps[:i] + steps[i + 1:])
        if c.get("pauses"):
            yield dict(c, pauses=[])
        return
    ev = c["events"]
    soup = c.get("tpl", "soup") == "soup"
    if c.get("tpl") == "rr":
        # the thresholds are tied to the requests: only readiness reports / timers may go
        for i in range(len(ev)):
            if ev[i][0] in "it":
                yield dict(c, events=ev[:i] + ev[i + 1:])
        return
    for i in range(len(ev)):
        # a template's expectation is only justified while its discipline stands: keep the close op, the
        # pause/resume pairs and the final drain; drop noise (readiness reports, timers) and writes
        if soup or ev[i][0] in "it" or (ev[i][0] == "a" and ev[i][3] in "wq"):
            yield dict(c, events=ev[:i] + ev[i + 1:])


def search(rng, tier, disagreeing):
    """property-directed: disciplined templates only (every one carries an exact expectation), many seeds,
    plus real runs of every close kind on every reactor."""
    for _ in range(3000 if tier == "quick" else 30000):
        c = gen_template(rng) if rng.random() < 0.5 else gen_rr(rng)
        y = rng.random()
        if y < 0.3:
            c = restyle(c, "select" if y < 0.15 else "asyncio")
        c["cfg"] = {k: dict(v, seq=rng.randrange(SEQ_KINDS)) for k, v in c["cfg"].items()}
        c["eno"] = rng.choice([0, 1, 2])
        yield c
    for r in REACTORS:
        for _ in range(4):
            yield gen_real(rng, r, tier)
        for _ in range(3):
            yield gen_real_rr(rng, r, tier)


if __name__ == "__main__":
    if len(sys.argv) == 3 and sys.argv[1] == "--worker":
        worker_main(sys.argv[2])
