"""C54 — the FTP server never touches paths outside its root.

Tie: a real `FTP` protocol (FTPFactory + Portal + BaseFTPRealm subclass, `FTPShell`/`FTPAnonymousShell`) on a
StringTransport, over a scratch tree `<tmp>/vroot` with prefix-sharing siblings `<tmp>/vroot-evil`, `<tmp>/vrootX`;
command lines are delivered through `dataReceived`; the data connection is a real `DTP` built by the real
`DTPFactory` on a MemoryReactorClock.  Per command line the harness records what the handlers asked of the world
(data connection state, login verdict, CWD verdict, `_isGlobbingExpression`, `os.listdir` result) — these are the
model's environment inputs — and compares session state, working directory, the results of `shell._path`, and every
other filesystem path touched, with the Lean model (TwistedModel/Fs/Ftp.lean).  `toSegments` is also tied directly.

Oracle (independent of the model): every path an audit hook / `os.stat` wrapper saw during a command is, by plain
segment comparison, inside the root of the shell that is logged in (stat-like probes may also hit a lexical
ancestor of the root: `os.makedirs(root)` looks at the parent); nothing outside the root changed on disk.
"""
import atexit
import json
import os
import posixpath
import shutil
import sys
import tempfile

from twisted.internet.main import installReactor
from twisted.internet.testing import MemoryReactorClock, StringTransport

_REACTOR = MemoryReactorClock()
try:
    installReactor(_REACTOR)          # before twisted.protocols.ftp binds `reactor.listenTCP`
except Exception:                      # a reactor is already installed (another module imported one)
    from twisted.internet import reactor as _r
    _REACTOR = _r

import twisted.python.filepath as _fpmod
from twisted.cred import checkers, portal
from twisted.internet.error import ConnectionDone
from twisted.protocols import ftp
from twisted.python.failure import Failure
from twisted.python.filepath import FilePath, InsecurePath

HEADLINE = "TwistedProps.C54.ftp_paths_inside_root"
RULE = ("sessions: login (user / anonymous / refused / re-login) then 1..12 command lines drawn from CWD CDUP PWD LIST NLST "
        "RETR STOR SIZE MDTM MKD RMD DELE RNFR RNTO USER PASS QUIT PASV + junk, arguments built from a hostile piece "
        "alphabet ('..', '.', '', NUL, backslash, CR, LF, 0xff, ß, globs, list flags, names of the prefix-sharing siblings, "
        "real names) joined by '/', absolute/relative/double-slash/trailing-slash; root as bytes- or text-mode FilePath; "
        "anonymous root = the user root or a sub-directory of it; plus direct toSegments calls on the same alphabet; "
        "distinct = set of (command, #targets, #children, cwd changed, raised) over the session")
ASSUMES = [
    "POSIX only (os.sep == '/'); filesystem encoding utf-8",
    "no symbolic links below the root (excluded by the statement)",
    "command lines are complete lines as LineReceiver delivers them (no CR LF inside, shorter than MAX_LENGTH = 16384)",
    "os.listdir returns names without '/' (what a directory can contain)",
    "the roots are FilePath objects (FilePath.path is absolute and normalised: the class invariant proved in C26)",
    "the environment inputs of the model (data-connection state, portal verdict, shell.access verdict, "
    "_isGlobbingExpression verdict, os.listdir result) are arbitrary: the theorems quantify over all of them",
    "stat-like probes of a lexical ancestor of the root (os.makedirs(root) looks at root's parent) are not a touch "
    "outside the root: the kernel traverses the ancestors for every access anyway",
]
TRUSTED = ["harness/py2lean.py (translator: ftp.toSegments is regenerated into lean/Generated/Ftp.lean on every run — the "
           "for-loop over path.split('/') as List.foldlM of the generated loop body, str.split as the translator's fixed pySplit, "
           "text as latin-1 code points; translator-regenerated kernel proved equal to the model: TwistedProps.C54.gen_segStep, "
           "gen_toSegments, gen_toSegments_plain)",
           "reads of Python source files by linecache while twisted.python.log formats a logged traceback are not recorded",
           "sys.addaudithook events 'open' and 'os.*' plus wrappers around os.stat/os.lstat/os.access "
           "(and twisted.python.filepath.stat) as the record of what the server touched",
           "TwistedModel/Fs/Path.lean + TwistedProps/C26 (posixpath/FilePath model and containment theorems, tied by ./check C26)"]
MANIFEST = {
    "text": "Lean theorems (TwistedProps/C54.lean): toSegments returns only plain segments (no '', '.', '..', '/', NUL) from a plain "
            "working directory; for every session (any command lines, any environment answers) the working directory stays plain, "
            "shell._path never raises InsecurePath and returns exactly root + the utf-8 encoded segments, and every path handed to the "
            "filesystem (targets and listed children) is normalised and has the root's segment list as a prefix; built on the "
            "posixpath/FilePath model and theorems of C26.  Model tied to ftp.py by differential runs of real FTP sessions "
            "(StringTransport, real DTP on a memory reactor, scratch root with prefix-sharing siblings) and of toSegments; "
            "toSegments itself is regenerated from ftp.py by the translator on every run (loop as a fold) and proved equal to the "
            "model's toSegments for every cwd and path (gen_toSegments).",
    "note": "trusts Lean kernel, the hand-written models (Fs/Ftp.lean, Fs/Path.lean; differentially tied), CPython posixpath/str semantics, "
            "audit-hook observation",
    "technique": "Lean 4 proof (loop invariant of toSegments + session invariant by induction over the command list, on top of the C26 "
                 "normpath/child lemmas) + differential tie + audit-hook oracle + translator-regenerated kernel proved equal "
                 "to the model",
    "design_ref": "DESIGN.md §7.5 C54",
}


def hx(b):
    return b.hex() if b else "-"


def hxlist(lst):
    return ",".join(hx(x) for x in lst) if lst else "~"


def hxset(lst):
    return ",".join(sorted({hx(x) for x in lst})) if lst else "~"


def L1(s):
    return s.encode("latin-1")


# ---------------------------------------------------------------------------------------------
# observation: audit hook + wrappers for the calls that have no audit event

_events = []        # (kind 'act'|'probe', event name, path bytes)
_active = [False]
_listdirs = []      # results of os.listdir during the active window
_paths = []         # results of shell._path: bytes or None (InsecurePath)
_globs = []

PROBES = {"os.stat", "os.lstat", "os.access"}
IGNORED_EVENTS = {"os.putenv", "os.unsetenv", "os.system", "os.fork", "os.forkpty", "os.kill", "os.killpg",
                  "os.add_dll_directory", "os.getxattr", "os.listxattr"}


def _rec(ev, p):
    if isinstance(p, (str, bytes, os.PathLike)):
        try:
            _events.append(("probe" if ev in PROBES else "act", ev, os.fsencode(p)))
        except Exception:
            _events.append(("act", ev, repr(p).encode()))


def _hook(ev, args):
    if not _active[0]:
        return
    if ev == "open" or (ev.startswith("os.") and ev not in IGNORED_EVENTS) or ev.startswith("shutil."):
        if ev in ("os.rename", "os.link", "os.symlink", "os.replace") or ev.startswith("shutil."):
            for a in args[:2]:
                _rec(ev, a)
        elif args:
            _rec(ev, args[0])


sys.addaudithook(_hook)


def _wrap(mod, name, evname):
    orig = getattr(mod, name)

    def w(p, *a, **k):
        if _active[0]:
            _rec(evname, p)
        return orig(p, *a, **k)
    w.__name__ = name
    setattr(mod, name, w)
    return orig


_wrap(os, "stat", "os.stat")
_wrap(os, "lstat", "os.lstat")
_wrap(os, "access", "os.access")
_fpmod.stat = os.stat                      # filepath.py did `from os import stat`



def _suspend(mod, name):
    """calls of mod.name are not the server's: recording is suspended while they run"""
    orig = getattr(mod, name)

    def w(*a, **k):
        was, _active[0] = _active[0], False
        try:
            return orig(*a, **k)
        finally:
            _active[0] = was
    w.__name__ = name
    setattr(mod, name, w)


import linecache  # noqa: E402
# twisted.python.log formats the traceback of every logged Failure (textFromEventDict), which makes linecache
# stat and read Python source files: the logging system's reads, not the FTP server's
_suspend(linecache, "updatecache")
_suspend(linecache, "checkcache")

_orig_listdir = _fpmod.listdir


def _listdir(p):
    r = _orig_listdir(p)
    if _active[0]:
        _listdirs.append([os.fsencode(x) for x in r])
    return r


_fpmod.listdir = _listdir                  # (the audit hook still sees os.listdir)

_orig_path = ftp.FTPAnonymousShell._path


def _path(self, path):
    try:
        r = _orig_path(self, path)
    except InsecurePath:
        if _active[0]:
            _paths.append(None)
        raise
    if _active[0]:
        _paths.append(os.fsencode(r.path))
    return r


ftp.FTPAnonymousShell._path = _path

_orig_glob = ftp._isGlobbingExpression


def _glob(segments=None):
    r = _orig_glob(segments)
    if _active[0]:
        _globs.append(bool(r))
    return r


ftp._isGlobbingExpression = _glob

_quiet = [False]


def _quiet_logging():
    if not _quiet[0]:
        _quiet[0] = True
        from twisted.logger import globalLogBeginner
        try:
            globalLogBeginner.beginLoggingTo([lambda e: None], redirectStandardIO=False, discardBuffer=True)
        except Exception:
            pass


# ---------------------------------------------------------------------------------------------
# scratch tree (fresh for every session, below one per-process base directory)

_BASE = []
FILES = ["vroot/a.txt", "vroot/sp ace", "vroot/é.txt", "vroot/sub/b.txt", "vroot/sub/deep/c.txt",
         "vroot/vroot-evil/inner.txt", "vroot/sub-evil/x.txt", "vroot-evil/secret.txt", "vrootX/secret.txt", "secret.txt",
         "a.txt", "sub/b.txt"]
DIRS = ["vroot/empty", "vroot/sub/deep/deeper", "empty"]


def base():
    if not _BASE:
        b = os.path.realpath(tempfile.mkdtemp(prefix="C54-"))
        atexit.register(shutil.rmtree, b, True)
        _BASE.append(b)
    return _BASE[0]


def build_tree():
    b = base()
    for n in os.listdir(b):
        p = os.path.join(b, n)
        shutil.rmtree(p) if os.path.isdir(p) else os.remove(p)
    for d in DIRS:
        os.makedirs(os.path.join(b, d), exist_ok=True)
    for f in FILES:
        p = os.path.join(b, f)
        os.makedirs(os.path.dirname(p), exist_ok=True)
        with open(p, "w") as fh:
            fh.write("content of " + f)


def outside_snapshot():
    """everything below the base that is not below base/vroot: names, kinds, contents"""
    b = base()
    snap = []
    for dp, dn, fn in os.walk(b):
        if dp == b:
            dn[:] = sorted(d for d in dn if d != "vroot")
            snap.append(("D", "vroot", os.path.isdir(os.path.join(b, "vroot")) or None))
        for d in sorted(dn):
            snap.append(("D", os.path.relpath(os.path.join(dp, d), b), True))
        for f in sorted(fn):
            p = os.path.join(dp, f)
            with open(p, "rb") as fh:
                snap.append(("F", os.path.relpath(p, b), fh.read()))
    return sorted(snap, key=repr)


class Realm(ftp.BaseFTPRealm):
    def __init__(self, anonymousRoot, home):
        ftp.BaseFTPRealm.__init__(self, anonymousRoot)
        self.home = FilePath(home)

    def getHomeDirectory(self, avatarId):
        return self.home


def roots(case):
    b = base()
    user = os.path.join(b, "vroot")
    anon = user if case.get("anon", "same") == "same" else os.path.join(user, "sub")
    if case.get("mode", "text") == "bytes":
        user, anon = os.fsencode(user), os.fsencode(anon)
    return anon, user


# ---------------------------------------------------------------------------------------------
# running one session on the real code

PASV_WORDS = {"PASV", "EPSV"}


def session_lines(case):
    out = []
    for ln in case["lines"]:
        connect = False
        if ln == "@pasv":
            ln, connect = "PASV", True
        for piece in ln.split("\r\n"):                 # LineReceiver would split here
            out.append((piece[:16000], connect))
    return out


def _segs(p):
    return [s for s in p.split(b"/") if s]


def _pump(proto):
    _REACTOR.advance(0)
    d = proto.dtpInstance
    if d is not None and d.transport is not None:
        tr = d.transport
        n = 0
        while tr.producer is not None and n < 1000:
            try:
                tr.producer.resumeProducing()
            except Exception:                 # what a real transport does: drop the connection, stop the producer
                prod, tr.producer = tr.producer, None
                prod.stopProducing()
            n += 1
        # exceptions escaping a protocol callback: a real reactor logs them and drops the connection
        # (TYPE A + STOR raises TypeError in ASCIIConsumerWrapper.write on Python 3: not a path matter)
        if d._cons is not None:
            try:
                d.dataReceived(b"uploaded")
            except Exception:
                pass
            try:
                d.connectionLost(Failure(ConnectionDone()))
            except Exception:
                pass
        elif tr.disconnecting and d.isConnected:
            try:
                d.connectionLost(Failure(ConnectionDone()))
            except Exception:
                pass
    _REACTOR.advance(0)


def _connect_dtp(proto):
    f = proto.dtpFactory
    if f is not None and f._state is f._IN_PROGRESS:
        d = f.buildProtocol(None)
        if d is not None:
            d.makeConnection(StringTransport())


_cache = {}


def run_session(case):
    key = json.dumps(case, sort_keys=True)
    if key in _cache:
        return _cache[key]
    _quiet_logging()
    build_tree()
    before = outside_snapshot()
    anon, user = roots(case)
    realm = Realm(anon, user)
    p = portal.Portal(realm)
    p.registerChecker(checkers.AllowAnonymousAccess())
    db = checkers.InMemoryUsernamePasswordDatabaseDontUse()
    db.addUser("user", "pw")
    p.registerChecker(db)
    factory = ftp.FTPFactory(p)
    wrapper = factory.buildProtocol(None)
    proto = wrapper.wrappedProtocol
    tr = StringTransport()
    wrapper.makeConnection(tr)
    steps = []
    try:
        for line, connect in session_lines(case):
            raw = L1(line)
            d = proto.dtpInstance
            env = {"dtpNone": d is None, "dtpConn": bool(d is not None and d.isConnected)}
            tr.clear()
            del _events[:], _listdirs[:], _paths[:], _globs[:]
            cwd0 = list(getattr(proto, "workingDirectory", []))
            auth0 = "UIAR"[proto.state]
            _active[0] = True
            try:
                wrapper.dataReceived(raw + b"\r\n")
                _pump(proto)
                word = raw.split(b" ", 1)[0].decode("latin-1").upper()
                if connect or word in PASV_WORDS:
                    _connect_dtp(proto)
                    _pump(proto)
                if proto.paused and not tr.disconnecting:
                    _REACTOR.advance(proto.dtpTimeout + 1)     # let a pending data-connection attempt time out
                    _pump(proto)
            finally:
                _active[0] = False
            if proto.paused and not tr.disconnecting:
                raise RuntimeError("command still pending: " + repr(raw))
            replies = [r[:3] for r in tr.value().decode("latin-1").split("\r\n") if r]
            env["loginOk"] = "230" in replies
            env["granted"] = "250" in replies
            env["glob"] = bool(_globs and _globs[-1])
            env["entries"] = list(_listdirs[0]) if _listdirs else None
            shell = proto.shell
            kind = "u" if type(shell) is ftp.FTPShell else "a"
            root = os.fsencode(shell.filesystemRoot.path) if shell is not None else None
            targets = [x for x in _paths if x is not None]
            tsegs = [_segs(t) for t in targets]
            extra = []
            for _, ev, path in _events:
                ps = _segs(path)
                if not any(ps == ts[:len(ps)] for ts in tsegs):
                    extra.append(path)
            steps.append({
                "line": raw, "env": env, "replies": replies,
                "auth": "UIAR"[proto.state], "auth0": auth0, "shell": kind, "gone": bool(tr.disconnecting),
                "cwd": [L1(s) for s in getattr(proto, "workingDirectory", [])], "cwd0": cwd0,
                "targets": targets, "extra": extra, "insecure": any(x is None for x in _paths),
                "root": root, "events": list(_events),
            })
    finally:
        _active[0] = False
        try:
            if proto.transport is not None:
                wrapper.connectionLost(Failure(ConnectionDone()))
        except Exception:
            pass
        for dc in _REACTOR.getDelayedCalls():
            if dc.active():
                dc.cancel()
    res = {"steps": steps, "outside_changed": outside_snapshot() != before}
    if len(_cache) > 8:
        _cache.clear()
    _cache[key] = res
    return res


# ---------------------------------------------------------------------------------------------
# interface

def model_line(c):
    if c["op"] == "seg":
        return "seg " + hxlist([L1(s) for s in c["cwd"]]) + " " + hx(L1(c["path"]))
    r = run_session(c)
    anon, user = roots(c)
    steps = []
    for st in r["steps"]:
        e = st["env"]
        bits = "".join("1" if e[k] else "0" for k in ("dtpNone", "dtpConn", "loginOk", "granted", "glob"))
        ent = "!" if e["entries"] is None else hxlist(e["entries"])
        steps.append(f"{hx(st['line'])}/{bits}/{ent}")
    return " ".join(["run", hx(os.fsencode(os.getcwd())), hx(os.fsencode(anon)), hx(os.fsencode(user)), "1",
                     hx(b"anonymous")] + steps)


def run_impl(c):
    if c["op"] == "seg":
        try:
            return "ok " + hxlist([L1(s) for s in ftp.toSegments(list(c["cwd"]), c["path"])])
        except ftp.InvalidPath:
            return "!raised InvalidPath"
    r = run_session(c)
    recs = []
    for st in r["steps"]:
        recs.append(f"{st['auth']}{st['shell']}{'1' if st['gone'] else '0'};{hxlist(st['cwd'])};{hxset(st['targets'])};"
                    f"{hxset(st['extra'])};{'1' if st['insecure'] else '0'}")
    return "|".join(recs) if recs else "~"


def _plain(s):
    return s not in ("", ".", "..") and "/" not in s and "\0" not in s


def oracle(c, out):
    if c["op"] == "seg":
        if out.startswith("!"):
            return None
        segs = ftp.toSegments(list(c["cwd"]), c["path"])
        bad = [s for s in segs if not _plain(s)]
        if bad and all(_plain(s) for s in c["cwd"]):
            return {"key": "segment-not-plain", "detail": f"toSegments({c['cwd']!r}, {c['path']!r}) = {segs!r}"}
        if all(_plain(s) for s in c["cwd"]):
            full = c["path"] if c["path"].startswith("/") else "/" + "/".join(list(c["cwd"]) + [c["path"]])
            exp = [s for s in posixpath.normpath(full).split("/") if s]
            if segs != exp:
                return {"key": "segments-differ-from-normpath", "detail": f"toSegments({c['cwd']!r}, {c['path']!r}) = {segs!r}, normpath gives {exp!r}"}
        return None
    if out.startswith("!"):
        return {"key": "session-raised", "detail": out}
    r = run_session(c)
    for i, st in enumerate(r["steps"]):
        root = st["root"]
        for kind, ev, path in st["events"]:
            where = f"step {i} {st['line']!r}: {ev}({path!r}) root={root!r}"
            if root is None or st["auth0"] not in "AR":
                return {"key": "touch-without-shell", "detail": where}
            raw = path.split(b"/")
            if not path.startswith(b"/") or b"." in raw or b".." in raw or b"\0" in path:
                return {"key": "non-plain-path-to-os", "detail": where}
            ps, rs = _segs(path), _segs(root)
            if ps[:len(rs)] == rs:
                continue
            if kind == "probe" and ps == rs[:len(ps)]:
                continue                              # a lexical ancestor of the root (os.makedirs(root))
            return {"key": "probe-outside-root" if kind == "probe" else "act-outside-root", "detail": where}
        if not all(_plain(s.decode("latin-1")) for s in st["cwd"]):
            return {"key": "cwd-not-plain", "detail": f"step {i} {st['line']!r}: cwd={st['cwd']!r}"}
        if st["insecure"]:
            return {"key": "insecure-path-reached-shell", "detail": f"step {i} {st['line']!r}: shell._path raised InsecurePath"}
    if r["outside_changed"]:
        return {"key": "outside-root-modified", "detail": "files or directories outside <tmp>/vroot differ after the session"}
    return None


def tag(c, out):
    if c["op"] == "seg":
        p = c["path"]
        feats = "".join(ch for ch, t in (("A", p.startswith("/")), ("D", ".." in p.split("/")), ("d", "." in p.split("/")),
                                         ("E", "" in p.split("/")[1:]), ("0", "\0" in p), ("C", bool(c["cwd"]))) if t)
        return f"seg:{feats}:{'raise' if out.startswith('!') else 'ok'}"
    if out.startswith("!"):
        return "session:" + out
    r = run_session(c)
    sig = set()
    for st in r["steps"]:
        word = st["line"].split(b" ", 1)[0].decode("latin-1").upper()[:5]
        if not word.isalpha():
            word = "?"
        sig.add(f"{word}{len(set(st['targets']))}{min(len(set(st['extra'])), 2)}{'c' if st['cwd0'] != [s.decode('latin-1') for s in st['cwd']] else ''}")
    return c.get("mode", "text")[0] + c.get("anon", "same")[0] + ":" + ",".join(sorted(sig))


# ---------------------------------------------------------------------------------------------
# generators

NAMES = ["sub", "deep", "deeper", "a.txt", "b.txt", "c.txt", "empty", "sp ace", "é.txt", "vroot-evil", "sub-evil",
         "inner.txt", "new", "n1", "x.txt"]
HOSTILE = ["..", ".", "", "...", "..\0", "\0", "a\0b", "../vroot-evil", "vroot-evil", "-evil", "vroot", "secret.txt", "*", "*.txt",
           "[a]", "?", "a?txt", "\\", "..\\", "\\..", " ", "~", "\r", "\n", "\xff", "\xdf", "%2e%2e", "-l", "-a", "-la", "-AL",
           ". .", ".. ", " ..", "..;", "µ", "tmp", "etc", "passwd"]
CMDS_PATH = ["CWD", "LIST", "NLST", "RETR", "STOR", "SIZE", "MDTM", "MKD", "RMD", "DELE"]


def gen_path(rng, hostile=0.5):
    n = rng.choice([0, 1, 1, 2, 2, 3, 4, 6])
    pieces = [rng.choice(HOSTILE) if rng.random() < hostile else rng.choice(NAMES) for _ in range(n)]
    p = "/".join(pieces)
    r = rng.random()
    if r < 0.3:
        p = "/" + p
    elif r < 0.36:
        p = "//" + p
    elif r < 0.4:
        p = "/../" + p
    if rng.random() < 0.12:
        p += "/"
    return p


def _case_word(rng, w):
    r = rng.random()
    if r < 0.7:
        return w
    if r < 0.85:
        return w.lower()
    return "".join(ch.lower() if rng.random() < 0.5 else ch for ch in w)


def gen_session(rng):
    lines = []
    r = rng.random()
    if r < 0.6:
        lines += ["USER user", "PASS pw"]
    elif r < 0.85:
        lines += ["USER anonymous", "PASS a@b"]
    elif r < 0.9:
        lines += ["USER user", "PASS wrong"]
    elif r < 0.95:
        lines += ["USER user", "PA\xdf pw"]
    else:
        lines += [rng.choice(["CWD sub", "PASS pw", "USER", "USER ", "RNTO x"])]
    hostile = rng.choice([0.2, 0.5, 0.8])
    for _ in range(rng.randint(1, 12)):
        r = rng.random()
        if r < 0.62:
            cmd = rng.choice(CMDS_PATH)
            if cmd in ("LIST", "NLST", "RETR", "STOR") and rng.random() < 0.85:
                lines.append("@pasv")
            if cmd == "LIST" and rng.random() < 0.15:
                lines.append(_case_word(rng, cmd))
            elif rng.random() < 0.04:
                lines.append(_case_word(rng, cmd))
            else:
                lines.append(_case_word(rng, cmd) + " " + gen_path(rng, hostile))
        elif r < 0.7:
            lines.append(_case_word(rng, "CDUP") + (" x" if rng.random() < 0.1 else ""))
        elif r < 0.8:
            lines.append("RNFR " + gen_path(rng, hostile))
            if rng.random() < 0.2:
                lines.append(rng.choice(["CWD /", "NOOP", "RNTO", "RNFR a.txt"]))
            lines.append("RNTO " + gen_path(rng, hostile))
        elif r < 0.84:
            lines.append("PWD")
        elif r < 0.88:
            lines += rng.choice([["USER anonymous", "PASS x"], ["USER user", "PASS pw"], ["USER user", "PASS no"], ["USER x"]])
        elif r < 0.9:
            lines.append(rng.choice(["QUIT", "QUIT now", "FEAT", "quit"]))
        elif r < 0.93:
            lines.append("@pasv")
        else:
            lines.append(rng.choice(["NOOP", "TYPE I", "TYPE A", "SYST", "", " ", "CWD", "XYZ /..", "RNTO ../x", "PASS pw", "MODE S",
                                     "STRU F", "OPTS x", "SITE ..", "cwd", "\xdfIZE a.txt", "LI\xdfT"]))
    return {"op": "session", "mode": rng.choice(["text", "bytes"]), "anon": rng.choice(["same", "sub"]), "lines": lines}


def gen_seg(rng):
    cwd = [rng.choice(NAMES) for _ in range(rng.choice([0, 0, 1, 2, 3]))]
    if rng.random() < 0.05:
        cwd.append(rng.choice(["..", "", ".", "a/b"]))
    return {"op": "seg", "cwd": cwd, "path": gen_path(rng, rng.choice([0.3, 0.7, 1.0]))}


def S(lines, mode="text", anon="same"):
    return {"op": "session", "mode": mode, "anon": anon, "lines": lines}


def corpus():
    U = ["USER user", "PASS pw"]
    A = ["USER anonymous", "PASS x@y"]
    return [
        {"op": "seg", "cwd": [], "path": ".."},
        {"op": "seg", "cwd": ["a"], "path": "../.."},
        {"op": "seg", "cwd": ["a", "b"], "path": "../x//./y/"},
        {"op": "seg", "cwd": ["a"], "path": "/../x"},
        {"op": "seg", "cwd": ["a"], "path": "x\0y"},
        {"op": "seg", "cwd": ["a"], "path": "//b/c/../.."},
        S(U + ["CWD ../vroot-evil", "CWD /../vroot-evil", "CWD sub/../../vroot-evil", "@pasv", "RETR ../vroot-evil/secret.txt",
               "@pasv", "RETR /../secret.txt", "SIZE ../../secret.txt"]),
        S(U + ["CWD sub", "CWD deep", "CDUP", "CDUP", "CDUP", "PWD", "CWD sub/deep/../..", "@pasv", "LIST", "@pasv", "LIST sub",
               "@pasv", "NLST *.txt", "@pasv", "NLST sub/b.txt", "@pasv", "NLST"]),
        S(U + ["MKD /", "MKD n1/n2/n3", "RMD n1/n2/n3", "MKD ../x", "MKD a.txt/x/y", "DELE a.txt", "DELE ../secret.txt", "RMD ..",
               "RNFR sub/b.txt", "RNTO ../c.txt", "RNFR sub", "RNTO /../vroot-evil/sub", "RNFR ../secret.txt", "RNTO stolen"], "bytes"),
        S(U + ["@pasv", "STOR new.txt", "@pasv", "STOR ../evil.txt", "@pasv", "STOR sub/../../vroot-evil/x", "@pasv", "STOR a\0b",
               "@pasv", "RETR a.txt", "RETR a.txt", "STOR q", "LIST"], "bytes"),
        S(A + ["CWD ..", "@pasv", "LIST", "@pasv", "RETR b.txt", "@pasv", "STOR up", "MKD d", "RMD deep", "DELE b.txt", "RNFR b.txt",
               "RNTO c.txt", "SIZE b.txt", "MDTM deep", "CWD ../sub-evil", "SIZE ../sub-evil/x.txt", "SIZE ../a.txt"], "text", "sub"),
        S(A + ["SIZE ../a.txt", "USER user", "PASS pw", "SIZE ../a.txt", "SIZE a.txt", "USER user", "PASS bad", "SIZE a.txt"], "bytes", "sub"),
        S(U + ["RMD sub/deep/deeper", "RMD /", "CWD /", "MKD a", "@pasv", "LIST -la", "@pasv", "LIST -L", "QUIT", "DELE a.txt"]),
        S(["DELE a.txt", "USER user", "DELE a.txt", "PA\xdf pw", "SIZE a.txt", "pa\xdf pw", "RNTO x", "RNFR a.txt", "FEAT", "CWD sub",
           "RNTO", "RNTO sub/z.txt", "SIZE sub/z.txt"]),
        S(U + ["TYPE A", "@pasv", "STOR n.txt", "STOR ../m.txt", "SIZE n.txt", "@pasv", "RETR a.txt", "TYPE I", "@pasv", "STOR k.txt",
               "SIZE a.txt"], "bytes"),
        S(U + ["SIZE \xe9.txt", "MKD \xff\xdf", "CWD \xff\xdf", "MKD a\rb", "CWD sp ace", "CWD /sp ace", "SIZE /sp ace", "CWD a\\..\\..", "MKD ..\\x"]),
    ]


def generate(rng, tier):
    ns, nq = (700, 2500) if tier == "quick" else (9000, 40000)
    for _ in range(nq):
        yield gen_seg(rng)
    for _ in range(ns):
        yield gen_session(rng)


def search(rng, tier, disagreeing):
    """exhaustive short paths over the pieces that matter, for every path command, from three working directories"""
    pieces = ["..", ".", "", "sub", "vroot-evil", "a.txt", "\0", "secret.txt"]
    paths = set()
    for a in pieces:
        for b in pieces:
            for lead in ("", "/"):
                paths.add(lead + a + "/" + b)
                paths.add(lead + a)
            for c in ("..", "vroot-evil", "secret.txt"):
                paths.add(a + "/" + b + "/" + c)
    paths = sorted(paths)
    for p in paths:
        for cwd in ([], ["sub"], ["sub", "deep"]):
            yield {"op": "seg", "cwd": cwd, "path": p}
    for mode in ("text", "bytes"):
        for cd in ("CWD /", "CWD sub", "CWD sub/deep"):
            for i in range(0, len(paths), 6):
                lines = ["USER user", "PASS pw", cd]
                for p in paths[i:i + 6]:
                    lines += ["CWD " + p, "SIZE " + p, "@pasv", "RETR " + p, "@pasv", "STOR " + p, "@pasv", "LIST " + p,
                              "@pasv", "NLST " + p, "MKD " + p, "RNFR " + p, "RNTO " + p, "DELE " + p, "RMD " + p]
                yield S(lines, mode)
    for c in disagreeing[:20]:
        yield c


def shrink(c):
    if c["op"] == "seg":
        p = c["path"].split("/")
        for i in range(len(p)):
            yield dict(c, path="/".join(p[:i] + p[i + 1:]))
        for i in range(len(c["cwd"])):
            yield dict(c, cwd=c["cwd"][:i] + c["cwd"][i + 1:])
        return
    lines = c["lines"]
    for i in range(len(lines)):
        yield dict(c, lines=lines[:i] + lines[i + 1:])
    for i, ln in enumerate(lines):
        if " " in ln:
            w, a = ln.split(" ", 1)
            parts = a.split("/")
            for j in range(len(parts)):
                if len(parts) > 1:
                    yield dict(c, lines=lines[:i] + [w + " " + "/".join(parts[:j] + parts[j + 1:])] + lines[i + 1:])
