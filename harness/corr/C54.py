"""C54 — the FTP server never touches paths outside its root.

Tie: a real `FTP` protocol (FTPFactory + Portal + BaseFTPRealm subclass, `FTPShell`/`FTPAnonymousShell`) on a
StringTransport, over a scratch tree `<tmp>/vroot` with prefix-sharing siblings `<tmp>/vroot-evil`, `<tmp>/vrootX`;
command lines are delivered through `dataReceived`; the data connection is a real `DTP` built by the real
`DTPFactory` on a MemoryReactorClock.  Per command line the harness records what the handlers asked of the world
(data connection state, login verdict, CWD verdict, `_isGlobbingExpression`, `os.listdir` result) — these are the
model's environment inputs — and compares session state, working directory, the results of `shell._path`, and every
other filesystem path touched, with the Lean model (TwistedModel/Fs/Ftp.lean).  `toSegments` is also tied directly.

Oracle (independent of the model): every path an audit hook / `os.stat` wrapper saw during a command is, by plain
segment comparison, inside the root of the shell that is logged in (stat-like probes may also hit a lexical
ancestor of the root: `os.makedirs(root)` looks at the parent); nothing outside the root changed on disk.
"""
import atexit
import json
import os
import posixpath
import shutil
import sys
import tempfile

from twisted.internet.main import installReactor
from twisted.internet.testing import MemoryReactorClock, StringTransport

_REACTOR = MemoryReactorClock()
try:
    installReactor(_REACTOR)          # before twisted.protocols.ftp binds `reactor.listenTCP`
except Exception:                      # a reactor is already installed (another module imported one)
    from twisted.internet import reactor as _r
    _REACTOR = _r

import twisted.python.filepath as _fpmod
from twisted.cred import checkers, portal
from twisted.internet.error import ConnectionDone
from twisted.protocols import ftp
from twisted.python.failure import Failure
from twisted.python.filepath import FilePath, InsecurePath

HEADLINE = "TwistedProps.C54.ftp_paths_inside_root"
RULE = ("sessions: login (user / anonymous / refused / re-login) then 1..12 command lines drawn from CWD CDUP PWD LIST NLST "
        "RETR STOR SIZE MDTM MKD RMD DELE RNFR RNTO USER PASS QUIT PASV + junk, arguments built from a hostile piece "
        "alphabet ('..', '.', '', NUL, backslash, CR, LF, 0xff, ß, globs, list flags, names of the prefix-sharing siblings, "
        "real names) joined by '/', absolute/relative/double-slash/trailing-slash; ~17-29% of the path arguments are DECORATED: "
        "names going down + 1..3 dot-dot look-alikes ('..', '.', '', '...' with 1..3 junk items inserted anywhere: every C0/C1 control, "
        "DEL, NBSP, soft hyphen, lone UTF-8 lead/continuation bytes, or exactly one of ~60 suffix / prefix tokens (;type=i ;1 ::$DATA ~1 %00 "
        "blanks file: C: …, 8% followed by LF), %2e %2f %5c %00 %252e, backslash, ';type=i', '::$DATA', BOM, ZWSP; "
        "or an encoded '..': %2e%2E, overlong C0 AE, fullwidth / one-dot-leader UTF-8 bytes) + a name outside or inside the root, "
        "joined by '/' or by a separator look-alike (%2f, backslash, %5c, U+2215, fullwidth solidus, overlong C0 AF, ':'); 3% are LONG "
        "(7..257 segments around powers of two with '..' runs ending just below / at / above the root, segments of 254..4096 "
        "characters); root as bytes- or text-mode FilePath; user root = <tmp>/vroot or (30% of the sessions) a small directory inside "
        "it (empty / empty and deep / one file + one directory) that the session empties, removes (RMD /), recreates and goes on "
        "using; anonymous root = the user root or <tmp>/vroot/sub (inside, around, or disjoint from the user root); 6% of the sessions "
        "repeat the same commands under two or three logins in one connection; plus direct toSegments calls on the same "
        "alphabet (8% long, up to 1000 segments); "
        "distinct = set of (command, #targets, #children, cwd changed, decorated/long argument, raised) over the session + mode, roots, re-login")
ASSUMES = [
    "POSIX only (os.sep == '/'); filesystem encoding utf-8",
    "no symbolic links below the root (excluded by the statement)",
    "command lines are complete lines as LineReceiver delivers them (no CR LF inside, shorter than MAX_LENGTH = 16384)",
    "os.listdir returns names without '/' (what a directory can contain)",
    "the roots are FilePath objects (FilePath.path is absolute and normalised: the class invariant proved in C26)",
    "the environment inputs of the model (data-connection state, portal verdict, shell.access verdict, "
    "_isGlobbingExpression verdict, os.listdir result) are arbitrary: the theorems quantify over all of them",
    "stat-like probes of a lexical ancestor of the root (os.makedirs(root) looks at root's parent) are not a touch "
    "outside the root: the kernel traverses the ancestors for every access anyway",
    "the root directory itself is not outside the root: RMD / on an empty root removes it (and MKD / recreates it); "
    "the snapshot of the scratch tree is compared outside the roots of the shells that were logged in",
    "all cases run in ONE process against the same scratch location, in sequence: state kept on a class or module "
    "(rather than on the shell / protocol instance) carries over from one session to the next and is judged there",
]
TRUSTED = ["harness/py2lean.py (translator: ftp.toSegments is regenerated into lean/Generated/Ftp.lean on every run — the "
           "for-loop over path.split('/') as List.foldlM of the generated loop body, str.split as the translator's fixed pySplit, "
           "text as latin-1 code points; translator-regenerated kernel proved equal to the model: TwistedProps.C54.gen_segStep, "
           "gen_toSegments, gen_toSegments_plain)",
           "reads of Python source files by linecache while twisted.python.log formats a logged traceback are not recorded",
           "sys.addaudithook events 'open' and 'os.*' plus wrappers around os.stat/os.lstat/os.access "
           "(and twisted.python.filepath.stat) as the record of what the server touched",
           "TwistedModel/Fs/Path.lean + TwistedProps/C26 (posixpath/FilePath model and containment theorems, tied by ./check C26)"]
MANIFEST = {
    "text": "Lean theorems (TwistedProps/C54.lean): toSegments returns only plain segments (no '', '.', '..', '/', NUL) from a plain "
            "working directory; for every session (any command lines, any environment answers) the working directory stays plain, "
            "shell._path never raises InsecurePath and returns exactly root + the utf-8 encoded segments, and every path handed to the "
            "filesystem (targets and listed children) is normalised and has the root's segment list as a prefix; built on the "
            "posixpath/FilePath model and theorems of C26.  Model tied to ftp.py by differential runs of real FTP sessions "
            "(StringTransport, real DTP on a memory reactor, scratch root with prefix-sharing siblings; decorated dot-dot look-alikes, "
            "dot-dot with a suffix / prefix token that software strips (;type=i ;1 ::$DATA ~1 blanks %00 …), separator look-alikes, 7..257-segment and 4096-character arguments, small user roots that are emptied and removed, the same "
            "commands under several logins) and of toSegments; toSegments_verbatim: names are passed on byte for byte; "
            "toSegments itself is regenerated from ftp.py by the translator on every run (loop as a fold) and proved equal to the "
            "model's toSegments for every cwd and path (gen_toSegments).",
    "note": "trusts Lean kernel, the hand-written models (Fs/Ftp.lean, Fs/Path.lean; differentially tied), CPython posixpath/str semantics, "
            "audit-hook observation",
    "technique": "Lean 4 proof (loop invariant of toSegments + session invariant by induction over the command list, on top of the C26 "
                 "normpath/child lemmas) + differential tie + audit-hook oracle + translator-regenerated kernel proved equal "
                 "to the model",
    "design_ref": "DESIGN.md §7.5 C54",
}


def hx(b):
    return b.hex() if b else "-"


def hxlist(lst):
    return ",".join(hx(x) for x in lst) if lst else "~"


def hxset(lst):
    return ",".join(sorted({hx(x) for x in lst})) if lst else "~"


def L1(s):
    return s.encode("latin-1")


# ---------------------------------------------------------------------------------------------
# observation: audit hook + wrappers for the calls that have no audit event

_events = []        # (kind 'act'|'probe', event name, path bytes)
_active = [False]
_listdirs = []      # results of os.listdir during the active window
_paths = []         # results of shell._path: bytes or None (InsecurePath)
_globs = []

PROBES = {"os.stat", "os.lstat", "os.access"}
IGNORED_EVENTS = {"os.putenv", "os.unsetenv", "os.system", "os.fork", "os.forkpty", "os.kill", "os.killpg",
                  "os.add_dll_directory", "os.getxattr", "os.listxattr"}


def _rec(ev, p):
    if isinstance(p, (str, bytes, os.PathLike)):
        try:
            _events.append(("probe" if ev in PROBES else "act", ev, os.fsencode(p)))
        except Exception:
            _events.append(("act", ev, repr(p).encode()))


def _hook(ev, args):
    if not _active[0]:
        return
    if ev == "open" or (ev.startswith("os.") and ev not in IGNORED_EVENTS) or ev.startswith("shutil."):
        if ev in ("os.rename", "os.link", "os.symlink", "os.replace") or ev.startswith("shutil."):
            for a in args[:2]:
                _rec(ev, a)
        elif args:
            _rec(ev, args[0])


sys.addaudithook(_hook)


def _wrap(mod, name, evname):
    orig = getattr(mod, name)

    def w(p, *a, **k):
        if _active[0]:
            _rec(evname, p)
        return orig(p, *a, **k)
    w.__name__ = name
    setattr(mod, name, w)
    return orig


_wrap(os, "stat", "os.stat")
_wrap(os, "lstat", "os.lstat")
_wrap(os, "access", "os.access")
_fpmod.stat = os.stat                      # filepath.py did `from os import stat`



def _suspend(mod, name):
    """calls of mod.name are not the server's: recording is suspended while they run"""
    orig = getattr(mod, name)

    def w(*a, **k):
        was, _active[0] = _active[0], False
        try:
            return orig(*a, **k)
        finally:
            _active[0] = was
    w.__name__ = name
    setattr(mod, name, w)


import linecache  # noqa: E402
# twisted.python.log formats the traceback of every logged Failure (textFromEventDict), which makes linecache
# stat and read Python source files: the logging system's reads, not the FTP server's
_suspend(linecache, "updatecache")
_suspend(linecache, "checkcache")

_orig_listdir = _fpmod.listdir


def _listdir(p):
    r = _orig_listdir(p)
    if _active[0]:
        _listdirs.append([os.fsencode(x) for x in r])
    return r


_fpmod.listdir = _listdir                  # (the audit hook still sees os.listdir)

_orig_path = ftp.FTPAnonymousShell._path


def _path(self, path):
    try:
        r = _orig_path(self, path)
    except InsecurePath:
        if _active[0]:
            _paths.append(None)
        raise
    if _active[0]:
        _paths.append(os.fsencode(r.path))
    return r


ftp.FTPAnonymousShell._path = _path

_orig_glob = ftp._isGlobbingExpression


def _glob(segments=None):
    r = _orig_glob(segments)
    if _active[0]:
        _globs.append(bool(r))
    return r


ftp._isGlobbingExpression = _glob

_quiet = [False]


def _quiet_logging():
    if not _quiet[0]:
        _quiet[0] = True
        from twisted.logger import globalLogBeginner
        try:
            globalLogBeginner.beginLoggingTo([lambda e: None], redirectStandardIO=False, discardBuffer=True)
        except Exception:
            pass


# ---------------------------------------------------------------------------------------------
# scratch tree (fresh for every session, below one per-process base directory)

_BASE = []
FILES = ["vroot/a.txt", "vroot/sp ace", "vroot/é.txt", "vroot/sub/b.txt", "vroot/sub/deep/c.txt",
         "vroot/vroot-evil/inner.txt", "vroot/sub-evil/x.txt", "vroot-evil/secret.txt", "vrootX/secret.txt", "secret.txt",
         "a.txt", "sub/b.txt"]
DIRS = ["vroot/empty", "vroot/sub/deep/deeper", "empty"]


JAIL = ["j", "a", "i", "l"]      # the scratch tree sits four levels below the temporary directory: a changed twisted that
#                                  climbs a few '..' above the root (mutation / seeded runs) still lands in scratch space,
#                                  where the snapshot sees it, instead of in /tmp or /


def top():
    base()
    return _BASE[1]


def base():
    if not _BASE:
        t = os.path.realpath(tempfile.mkdtemp(prefix="C54-"))
        atexit.register(shutil.rmtree, t, True)
        b = os.path.join(t, *JAIL)
        os.makedirs(b)
        _BASE.extend([b, t])
    return _BASE[0]


def build_tree():
    b = base()
    d = top()
    for keep in JAIL + [None]:
        os.makedirs(d, exist_ok=True)
        for n in os.listdir(d):
            if n != keep:
                p = os.path.join(d, n)
                shutil.rmtree(p) if os.path.isdir(p) and not os.path.islink(p) else os.remove(p)
        if keep is not None:
            d = os.path.join(d, keep)
    for d in DIRS:
        os.makedirs(os.path.join(b, d), exist_ok=True)
    for f in FILES:
        p = os.path.join(b, f)
        os.makedirs(os.path.dirname(p), exist_ok=True)
        with open(p, "w") as fh:
            fh.write("content of " + f)


def full_snapshot():
    """everything below the top of the scratch space: relative path -> 'D' | file content"""
    b = top()
    snap = {}
    for dp, dn, fn in os.walk(b):
        for d in dn:
            snap[os.path.relpath(os.path.join(dp, d), b)] = "D"
        for f in fn:
            p = os.path.join(dp, f)
            with open(p, "rb") as fh:
                snap[os.path.relpath(p, b)] = fh.read()
    return snap


def outside_of(snap, rootlist):
    """the part of a snapshot that is not a root in use nor below one (the root directory itself is not
    *outside* the root: `RMD /` on an empty root removes it, which the statement allows)"""
    b = os.fsencode(top())
    rels = [_segs(os.fsencode(r))[len(_segs(b)):] for r in rootlist]
    out = {}
    for k, v in snap.items():
        ks = _segs(os.fsencode(k))
        if not any(ks[:len(r)] == r for r in rels):
            out[k] = v
    return out


class Realm(ftp.BaseFTPRealm):
    def __init__(self, anonymousRoot, home):
        ftp.BaseFTPRealm.__init__(self, anonymousRoot)
        self.home = FilePath(home)

    def getHomeDirectory(self, avatarId):
        return self.home


HOMES = ["", "empty", "sub/deep/deeper", "sub/deep"]      # user root = <tmp>/vroot/<home>


def roots(case):
    b = base()
    vroot = os.path.join(b, "vroot")
    home = case.get("home", "")
    user = os.path.join(vroot, home) if home else vroot
    anon = user if case.get("anon", "same") == "same" else os.path.join(vroot, "sub")
    if case.get("mode", "text") == "bytes":
        user, anon = os.fsencode(user), os.fsencode(anon)
    return anon, user


# ---------------------------------------------------------------------------------------------
# running one session on the real code

PASV_WORDS = {"PASV", "EPSV"}


def session_lines(case):
    out = []
    for ln in case["lines"]:
        connect = False
        if ln == "@pasv":
            ln, connect = "PASV", True
        for piece in ln.split("\r\n"):                 # LineReceiver would split here
            out.append((piece[:16000], connect))
    return out


def _segs(p):
    return [s for s in p.split(b"/") if s]


def _pump(proto):
    _REACTOR.advance(0)
    d = proto.dtpInstance
    if d is not None and d.transport is not None:
        tr = d.transport
        n = 0
        while tr.producer is not None and n < 1000:
            try:
                tr.producer.resumeProducing()
            except Exception:                 # what a real transport does: drop the connection, stop the producer
                prod, tr.producer = tr.producer, None
                prod.stopProducing()
            n += 1
        # exceptions escaping a protocol callback: a real reactor logs them and drops the connection
        # (TYPE A + STOR raises TypeError in ASCIIConsumerWrapper.write on Python 3: not a path matter)
        if d._cons is not None:
            try:
                d.dataReceived(b"uploaded")
            except Exception:
                pass
            try:
                d.connectionLost(Failure(ConnectionDone()))
            except Exception:
                pass
        elif tr.disconnecting and d.isConnected:
            try:
                d.connectionLost(Failure(ConnectionDone()))
            except Exception:
                pass
    _REACTOR.advance(0)


def _connect_dtp(proto):
    f = proto.dtpFactory
    if f is not None and f._state is f._IN_PROGRESS:
        d = f.buildProtocol(None)
        if d is not None:
            d.makeConnection(StringTransport())


_cache = {}


def run_session(case):
    key = json.dumps(case, sort_keys=True)
    if key in _cache:
        return _cache[key]
    _quiet_logging()
    build_tree()
    before = full_snapshot()
    anon, user = roots(case)
    realm = Realm(anon, user)
    p = portal.Portal(realm)
    p.registerChecker(checkers.AllowAnonymousAccess())
    db = checkers.InMemoryUsernamePasswordDatabaseDontUse()
    db.addUser("user", "pw")
    p.registerChecker(db)
    factory = ftp.FTPFactory(p)
    wrapper = factory.buildProtocol(None)
    proto = wrapper.wrappedProtocol
    tr = StringTransport()
    wrapper.makeConnection(tr)
    steps = []
    try:
        for line, connect in session_lines(case):
            raw = L1(line)
            d = proto.dtpInstance
            env = {"dtpNone": d is None, "dtpConn": bool(d is not None and d.isConnected)}
            tr.clear()
            del _events[:], _listdirs[:], _paths[:], _globs[:]
            cwd0 = list(getattr(proto, "workingDirectory", []))
            auth0 = "UIAR"[proto.state]
            _active[0] = True
            try:
                wrapper.dataReceived(raw + b"\r\n")
                _pump(proto)
                word = raw.split(b" ", 1)[0].decode("latin-1").upper()
                if connect or word in PASV_WORDS:
                    _connect_dtp(proto)
                    _pump(proto)
                if proto.paused and not tr.disconnecting:
                    _REACTOR.advance(proto.dtpTimeout + 1)     # let a pending data-connection attempt time out
                    _pump(proto)
            finally:
                _active[0] = False
            if proto.paused and not tr.disconnecting:
                raise RuntimeError("command still pending: " + repr(raw))
            replies = [r[:3] for r in tr.value().decode("latin-1").split("\r\n") if r]
            env["loginOk"] = "230" in replies
            env["granted"] = "250" in replies
            env["glob"] = bool(_globs and _globs[-1])
            env["entries"] = list(_listdirs[0]) if _listdirs else None
            shell = proto.shell
            kind = "u" if type(shell) is ftp.FTPShell else "a"
            root = os.fsencode(shell.filesystemRoot.path) if shell is not None else None
            targets = [x for x in _paths if x is not None]
            tsegs = [_segs(t) for t in targets]
            extra = []
            for _, ev, path in _events:
                ps = _segs(path)
                if not any(ps == ts[:len(ps)] for ts in tsegs):
                    extra.append(path)
            steps.append({
                "line": raw, "env": env, "replies": replies,
                "auth": "UIAR"[proto.state], "auth0": auth0, "shell": kind, "gone": bool(tr.disconnecting),
                "cwd": [L1(s) for s in getattr(proto, "workingDirectory", [])], "cwd0": cwd0,
                "targets": targets, "extra": extra, "insecure": any(x is None for x in _paths),
                "root": root, "events": list(_events),
            })
    finally:
        _active[0] = False
        try:
            if proto.transport is not None:
                wrapper.connectionLost(Failure(ConnectionDone()))
        except Exception:
            pass
        for dc in _REACTOR.getDelayedCalls():
            if dc.active():
                dc.cancel()
    # roots in use: those of the shells that were logged in; before any login, the user root (so that
    # the whole scratch tree outside it is watched)
    used = sorted({st["root"] for st in steps if st["root"] is not None}) or [os.fsencode(user)]
    res = {"steps": steps, "outside_changed": outside_of(full_snapshot(), used) != outside_of(before, used)}
    if len(_cache) > 1200:                # the engine asks for all model lines first, then for the runs
        _cache.clear()
    _cache[key] = res
    return res


# ---------------------------------------------------------------------------------------------
# interface

def model_line(c):
    if c["op"] == "seg":
        return "seg " + hxlist([L1(s) for s in c["cwd"]]) + " " + hx(L1(c["path"]))
    r = run_session(c)
    anon, user = roots(c)
    steps = []
    for st in r["steps"]:
        e = st["env"]
        bits = "".join("1" if e[k] else "0" for k in ("dtpNone", "dtpConn", "loginOk", "granted", "glob"))
        ent = "!" if e["entries"] is None else hxlist(e["entries"])
        steps.append(f"{hx(st['line'])}/{bits}/{ent}")
    return " ".join(["run", hx(os.fsencode(os.getcwd())), hx(os.fsencode(anon)), hx(os.fsencode(user)), "1",
                     hx(b"anonymous")] + steps)


def run_impl(c):
    if c["op"] == "seg":
        try:
            return "ok " + hxlist([L1(s) for s in ftp.toSegments(list(c["cwd"]), c["path"])])
        except ftp.InvalidPath:
            return "!raised InvalidPath"
    r = run_session(c)
    recs = []
    for st in r["steps"]:
        recs.append(f"{st['auth']}{st['shell']}{'1' if st['gone'] else '0'};{hxlist(st['cwd'])};{hxset(st['targets'])};"
                    f"{hxset(st['extra'])};{'1' if st['insecure'] else '0'}")
    return "|".join(recs) if recs else "~"


def _plain(s):
    return s not in ("", ".", "..") and "/" not in s and "\0" not in s


def oracle(c, out):
    if c["op"] == "seg":
        if out.startswith("!"):
            return None
        segs = ftp.toSegments(list(c["cwd"]), c["path"])
        bad = [s for s in segs if not _plain(s)]
        if bad and all(_plain(s) for s in c["cwd"]):
            return {"key": "segment-not-plain", "detail": f"toSegments({c['cwd']!r}, {c['path']!r}) = {segs!r}"}
        if all(_plain(s) for s in c["cwd"]):
            full = c["path"] if c["path"].startswith("/") else "/" + "/".join(list(c["cwd"]) + [c["path"]])
            exp = [s for s in posixpath.normpath(full).split("/") if s]
            if segs != exp:
                return {"key": "segments-differ-from-normpath", "detail": f"toSegments({c['cwd']!r}, {c['path']!r}) = {segs!r}, normpath gives {exp!r}"}
        return None
    if out.startswith("!"):
        return {"key": "session-raised", "detail": out}
    r = run_session(c)
    for i, st in enumerate(r["steps"]):
        root = st["root"]
        for kind, ev, path in st["events"]:
            where = f"step {i} {st['line']!r}: {ev}({path!r}) root={root!r}"
            if root is None or st["auth0"] not in "AR":
                return {"key": "touch-without-shell", "detail": where}
            raw = path.split(b"/")
            if not path.startswith(b"/") or b"." in raw or b".." in raw or b"\0" in path:
                return {"key": "non-plain-path-to-os", "detail": where}
            ps, rs = _segs(path), _segs(root)
            if ps[:len(rs)] == rs:
                continue
            if kind == "probe" and ps == rs[:len(ps)]:
                continue                              # a lexical ancestor of the root (os.makedirs(root))
            return {"key": "probe-outside-root" if kind == "probe" else "act-outside-root", "detail": where}
        if not all(_plain(s.decode("latin-1")) for s in st["cwd"]):
            return {"key": "cwd-not-plain", "detail": f"step {i} {st['line']!r}: cwd={st['cwd']!r}"}
        if st["insecure"]:
            return {"key": "insecure-path-reached-shell", "detail": f"step {i} {st['line']!r}: shell._path raised InsecurePath"}
    if r["outside_changed"]:
        return {"key": "outside-root-modified", "detail": "files or directories outside <tmp>/vroot differ after the session"}
    return None


def _dotty(piece):
    """a decorated dot segment: not '.', '..' or '' itself, but nothing except dots is left once the junk is removed"""
    core = "".join(ch for ch in piece if ch == ".")
    rest = [ch for ch in piece if ch != "." and (ch.isalnum() and ord(ch) < 128)]
    return piece not in ("", ".", "..") and core in (".", "..") and not rest


def tag(c, out):
    if c["op"] == "seg":
        p = c["path"]
        feats = "".join(ch for ch, t in (("A", p.startswith("/")), ("D", ".." in p.split("/")), ("d", "." in p.split("/")),
                                         ("E", "" in p.split("/")[1:]), ("0", "\0" in p), ("C", bool(c["cwd"])),
                                         ("J", any(_dotty(x) for x in p.split("/"))), ("P", "%" in p or "\\" in p),
                                         ("L", p.count("/") > 8), ("W", any(len(x) > 200 for x in p.split("/")))) if t)
        return f"seg:{feats}:{'raise' if out.startswith('!') else 'ok'}"
    if out.startswith("!"):
        return "session:" + out
    r = run_session(c)
    sig = set()
    for st in r["steps"]:
        word = st["line"].split(b" ", 1)[0].decode("latin-1").upper()[:5]
        if not word.isalpha():
            word = "?"
        arg = st["line"].split(b" ", 1)[1].decode("latin-1") if b" " in st["line"] else ""
        feat = ("J" if any(_dotty(x) for x in arg.split("/")) else "") + ("L" if arg.count("/") > 8 else "")
        sig.add(f"{word}{len(set(st['targets']))}{min(len(set(st['extra'])), 2)}{'c' if st['cwd0'] != [s.decode('latin-1') for s in st['cwd']] else ''}{feat}")
    logins = sum(1 for st in r["steps"] if st["auth0"] == "I" and st["auth"] == "A")
    return (c.get("mode", "text")[0] + c.get("anon", "same")[0] + str(HOMES.index(c.get("home", ""))) + ("r" if logins > 1 else "") + ":" +
            ",".join(sorted(sig)))


# ---------------------------------------------------------------------------------------------
# generators

NAMES = ["sub", "deep", "deeper", "a.txt", "b.txt", "c.txt", "empty", "sp ace", "é.txt", "vroot-evil", "sub-evil",
         "inner.txt", "new", "n1", "x.txt"]
HOSTILE = ["..", ".", "", "...", "..\0", "\0", "a\0b", "../vroot-evil", "vroot-evil", "-evil", "vroot", "secret.txt", "*", "*.txt",
           "[a]", "?", "a?txt", "\\", "..\\", "\\..", " ", "~", "\r", "\n", "\xff", "\xdf", "%2e%2e", "-l", "-a", "-la", "-AL",
           ". .", ".. ", " ..", "..;", "µ", "tmp", "etc", "passwd"]
CMDS_PATH = ["CWD", "LIST", "NLST", "RETR", "STOR", "SIZE", "MDTM", "MKD", "RMD", "DELE"]


# --- decorated dot segments: '..' / '.' / '' with junk inserted anywhere.  toSegments must keep such a piece verbatim
# (it is a plain name); any later layer that strips / decodes / normalises names turns it into a real '..'.
JUNK_CH = ([chr(c) for c in range(0x00, 0x20)] + ["\x7f"] + [chr(c) for c in range(0x80, 0xa1)] +
           ["\xad", "\xb7", "\xc0", "\xc2", "\xc3", "\xe2", "\xef", "\xfe", "\xff", " ", " "])
JUNK_STR = ["%2e", "%2E", "%2f", "%2F", "%5c", "%5C", "%00", "%0d", "%0a", "%20", "%252e", "\\", ";", ":", "'", '"', "`", "$", "&", "|",
            "~", "*", "?", "+", "=", "@", "#", "!", ",", ";type=i", "::$DATA", "\r\0", "\xc2\xa0", "\xe2\x80\x8b", "\xef\xbb\xbf"]
DOTTY = ["..", "..", "..", "..", ".", "", "..."]
ENCODED_DOTS = ["%2e%2E", "%2E%2e", "%2E%2E", ".%2e", "%2e.", "%2e", "%252e%252e", "%c0%ae%c0%ae", "\xc0\xae\xc0\xae", "\xc0\xae.",
                "\xef\xbc\x8e\xef\xbc\x8e", "\xe2\x80\xa4\xe2\x80\xa4", "\xc2.\xc2.", ".\xc3.", "&#46;&#46;", "\\056\\056", "%u002e%u002e",
                "\xb7\xb7", "..%00", "%00..", "..%2f", "..%5c"]
SEPLIKE = ["%2f", "%2F", "\\", "%5c", "%5C", "%252f", "\xe2\x88\x95", "\xef\xbc\x8f", "\xc0\xaf", "%c0%af", ":", "\\\\", "\0"]
TAILS = ["vroot-evil/secret.txt", "vroot-evil", "secret.txt", "vrootX/secret.txt", "a.txt", "sub", "sub/b.txt", "etc/passwd", "x",
         "sub-evil/x.txt", "empty", "c.txt", "vroot/a.txt"]


DOWNS = [[], [], ["sub"], ["sub", "deep"], ["sub", "deep", "deeper"], ["empty"], ["vroot-evil"]]


# decorations that real software strips as a whole: exactly this token after / before a dot-dot
SUFFIX_TOKENS = [";type=i", ";type=a", ";type=d", ";TYPE=I", ";1", ";", "::$DATA", ":Zone.Identifier", ":", " ", "  ", "\t", "\r", "\n",
                 "\r\0", "\0", "%00", "%20", "%0d", "%0a", "~", "~1", "*", "?", "\\", ".", " .", ". ", "\x85", "\xa0", "\x1f", "\x0b", "\x0c",
                 "\xad", "#", "#x", "?x=1", "\xc2\xa0", "\xe2\x80\x8b", ",v", ".lnk", "@"]
PREFIX_TOKENS = [" ", "  ", "\t", "\r", "\n", "\0", "%20", "%00", "\\\\?\\", "file:", "C:", "c:", "~", "\xef\xbb\xbf", "\xa0", "\x85", "\x1f", "\xad", "-",
                 "--", "./", "'", '"']


def gen_decorated(rng):
    r = rng.random()
    if r < 0.18:
        return rng.choice(ENCODED_DOTS)
    if r < 0.43:
        base = rng.choice(["..", "..", "..", "."])
        if rng.random() < 0.7:
            p = base + rng.choice(SUFFIX_TOKENS)
            return p + "\n" if rng.random() < 0.08 else p       # what a regex `$` lets through after the token
        return (rng.choice(PREFIX_TOKENS) + base).replace("/", "")
    chars = list(rng.choice(DOTTY))
    for _ in range(rng.choice([1, 1, 1, 2, 3])):
        j = rng.choice(JUNK_CH) if rng.random() < 0.7 else rng.choice(JUNK_STR)
        chars.insert(rng.randint(0, len(chars)), j)
    return "".join(chars)


def gen_decorated_path(rng):
    """[names going down] + 1..3 dot-dot look-alikes + [a name outside / inside the root], joined by '/' or by
    something a later layer might take for a separator"""
    down = list(rng.choice(DOWNS))
    if rng.random() < 0.25:
        sep = rng.choice(SEPLIKE)                       # '..%2fvroot-evil%2fsecret.txt', '..\\..\\secret.txt'
        ups = [rng.choice(["..", "..", ".", gen_decorated(rng)]) for _ in range(rng.choice([1, 1, 2, 3]))]
        tail = rng.choice(TAILS).split("/") if rng.random() < 0.8 else []
        pieces = down + ups + tail
        k = rng.randint(0, len(down))                   # the part before k keeps the real separator
        p = "/".join(pieces[:k] + [sep.join(pieces[k:])])
    else:
        ups = [gen_decorated(rng) if rng.random() < 0.8 else ".." for _ in range(rng.choice([1, 1, 2, 3]))]
        tail = [rng.choice(TAILS)] if rng.random() < 0.6 else []
        p = "/".join(down + ups + tail)
    r = rng.random()
    if r < 0.3:
        p = "/" + p
    elif r < 0.35:
        p = "//" + p
    if rng.random() < 0.08:
        p += "/"
    return p


LONG_N = [7, 8, 9, 15, 16, 17, 31, 32, 33, 34, 35, 63, 64, 65, 100, 127, 128, 129, 255, 256, 257]


def gen_long_path(rng, cap=300):
    """many segments (around powers of two) and / or very long segments; '..' runs that end just below, at, or
    above the root"""
    n = min(rng.choice(LONG_N), cap)
    r = rng.random()
    name = rng.choice(["sub", "a", "x", "deep", "n1"])
    if r < 0.35:
        ups = rng.choice([n - 1, n, n + 1, n + 2, 1, 2])
        p = "/".join([name] * n + [".."] * ups)
    elif r < 0.5:
        p = "/".join([rng.choice([".", "", name, ".."]) for _ in range(n)])
    elif r < 0.65:
        p = "/".join([rng.choice(NAMES) for _ in range(n)] + ["..", "..", rng.choice(TAILS)])
    elif r < 0.8:
        seg = rng.choice(["A", "\xe9", "."]) * rng.choice([254, 255, 256, 1023, 1024, 4096])
        p = "/".join(rng.sample([seg, "..", name, seg + "..", ".." + seg], 3))
    else:
        p = "/".join([name] * n) + "/" + "/".join([".."] * (n + 1)) + "/" + rng.choice(TAILS)
    if rng.random() < 0.4:
        p = "/" + p
    if rng.random() < 0.3:
        p = p + "/" + rng.choice(TAILS)
    return p[:15000]


def gen_path(rng, hostile=0.5):
    r = rng.random()
    if r < 0.22 * (0.5 + hostile):
        return gen_decorated_path(rng)
    if r < 0.22 * (0.5 + hostile) + 0.03:
        return gen_long_path(rng)
    return gen_plain_path(rng, hostile)


def gen_plain_path(rng, hostile=0.5):
    n = rng.choice([0, 1, 1, 2, 2, 3, 4, 6])
    pieces = [rng.choice(HOSTILE) if rng.random() < hostile else rng.choice(NAMES) for _ in range(n)]
    p = "/".join(pieces)
    r = rng.random()
    if r < 0.3:
        p = "/" + p
    elif r < 0.36:
        p = "//" + p
    elif r < 0.4:
        p = "/../" + p
    if rng.random() < 0.12:
        p += "/"
    return p


def _case_word(rng, w):
    r = rng.random()
    if r < 0.7:
        return w
    if r < 0.85:
        return w.lower()
    return "".join(ch.lower() if rng.random() < 0.5 else ch for ch in w)


def gen_session(rng):
    lines = []
    r = rng.random()
    if r < 0.6:
        lines += ["USER user", "PASS pw"]
    elif r < 0.85:
        lines += ["USER anonymous", "PASS a@b"]
    elif r < 0.9:
        lines += ["USER user", "PASS wrong"]
    elif r < 0.95:
        lines += ["USER user", "PA\xdf pw"]
    else:
        lines += [rng.choice(["CWD sub", "PASS pw", "USER", "USER ", "RNTO x"])]
    hostile = rng.choice([0.2, 0.5, 0.8])
    home = rng.choice(HOMES) if rng.random() < 0.3 else ""
    if rng.random() < 0.06:
        return gen_relogin_session(rng, lines, hostile, home)
    for _ in range(rng.randint(1, 12)):
        r = rng.random()
        if home and r < 0.3:
            # a small (empty / nearly empty) root: remove what is in it, the root itself, and go on using it
            lines.append(rng.choice(["RMD", "RMD", "RMD", "DELE", "MKD", "CWD", "SIZE"]) + " " +
                         rng.choice(["/", ".", "", "..", "/.", "deeper", "deeper/..", "c.txt", "/deeper", "empty", "n1", "n1/n2",
                                     "../deeper", "../empty", "../..", "./"]))
        elif r < 0.62:
            cmd = rng.choice(CMDS_PATH)
            if cmd in ("LIST", "NLST", "RETR", "STOR") and rng.random() < 0.85:
                lines.append("@pasv")
            if cmd == "LIST" and rng.random() < 0.15:
                lines.append(_case_word(rng, cmd))
            elif rng.random() < 0.04:
                lines.append(_case_word(rng, cmd))
            else:
                lines.append(_case_word(rng, cmd) + " " + gen_path(rng, hostile))
        elif r < 0.7:
            lines.append(_case_word(rng, "CDUP") + (" x" if rng.random() < 0.1 else ""))
        elif r < 0.8:
            lines.append("RNFR " + gen_path(rng, hostile))
            if rng.random() < 0.2:
                lines.append(rng.choice(["CWD /", "NOOP", "RNTO", "RNFR a.txt"]))
            lines.append("RNTO " + gen_path(rng, hostile))
        elif r < 0.84:
            lines.append("PWD")
        elif r < 0.88:
            lines += rng.choice([["USER anonymous", "PASS x"], ["USER user", "PASS pw"], ["USER user", "PASS no"], ["USER x"]])
        elif r < 0.9:
            lines.append(rng.choice(["QUIT", "QUIT now", "FEAT", "quit"]))
        elif r < 0.93:
            lines.append("@pasv")
        else:
            lines.append(rng.choice(["NOOP", "TYPE I", "TYPE A", "SYST", "", " ", "CWD", "XYZ /..", "RNTO ../x", "PASS pw", "MODE S",
                                     "STRU F", "OPTS x", "SITE ..", "cwd", "\xdfIZE a.txt", "LI\xdfT"]))
    c = {"op": "session", "mode": rng.choice(["text", "bytes"]), "anon": rng.choice(["same", "sub"]), "lines": lines}
    if home:
        c["home"] = home
    return c


LOGINS = [["USER user", "PASS pw"], ["USER anonymous", "PASS a@b"]]


def gen_relogin_session(rng, lines, hostile, home):
    """the SAME commands under two (or three) logins in one connection: whatever the first shell resolved, listed or
    cached must not leak into the second one (the two roots differ when anon == 'sub' or home is set)"""
    block = []
    for _ in range(rng.randint(1, 4)):
        cmd = rng.choice(["SIZE", "MDTM", "CWD", "RETR", "LIST", "NLST", "DELE", "STOR", "MKD", "RMD"])
        if cmd in ("RETR", "LIST", "NLST", "STOR"):
            block.append("@pasv")
        arg = rng.choice(["a.txt", "b.txt", "sub", "sub/b.txt", "/", "", "c.txt", "deep", "deeper", "empty", "/a.txt", "x.txt"]) \
            if rng.random() < 0.7 else gen_path(rng, hostile)
        block.append(cmd + " " + arg)
    first = rng.choice(LOGINS)
    second = LOGINS[1] if first is LOGINS[0] else LOGINS[0]
    lines = list(first) + block + list(second) + block
    if rng.random() < 0.3:
        lines += list(first) + block
    c = {"op": "session", "mode": rng.choice(["text", "bytes"]), "anon": rng.choice(["same", "sub", "sub"]), "lines": lines}
    if home:
        c["home"] = home
    return c


def gen_seg(rng):
    cwd = [rng.choice(NAMES) for _ in range(rng.choice([0, 0, 1, 2, 3]))]
    if rng.random() < 0.05:
        cwd.append(rng.choice(["..", "", ".", "a/b"]))
    if rng.random() < 0.08:
        return {"op": "seg", "cwd": cwd, "path": gen_long_path(rng, 1000)}
    return {"op": "seg", "cwd": cwd, "path": gen_path(rng, rng.choice([0.3, 0.7, 1.0]))}


def S(lines, mode="text", anon="same", home=""):
    c = {"op": "session", "mode": mode, "anon": anon, "lines": lines}
    if home:
        c["home"] = home
    return c


def corpus():
    U = ["USER user", "PASS pw"]
    A = ["USER anonymous", "PASS x@y"]
    return [
        {"op": "seg", "cwd": [], "path": ".."},
        {"op": "seg", "cwd": ["a"], "path": "../.."},
        {"op": "seg", "cwd": ["a", "b"], "path": "../x//./y/"},
        {"op": "seg", "cwd": ["a"], "path": "/../x"},
        {"op": "seg", "cwd": ["a"], "path": "x\0y"},
        {"op": "seg", "cwd": ["a"], "path": "//b/c/../.."},
        S(U + ["CWD ../vroot-evil", "CWD /../vroot-evil", "CWD sub/../../vroot-evil", "@pasv", "RETR ../vroot-evil/secret.txt",
               "@pasv", "RETR /../secret.txt", "SIZE ../../secret.txt"]),
        S(U + ["CWD sub", "CWD deep", "CDUP", "CDUP", "CDUP", "PWD", "CWD sub/deep/../..", "@pasv", "LIST", "@pasv", "LIST sub",
               "@pasv", "NLST *.txt", "@pasv", "NLST sub/b.txt", "@pasv", "NLST"]),
        S(U + ["MKD /", "MKD n1/n2/n3", "RMD n1/n2/n3", "MKD ../x", "MKD a.txt/x/y", "DELE a.txt", "DELE ../secret.txt", "RMD ..",
               "RNFR sub/b.txt", "RNTO ../c.txt", "RNFR sub", "RNTO /../vroot-evil/sub", "RNFR ../secret.txt", "RNTO stolen"], "bytes"),
        S(U + ["@pasv", "STOR new.txt", "@pasv", "STOR ../evil.txt", "@pasv", "STOR sub/../../vroot-evil/x", "@pasv", "STOR a\0b",
               "@pasv", "RETR a.txt", "RETR a.txt", "STOR q", "LIST"], "bytes"),
        S(A + ["CWD ..", "@pasv", "LIST", "@pasv", "RETR b.txt", "@pasv", "STOR up", "MKD d", "RMD deep", "DELE b.txt", "RNFR b.txt",
               "RNTO c.txt", "SIZE b.txt", "MDTM deep", "CWD ../sub-evil", "SIZE ../sub-evil/x.txt", "SIZE ../a.txt"], "text", "sub"),
        S(A + ["SIZE ../a.txt", "USER user", "PASS pw", "SIZE ../a.txt", "SIZE a.txt", "USER user", "PASS bad", "SIZE a.txt"], "bytes", "sub"),
        S(U + ["RMD sub/deep/deeper", "RMD /", "CWD /", "MKD a", "@pasv", "LIST -la", "@pasv", "LIST -L", "QUIT", "DELE a.txt"]),
        S(["DELE a.txt", "USER user", "DELE a.txt", "PA\xdf pw", "SIZE a.txt", "pa\xdf pw", "RNTO x", "RNFR a.txt", "FEAT", "CWD sub",
           "RNTO", "RNTO sub/z.txt", "SIZE sub/z.txt"]),
        S(U + ["TYPE A", "@pasv", "STOR n.txt", "STOR ../m.txt", "SIZE n.txt", "@pasv", "RETR a.txt", "TYPE I", "@pasv", "STOR k.txt",
               "SIZE a.txt"], "bytes"),
        # --- classes added by the white-box mutation audit (harness/mutants/C54)
        {"op": "seg", "cwd": ["a"], "path": "..\r/x"},
        {"op": "seg", "cwd": [], "path": "a/..\t"},
        {"op": "seg", "cwd": ["sub"], "path": ".\xff./.\x01./vroot-evil"},
        {"op": "seg", "cwd": [], "path": "..%2fvroot-evil%2fsecret.txt"},
        {"op": "seg", "cwd": [], "path": "a/" * 33 + "../../x"},
        {"op": "seg", "cwd": ["sub"], "path": "/".join(["a"] * 64 + [".."] * 66)},
        {"op": "seg", "cwd": [], "path": "A" * 256 + "/../" + "\xe9" * 4096 + ".."},
        S(U + ["SIZE .\xff./vroot-evil/secret.txt", "DELE .\t./vroot-evil/secret.txt", "SIZE .\x01./secret.txt", "CWD sub/.\xff.",
               "SIZE ..%2fvroot-evil%2fsecret.txt", "DELE x%2F..%2F..%2Fsecret.txt", "@pasv", "STOR sub/..\t", "@pasv", "STOR ..\xa0",
               "MKD ..\r", "RNFR a.txt", "RNTO ..\x85/a.txt", "CWD " + "sub/../" * 40 + "..", "SIZE " + "sub/" * 33 + "../" * 34 + "secret.txt"]),
        S(U + ["SIZE ..;type=i", "@pasv", "RETR sub/..;type=a", "CWD sub", "@pasv", "RETR ..;type=i\n", "SIZE ..::$DATA", "MDTM ..;1",
               "DELE ../..~1", "@pasv", "LIST .. .", "@pasv", "NLST \t..", "RNFR a.txt", "RNTO file:..", "MKD ..#x", "RMD \\\\?\\.."]),
        S(U + ["CWD sub", "SIZE \xc0\xae\xc0\xae/vroot-evil/secret.txt", "MKD %2e%2E", "DELE ..\\..\\secret.txt", "@pasv", "RETR .\xad./a.txt",
               "@pasv", "LIST .\x00.", "@pasv", "NLST ..\x1f/*"], "bytes"),
        S(U + ["RMD /", "PWD", "MKD /", "RMD .", "CWD /", "MKD x", "RMD x", "RMD /", "SIZE /", "@pasv", "LIST"], "text", "same", "empty"),
        S(U + ["RMD /", "RMD ..", "SIZE /", "MKD n1/n2", "RMD n1/n2", "RMD n1", "RMD /"], "bytes", "sub", "sub/deep/deeper"),
        S(U + ["RMD deeper", "DELE c.txt", "RMD /", "MKD /", "CDUP", "RMD ../deep"], "text", "same", "sub/deep"),
        S(U + ["SIZE a.txt", "@pasv", "RETR a.txt", "CWD sub", "USER anonymous", "PASS x", "SIZE a.txt", "@pasv", "RETR a.txt", "CWD sub",
               "@pasv", "LIST /"], "text", "sub"),
        S(A + ["SIZE b.txt", "@pasv", "RETR b.txt", "USER user", "PASS pw", "SIZE b.txt", "DELE b.txt", "USER anonymous", "PASS x",
               "SIZE b.txt"], "bytes", "sub", "empty"),
        S(U + ["SIZE \xe9.txt", "MKD \xff\xdf", "CWD \xff\xdf", "MKD a\rb", "CWD sp ace", "CWD /sp ace", "SIZE /sp ace", "CWD a\\..\\..", "MKD ..\\x"]),
    ]


def generate(rng, tier):
    ns, nq = (700, 2500) if tier == "quick" else (9000, 40000)
    for _ in range(nq):
        yield gen_seg(rng)
    for _ in range(ns):
        yield gen_session(rng)


def search(rng, tier, disagreeing):
    """exhaustive short paths over the pieces that matter, for every path command, from three working directories"""
    pieces = ["..", ".", "", "sub", "vroot-evil", "a.txt", "\0", "secret.txt", "..\r", ".\xff.", "..%2f..", "\t.."]
    paths = set()
    for a in pieces:
        for b in pieces:
            for lead in ("", "/"):
                paths.add(lead + a + "/" + b)
                paths.add(lead + a)
            for c in ("..", "vroot-evil", "secret.txt"):
                paths.add(a + "/" + b + "/" + c)
    paths = sorted(paths)
    for p in paths:
        for cwd in ([], ["sub"], ["sub", "deep"]):
            yield {"op": "seg", "cwd": cwd, "path": p}
    for mode in ("text", "bytes"):
        for cd in ("CWD /", "CWD sub", "CWD sub/deep"):
            for i in range(0, len(paths), 6):
                lines = ["USER user", "PASS pw", cd]
                for p in paths[i:i + 6]:
                    lines += ["CWD " + p, "SIZE " + p, "@pasv", "RETR " + p, "@pasv", "STOR " + p, "@pasv", "LIST " + p,
                              "@pasv", "NLST " + p, "MKD " + p, "RNFR " + p, "RNTO " + p, "DELE " + p, "RMD " + p]
                yield S(lines, mode)
    for _ in range(300):
        yield {"op": "seg", "cwd": rng.choice(DOWNS), "path": gen_decorated_path(rng) if rng.random() < 0.6 else gen_long_path(rng, 1000)}
    for home in HOMES[1:]:
        for mode in ("text", "bytes"):
            yield S(["USER user", "PASS pw", "RMD /", "MKD /", "RMD deeper", "DELE c.txt", "RMD /", "RMD .", "MKD x/y", "RMD x/y", "RMD x", "RMD /"],
                    mode, "same", home)
    for c in disagreeing[:20]:
        yield c


def shrink(c):
    if c["op"] == "seg":
        p = c["path"].split("/")
        for i in range(len(p)):
            yield dict(c, path="/".join(p[:i] + p[i + 1:]))
        for i in range(len(c["cwd"])):
            yield dict(c, cwd=c["cwd"][:i] + c["cwd"][i + 1:])
        return
    lines = c["lines"]
    for i in range(len(lines)):
        yield dict(c, lines=lines[:i] + lines[i + 1:])
    for i, ln in enumerate(lines):
        if " " in ln:
            w, a = ln.split(" ", 1)
            parts = a.split("/")
            for j in range(len(parts)):
                if len(parts) > 1:
                    yield dict(c, lines=lines[:i] + [w + " " + "/".join(parts[:j] + parts[j + 1:])] + lines[i + 1:])
