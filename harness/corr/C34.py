"""C34 — RFC 1982 serial arithmetic: real SerialNumber vs Lean model, and the property oracle."""
from twisted.names._rfc1982 import SerialNumber

HEADLINE = "TwistedProps.C34.trichotomy_except_half / add_gt"
RULE = ("all pairs (a,b) for widths 1..W (W=6 quick, 8 thorough) + random pairs for 16/32/64 bits incl. "
        "out-of-ring constructor arguments; distinct = (bits class, relation class of (a,b), add outcome)")
TRUSTED = ["harness/py2lean.py (translator for _rfc1982.py; Generated.Rfc1982 = model proved by rfl/simp)"]
ASSUMES = ["serialBits >= 1 (2**(bits-1) is a float for bits = 0)",
           "mixed-width / non-SerialNumber operands (NotImplemented paths) are checked only by the oracle"]


def corpus():
    return [{"bits": 8, "a": 0, "b": 128}, {"bits": 8, "a": 255, "b": 0}, {"bits": 1, "a": 0, "b": 1},
            {"bits": 32, "a": 2**32 + 5, "b": -1}, {"bits": 8, "a": 250, "b": 100}, {"bits": 8, "a": 3, "b": 127}]


def generate(rng, tier):
    W = 6 if tier == "quick" else 8
    for bits in range(1, W + 1):
        for a in range(2**bits):
            for b in range(2**bits):
                yield {"bits": bits, "a": a, "b": b}
    n = 3000 if tier == "quick" else 60000
    for _ in range(n):
        bits = rng.choice([16, 32, 64, rng.randint(9, 70)])
        M = 2**bits
        a = rng.choice([rng.randrange(M), rng.randrange(-M, 2 * M), 0, M - 1, M // 2])
        k = rng.choice([0, 1, M // 2, M // 2 - 1, M // 2 + 1, rng.randrange(M)])
        b = rng.choice([rng.randrange(M), (a + k) % M, (a - k) % M, a + k])
        yield {"bits": bits, "a": a, "b": b}


def model_line(c):
    return f"{c['bits']} {c['a']} {c['b']}"


def _b(x):
    return "1" if x is True else "0" if x is False else "?"


def run_impl(c):
    x, y = SerialNumber(c["a"], c["bits"]), SerialNumber(c["b"], c["bits"])
    try:
        s = str(int(x + y))
    except ArithmeticError:
        s = "ArithmeticError"
    return f"{int(x)} {int(y)} {_b(x == y)} {_b(x < y)} {_b(x > y)} {_b(x <= y)} {_b(x >= y)} {s}"


def oracle(c, out):
    """RFC 1982 §3.1/§3.2 evaluated independently on the implementation's answers."""
    if out.startswith("!"):
        return {"key": "raises", "detail": out}
    bits = c["bits"]
    M, H = 2**bits, 2 ** (bits - 1)
    f = out.split()
    a, b = c["a"] % M, c["b"] % M
    if [int(f[0]), int(f[1])] != [a, b]:
        return {"key": "constructor", "detail": f"stored {f[0]},{f[1]} expected {a},{b}"}
    eq, lt, gt, le, ge = (x == "1" for x in f[2:7])
    d = (b - a) % M
    exp_eq, exp_lt, exp_gt = d == 0, 0 < d < H, d > H
    if (eq, lt, gt) != (exp_eq, exp_lt, exp_gt):
        return {"key": "ordering", "detail": f"bits={bits} a={a} b={b}: eq/lt/gt={eq,lt,gt} expected {exp_eq,exp_lt,exp_gt}"}
    if le != (eq or lt) or ge != (eq or gt):
        return {"key": "le-ge", "detail": f"bits={bits} a={a} b={b}: le={le} ge={ge}"}
    if b <= H - 1:
        if f[7] != str((a + b) % M):
            return {"key": "add", "detail": f"bits={bits} {a}+{b} gave {f[7]}"}
        if b > 0:
            s = SerialNumber(int(f[7]), bits)
            if not (s > SerialNumber(a, bits)) or (s < SerialNumber(a, bits)):
                return {"key": "add-gt", "detail": f"bits={bits} {a}+{b} not greater"}
    elif f[7] != "ArithmeticError":
        return {"key": "add-range", "detail": f"bits={bits} {a}+{b} accepted: {f[7]}"}
    return None


def tag(c, out):
    bits = c["bits"]
    M, H = 2**bits, 2 ** (bits - 1)
    d = (c["b"] - c["a"]) % M
    rel = "eq" if d == 0 else "half" if d == H else "lt" if d < H else "gt"
    wrap = "wrap" if (c["a"] % M) + (c["b"] % M) >= M else "nowrap"
    oor = "oor" if not (0 <= c["a"] < M and 0 <= c["b"] < M) else "in"
    return f"bits{'<=8' if bits <= 8 else bits if bits in (16, 32, 64) else 'other'}:{rel}:{wrap}:{oor}:{'err' if out.endswith('Error') else 'ok'}"

MANIFEST = {
    "text": "27 Lean theorems (TwistedProps/C34.lean) for every width bits>=1 and all ring values: trichotomy except half-ring apart, "
            "le/ge agree, add = (s+n) mod 2^bits, add_gt, add refuses n > 2^(bits-1)-1; the definitions are regenerated from "
            "_rfc1982.py by the translator on every run and proved equal to the model (rfl), and the model is run against the real "
            "SerialNumber exhaustively for widths 1..6 (quick) / 1..8 (thorough) plus random 16/32/64-bit pairs.",
    "note": "trusts Lean kernel, harness/py2lean.py, CPython int semantics; NotImplemented paths for foreign operands are outside the model",
    "technique": "Lean 4 proof over translator-regenerated definitions + exhaustive small-width differential tie",
    "design_ref": "DESIGN.md §7.6 C34",
}
