"""C34 — RFC 1982 serial arithmetic: real SerialNumber vs Lean model, and the property oracle.

Two case shapes:

* pair   {"bits", "a", "b"[, "ca", "cb"]}: two objects of one width; all six operations between them, and
  the REAL object returned by `x + y` is compared with `x` (it must be usable: same ring, greater than x).
  "ca"/"cb" pick the operand classes (0 SerialNumber, 1 a subclass, 2 a subclass of that subclass).
* prog   {"objs": [[number, bits, cls], ...], "ops": [[kind, i, j], ...]}: a HISTORY — several objects
  (several widths, shared numbers, subclasses) are constructed first and kept alive, then operations run
  between slots; `add` / `iadd` (`s += n`) append their result as a new slot, so later operations use
  objects produced by earlier ones (chains of additions, x op x, results against operands).

Every constructor call gets its own `int` object for the width (equal widths are equal numbers, not
identical objects).
"""
import operator

from twisted.names._rfc1982 import SerialNumber

HEADLINE = "TwistedProps.C34.trichotomy_except_half / add_gt / run_rfc"
RULE = ("pairs: all (a,b) for widths 1..W (W=6 quick, 8 thorough) + random pairs for 16/32/64 bits, random widths 9..70 and "
        "BIG widths (128, 256, 257, 300, 512, 1024, 2048, random 71..4096), incl. out-of-ring constructor arguments and "
        "subclass operands; programs: 2..6 objects of one or two widths (numbers shared between objects and widths, "
        "subclasses), 2..8 operations eq/lt/gt/le/ge/add/iadd between slots incl. x op x and results of earlier additions; "
        "distinct = (shape, width class, relation class / operation kinds and outcomes, operand classes)")
TRUSTED = ["harness/py2lean.py (translator for _rfc1982.py; Generated.Rfc1982 = model proved by rfl/simp)"]
ASSUMES = ["serialBits >= 1 (2**(bits-1) is a float for bits = 0)",
           "operands are SerialNumber instances (subclasses included) built from ints; operations between objects of "
           "DIFFERENT widths and non-SerialNumber operands are outside the statement: the model says TypeError "
           "(False for ==) for mixed widths and the tie compares that, the oracle does not judge them",
           "the object returned by an addition is observed through int(), its _serialBits (tie only) and its comparisons "
           "with the left operand (oracle); its class is not observed"]


class _Sub(SerialNumber):
    """an application subclass (isinstance(x, SerialNumber) holds, type(x) is not SerialNumber)"""


class _Sub2(_Sub):
    pass


_CLS = [SerialNumber, _Sub, _Sub2]
_CMP = {"eq": operator.eq, "lt": operator.lt, "gt": operator.gt, "le": operator.le, "ge": operator.ge}
_BIG = [128, 256, 257, 300, 512, 1024, 2048]


def _mk(num, bits, cls=0):
    # int(str(..)) : a fresh int object per call (CPython shares only -5..256)
    return _CLS[cls](num, int(str(bits)))


def _b(x):
    return "1" if x is True else "0" if x is False else "?"


def _c(f, x, y):
    try:
        return _b(f(x, y))
    except TypeError:
        return "T"


def _flags(r, x):
    return _c(operator.gt, r, x) + _c(operator.lt, r, x) + _c(operator.eq, r, x)


def _w(o):
    return getattr(o, "_serialBits", "?")


# ------------------------------------------------------------------------------------------ cases

def corpus():
    return [{"bits": 8, "a": 0, "b": 128}, {"bits": 8, "a": 255, "b": 0}, {"bits": 1, "a": 0, "b": 1},
            {"bits": 32, "a": 2**32 + 5, "b": -1}, {"bits": 8, "a": 250, "b": 100}, {"bits": 8, "a": 3, "b": 127},
            # mutation audit: result object of an addition, subclass operands, big widths, histories
            {"bits": 8, "a": 250, "b": 100, "ca": 1, "cb": 0}, {"bits": 16, "a": 3, "b": 5, "ca": 0, "cb": 2},
            {"bits": 300, "a": 3, "b": 5}, {"bits": 2048, "a": 2**2047 + 1, "b": 1}, {"bits": 257, "a": 0, "b": 2**256},
            {"objs": [[3, 8, 0], [3, 16, 0], [5, 8, 0]], "ops": [["lt", 0, 2], ["add", 0, 2], ["gt", 3, 0]]},
            {"objs": [[250, 8, 0], [200, 8, 0]], "ops": [["iadd", 0, 1], ["iadd", 0, 0], ["eq", 0, 0]]},
            {"objs": [[250, 8, 0], [100, 8, 0]], "ops": [["iadd", 0, 1], ["gt", 2, 0], ["iadd", 2, 1], ["lt", 0, 3]]},
            {"objs": [[1, 8, 1], [2, 8, 0], [1, 16, 2]], "ops": [["le", 0, 1], ["ge", 1, 0], ["eq", 0, 2], ["lt", 0, 2], ["add", 2, 0]]},
            {"objs": [[7, 300, 0], [7, 300, 1], [2**299, 300, 0]], "ops": [["eq", 0, 1], ["add", 0, 1], ["add", 0, 2], ["lt", 0, 2]]}]


def _truth_objs(objs):
    return [(n % 2**w, w) for n, w, _ in objs]


def _expected(kind, x, y):
    """RFC 1982 on two truth slots (value, bits) of the same width: bool for comparisons,
    (value, bits) | 'A' for additions."""
    (a, w), (b, _) = x, y
    M, H = 2**w, 2 ** (w - 1)
    if kind in ("add", "iadd"):
        return ((a + b) % M, w) if b <= H - 1 else "A"
    d = (b - a) % M
    eq, lt, gt = d == 0, 0 < d < H, d > H
    return {"eq": eq, "lt": lt, "gt": gt, "le": eq or lt, "ge": eq or gt}[kind]


def _number(rng, w, base):
    M, H = 2**w, 2 ** (w - 1)
    k = rng.choice([0, 0, 1, 1, 2, H - 1, H, H + 1, M - 1, rng.randrange(M), rng.randrange(M)])
    n = (base + k) % M if rng.random() < 0.8 else k
    r = rng.random()
    return n + M if r < 0.05 else n - M if r < 0.1 else n


def _width(rng):
    r = rng.random()
    if r < 0.35:
        return rng.randint(1, 8)
    if r < 0.6:
        return rng.choice([16, 32, 64])
    if r < 0.75:
        return rng.randint(9, 70)
    return rng.choice(_BIG + [rng.randint(71, 4096)])


def _program(rng):
    w1 = _width(rng)
    widths = [w1]
    if rng.random() < 0.35:
        widths.append(rng.choice([w1 + 1, max(1, w1 - 1), 2 * w1, _width(rng)]))
    sub = rng.random() < 0.45
    base = rng.randrange(2**w1)
    pool = []
    objs = []
    for _ in range(rng.randint(2, 6)):
        w = widths[0] if rng.random() < 0.7 else rng.choice(widths)
        # numbers are shared between objects (and widths) about half of the time
        n = rng.choice(pool) if pool and rng.random() < 0.45 else _number(rng, w, base % 2**w)
        pool.append(n)
        objs.append([n, w, rng.choice([0, 1, 2]) if sub else 0])
    truth = _truth_objs(objs)
    ops = []
    for _ in range(rng.randint(2, 8)):
        kind = rng.choice(["eq", "lt", "gt", "le", "ge", "add", "add", "iadd", "iadd"])
        live = [k for k, t in enumerate(truth) if t is not None]
        i = rng.choice(live)
        same = [k for k in live if truth[k][1] == truth[i][1]]
        if kind in ("add", "iadd") and rng.random() < 0.6:
            H = 2 ** (truth[i][1] - 1)
            small = [k for k in same if truth[k][0] <= H - 1]
            same = small or same
        r = rng.random()
        j = i if r < 0.12 else rng.choice(same) if r < 0.9 else rng.choice(live)
        if rng.random() < 0.5 and len(truth) > len(objs) and kind not in ("add", "iadd"):
            # compare the most recent result with something
            last = max(k for k in live)
            if last >= len(objs):
                i, j = (last, j) if rng.random() < 0.5 else (i, last)
        ops.append([kind, i, j])
        if kind in ("add", "iadd"):
            x, y = truth[i], truth[j]
            e = _expected(kind, x, y) if x[1] == y[1] else "T"
            truth.append(e if isinstance(e, tuple) else None)
    return {"objs": objs, "ops": ops}


def generate(rng, tier):
    W = 6 if tier == "quick" else 8
    for bits in range(1, W + 1):
        for a in range(2**bits):
            for b in range(2**bits):
                yield {"bits": bits, "a": a, "b": b}
    n = 3000 if tier == "quick" else 60000
    for _ in range(n):
        bits = rng.choice([16, 32, 64, rng.randint(9, 70), rng.choice(_BIG + [rng.randint(71, 4096)])])
        M = 2**bits
        a = rng.choice([rng.randrange(M), rng.randrange(-M, 2 * M), 0, M - 1, M // 2])
        k = rng.choice([0, 1, M // 2, M // 2 - 1, M // 2 + 1, rng.randrange(M)])
        b = rng.choice([rng.randrange(M), (a + k) % M, (a - k) % M, a + k])
        c = {"bits": bits, "a": a, "b": b}
        if rng.random() < 0.3:
            c["ca"], c["cb"] = rng.choice([(0, 1), (1, 0), (1, 1), (1, 2), (2, 1), (0, 2)])
        yield c
    # small widths with subclass operands (exhaustive pairs use the base class only)
    for _ in range(300 if tier == "quick" else 3000):
        bits = rng.randint(1, 8)
        M = 2**bits
        yield {"bits": bits, "a": rng.randrange(-M, 2 * M), "b": rng.randrange(M),
               "ca": rng.choice([0, 1, 2]), "cb": rng.choice([1, 2])}
    for _ in range(3000 if tier == "quick" else 40000):
        yield _program(rng)


# ------------------------------------------------------------------------------------------ tie

def model_line(c):
    if "objs" in c:
        return ("P " + ",".join(f"{n}:{w}" for n, w, _ in c["objs"]) + " "
                + ",".join(f"{k}:{i}:{j}" for k, i, j in c["ops"]))
    return f"{c['bits']} {c['a']} {c['b']}"


def _run_prog(c):
    slots = [_mk(n, w, k) for n, w, k in c["objs"]]
    out = ["c=" + ",".join(f"{int(o)}:{_w(o)}" for o in slots)]
    for kind, i, j in c["ops"]:
        x = slots[i] if i < len(slots) else None
        y = slots[j] if j < len(slots) else None
        adding = kind in ("add", "iadd")
        if x is None or y is None:
            out.append("-")
            if adding:
                slots.append(None)
            continue
        if not adding:
            out.append(_c(_CMP[kind], x, y))
            continue
        try:
            if kind == "add":
                r = x + y
            else:
                r = x
                r += y
        except ArithmeticError:
            out.append("A")
            slots.append(None)
        except TypeError:
            out.append("T")
            slots.append(None)
        else:
            # flags: the result against the object that was the left operand (still held in slots[i])
            out.append(f"{int(r)}:{_w(r)}:{_flags(r, x)}")
            slots.append(r)
    out.append("f=" + ",".join("-" if o is None else f"{int(o)}:{_w(o)}" for o in slots))
    return " ".join(out)


def run_impl(c):
    if "objs" in c:
        return _run_prog(c)
    x, y = _mk(c["a"], c["bits"], c.get("ca", 0)), _mk(c["b"], c["bits"], c.get("cb", 0))
    try:
        r = x + y
        s = f"{int(r)} {_w(r)} {_flags(r, x)}"
    except ArithmeticError:
        s = "ArithmeticError - ---"
    return f"{int(x)} {int(y)} {_b(x == y)} {_b(x < y)} {_b(x > y)} {_b(x <= y)} {_b(x >= y)} {s}"


# ------------------------------------------------------------------------------------------ oracle

def _oracle_prog(c, out):
    f = out.split()
    if len(f) != len(c["ops"]) + 2 or not f[0].startswith("c=") or not f[-1].startswith("f="):
        return {"key": "malformed", "detail": out[:200]}
    truth = _truth_objs(c["objs"])
    stored = [t.split(":")[0] for t in f[0][2:].split(",")]
    if stored != [str(v) for v, _ in truth]:
        return {"key": "constructor", "detail": f"stored {stored} expected {[v for v, _ in truth]}"}
    for (kind, i, j), tok in zip(c["ops"], f[1:-1]):
        x = truth[i] if i < len(truth) else None
        y = truth[j] if j < len(truth) else None
        adding = kind in ("add", "iadd")
        if x is None or y is None or x[1] != y[1]:
            if adding:                                  # outside the statement: no demand
                truth.append(None)
            continue
        e = _expected(kind, x, y)
        where = f"{kind}({i},{j}) on {x[0]},{y[0]} of {x[1]} bits"
        if not adding:
            if tok != _b(e):
                return {"key": "ordering" if kind in ("eq", "lt", "gt") else "le-ge",
                        "detail": f"{where}: got {tok} expected {_b(e)}"}
            continue
        if e == "A":
            truth.append(None)
            if tok != "A":
                return {"key": "add-range", "detail": f"{where}: accepted / not refused with ArithmeticError: {tok}"}
            continue
        truth.append(e)
        p = tok.split(":")
        if len(p) != 3 or p[0] != str(e[0]):
            return {"key": "add", "detail": f"{where}: got {tok} expected value {e[0]}"}
        want = "100" if y[0] > 0 else "001"
        if p[2] != want:
            return {"key": "add-gt", "detail": f"{where}: result >,<,== left operand is {p[2]} expected {want}"}
    return None


def oracle(c, out):
    """RFC 1982 §3.1/§3.2 evaluated independently on the implementation's answers."""
    if out.startswith("!"):
        return {"key": "raises", "detail": out}
    if "objs" in c:
        return _oracle_prog(c, out)
    bits = c["bits"]
    M, H = 2**bits, 2 ** (bits - 1)
    f = out.split()
    a, b = c["a"] % M, c["b"] % M
    if [int(f[0]), int(f[1])] != [a, b]:
        return {"key": "constructor", "detail": f"stored {f[0]},{f[1]} expected {a},{b}"}
    eq, lt, gt, le, ge = (x == "1" for x in f[2:7])
    if any(x not in "01" for x in f[2:7]):
        return {"key": "ordering", "detail": f"bits={bits} a={a} b={b}: non-boolean answers {f[2:7]}"}
    d = (b - a) % M
    exp_eq, exp_lt, exp_gt = d == 0, 0 < d < H, d > H
    if (eq, lt, gt) != (exp_eq, exp_lt, exp_gt):
        return {"key": "ordering", "detail": f"bits={bits} a={a} b={b}: eq/lt/gt={eq,lt,gt} expected {exp_eq,exp_lt,exp_gt}"}
    if le != (eq or lt) or ge != (eq or gt):
        return {"key": "le-ge", "detail": f"bits={bits} a={a} b={b}: le={le} ge={ge}"}
    if b <= H - 1:
        if f[7] != str((a + b) % M):
            return {"key": "add", "detail": f"bits={bits} {a}+{b} gave {f[7]}"}
        # the object that `x + y` really returned, against x
        want = "100" if b > 0 else "001"
        if f[9] != want:
            return {"key": "add-gt", "detail": f"bits={bits} {a}+{b}: returned object >,<,== s is {f[9]} expected {want}"}
        if b > 0:
            s = SerialNumber(int(f[7]), bits)
            if not (s > SerialNumber(a, bits)) or (s < SerialNumber(a, bits)):
                return {"key": "add-gt", "detail": f"bits={bits} {a}+{b} not greater"}
    elif f[7] != "ArithmeticError":
        return {"key": "add-range", "detail": f"bits={bits} {a}+{b} accepted: {f[7]}"}
    return None


# ------------------------------------------------------------------------------------------ evidence

def _wclass(bits):
    return "<=8" if bits <= 8 else str(bits) if bits in (16, 32, 64) else "9-70" if bits <= 70 else "big"


def tag(c, out):
    if "objs" in c:
        ws = sorted({w for _, w, _ in c["objs"]})
        kinds = {k for k, _, _ in c["ops"]}
        toks = out.split()[1:-1] if not out.startswith("!") else []
        feats = [_wclass(ws[0]), "mixed" if len(ws) > 1 else "one",
                 "sub" if any(k for _, _, k in c["objs"]) else "base",
                 "cmp" if kinds & set(_CMP) else "", "add" if "add" in kinds else "", "iadd" if "iadd" in kinds else "",
                 "self" if any(i == j for _, i, j in c["ops"]) else "",
                 "chain" if any(max(i, j) >= len(c["objs"]) for _, i, j in c["ops"]) else "",
                 "A" if "A" in toks else "", "T" if "T" in toks else ""]
        return "prog:" + ":".join(x for x in feats if x)
    bits = c["bits"]
    M, H = 2**bits, 2 ** (bits - 1)
    d = (c["b"] - c["a"]) % M
    rel = "eq" if d == 0 else "half" if d == H else "lt" if d < H else "gt"
    wrap = "wrap" if (c["a"] % M) + (c["b"] % M) >= M else "nowrap"
    oor = "oor" if not (0 <= c["a"] < M and 0 <= c["b"] < M) else "in"
    sub = ":sub" if c.get("ca") or c.get("cb") else ""
    return f"bits{_wclass(bits)}:{rel}:{wrap}:{oor}:{'err' if 'Error' in out else 'ok'}{sub}"


def shrink(c):
    if "objs" not in c:
        if c.get("ca") or c.get("cb"):
            yield {"bits": c["bits"], "a": c["a"], "b": c["b"]}
        return
    ops = c["ops"]
    # drop the last operation; drop one comparison (comparisons add no slot, indices stay valid)
    if len(ops) > 1:
        yield {"objs": c["objs"], "ops": ops[:-1]}
        for k, (kind, _, _) in enumerate(ops):
            if kind in _CMP:
                yield {"objs": c["objs"], "ops": ops[:k] + ops[k + 1:]}
    # drop the last object when nothing refers to it (result slots shift down by one)
    n = len(c["objs"])
    if n > 1 and all(i != n - 1 and j != n - 1 for _, i, j in ops):
        yield {"objs": c["objs"][:-1],
               "ops": [[k, i - (i >= n), j - (j >= n)] for k, i, j in ops]}
    if any(k for _, _, k in c["objs"]):
        yield {"objs": [[a, w, 0] for a, w, _ in c["objs"]], "ops": ops}


MANIFEST = {
    "text": "Lean theorems (TwistedProps/C34.lean) for every width bits>=1 and all ring values: trichotomy except half-ring apart, "
            "le/ge agree, add = (s+n) mod 2^bits, add_gt, add refuses n > 2^(bits-1)-1; lifted to HISTORIES over several objects "
            "(run_frozen: no operation changes an existing object; run_rfc: every comparison / addition in any program between "
            "objects of one width gives the RFC 1982 answer whatever happened before; addMany_sum: a chain of additions yields "
            "(s + n1 + ... + nk) mod 2^bits); the definitions are regenerated from _rfc1982.py by the translator on every run and "
            "proved equal to the model (rfl), and the model is run against the real SerialNumber exhaustively for widths 1..6 "
            "(quick) / 1..8 (thorough), on random 16/32/64-bit, 9..70-bit and big-width (128..4096) pairs with subclass operands, "
            "observing the object an addition really returns, and on random programs (objects of several widths kept alive, "
            "shared numbers, subclasses, x op x, += , chains through returned objects).",
    "note": "trusts Lean kernel, harness/py2lean.py, CPython int semantics; mixed-width operations are tied to the model "
            "(TypeError / False) but not judged by the oracle; non-SerialNumber operands are outside the model",
    "technique": "Lean 4 proof over translator-regenerated definitions + exhaustive small-width differential tie + program tie",
    "design_ref": "DESIGN.md §7.6 C34",
}
