"""C19 — HTTP/1.1 server framing follows RFC 9112: real HTTPChannel vs the Lean model (tie), and an oracle that
judges the real server against an independent, spec-shaped reference parser written here from RFC 9112/9110
(+ h11 on the requests both accept)."""
import re

from corr import _httpchan as H

try:
    import h11
except Exception:   # pragma: no cover
    h11 = None

HEADLINE = "TwistedProps.C19.body_is_rfc_body"
RULE = ("pipelined request streams from the grammar with framing headers in every combination (Content-Length / Transfer-Encoding, "
        "duplicates, case, whitespace, obs-fold, non-numeric and huge lengths, unknown codings), request lines with every byte value "
        "in the target, bad methods/versions/separators, header-name and value bytes over 0..255, chunked bodies with size/extension/"
        "CRLF mutations; judged by the reference parser (message by message: same request and body, next message starts where the "
        "reference says, 400 + close + nothing further on the first invalid message); every case also runs the Lean reference parser "
        "(driver) against the Python one (verbatim: messages, offsets, verdict) and h11 on each message it found; "
        "distinct = (reference verdicts, server outcome)")
ASSUMES = [
    "the resource answers every request at once (so that pipelined requests are all parsed) — hypothesis `AtOnce app` of the theorems",
    "the whole-stream theorems are stated for the stream arriving in ONE delivery (what this check runs); independence of the "
    "segmentation is property C18",
    "where RFC 9110/9112 lets a recipient either reject or tolerate (obs-fold, bare CR/LF inside a value, other CTLs in a value, "
    "HTTP versions other than 1.0/1.1, list-valued Content-Length, codings other than a single 'chunked', size limits incl. a field "
    "line followed by an over-long line) both outcomes pass (`may` in both references; the theorems claim nothing there)",
    "persistence (Connection tokens) is not part of the property: the reference stops where the server closed after a response; the "
    "theorems say the same through `checkPersistence` of the request as handed over",
    "known finding te-identity: the 400 theorem excludes the reference's class `te-identity` (counterexamples kept in Lean)",
    "not proved (oracle only): a stream that ends inside a message hands over nothing for the incomplete message (key early-request)",
]
TRUSTED = ["the reference parser in this file (read against RFC 9112 §2.2, §3, §5, §6.1, §6.3, §7.1 and RFC 9110 §5.1, §5.5, §5.6.2)",
           "the Lean reference parser lean/TwistedModel/Http/Rfc9112Request.lean (the object of the theorems; compared verbatim with the "
           "Python one and with h11 on every case)",
           "h11 as a second opinion on requests the references accept",
           "twisted.internet.testing.StringTransport(lenient=True); server.version / datetimeToString patched to constants"]
MANIFEST = {
    "text": "Lean theorems (TwistedProps/C19.lean) over the channel model and an independent RFC 9112 reference parser in Lean, for "
            "every answering-at-once application and every byte stream (one delivery): body_is_rfc_body (request k handed over has "
            "exactly the request line and body of the reference's message k, on the whole prefix the reference accepts), "
            "no_request_from_body_bytes (request k+1 is what the reference reads at the offset where message k stops), "
            "bad_framing_gets_400_and_stop (one theorem over all 16 rejection classes except te-identity: closing, 400 + loseConnection "
            "are the last things done, one request per valid message, nothing later is processed), no_extra_request_partial (PARTIAL: "
            "no extra request at end of stream / at an invalid message; the case of a stream ending inside a message is oracle-only); "
            "te-identity counterexamples at header and stream level; header-level theorems of round 1 kept. Model tied to http.py by "
            "differential runs; the Lean reference tied verbatim to the Python reference and to h11 on every case; oracle = Python "
            "reference + h11 on the real server's behaviour.",
    "note": "trusts Lean kernel, the hand-written channel model (differentially tied), the Lean/Python reference parsers (tied to each "
            "other and to h11), h11",
    "technique": "Lean 4 proof (whole-stream simulation of the channel model against a reference parser) + differential tie + "
                 "reference-parser oracle",
    "design_ref": "DESIGN.md §7 C19",
}

TCHAR = set(b"!#$%&'*+-.^_`|~0123456789ABCDEFGHIJKLMNOPQRSTUVWXYZabcdefghijklmnopqrstuvwxyz")
HEXD = set(b"0123456789abcdefABCDEF")


def _token(b):
    return len(b) > 0 and all(c in TCHAR for c in b)


class Bad(Exception):
    def __init__(self, key):
        self.key = key


class May(Exception):
    """the RFC lets the recipient reject or tolerate; no verdict from here on"""


def ref_parse(stream):
    """→ list of ("req", method, target, version, [(lower-name, value)], body, raw, start, stop) | ("bad", key) | ("may",) | ("more",)
    One entry per message, in order; stops at the first non-"req"."""
    out = []
    pos = 0
    n = len(stream)
    first = True
    while pos < n:
        try:
            # RFC 9112 §2.2: a server SHOULD ignore at least one empty line received prior to the request-line
            if stream.startswith(b"\r\n", pos):
                if out and out[-1][0] == "skip":
                    raise May()          # a second empty line: the RFC says "at least one"; the server rejects it
                out.append(("skip",))
                pos += 2
                continue
            start = pos
            eol = stream.find(b"\r\n", pos)
            if eol < 0:
                if n - pos >= 16384:
                    raise May()
                out.append(("more",))
                break
            line = stream[pos:eol]
            if len(line) > 16384:
                raise May()
            pos = eol + 2
            # request-line = method SP request-target SP HTTP-version
            parts = line.split(b" ")
            if len(parts) != 3:
                raise Bad("request-line")
            method, target, version = parts
            if not _token(method):
                raise Bad("method")
            if not target or any(c < 0x21 or c > 0x7E for c in target):
                raise Bad("target-byte")
            if not re.fullmatch(rb"HTTP/[0-9]\.[0-9]", version):
                raise Bad("version")
            if version not in (b"HTTP/1.0", b"HTTP/1.1"):
                raise May()
            # field lines
            headers = []
            size = len(line)
            while True:
                eol = stream.find(b"\r\n", pos)
                if eol < 0:
                    if n - pos >= 16384:
                        raise May()
                    raise EOFError
                hl = stream[pos:eol]
                pos = eol + 2
                size += len(hl)
                if size > 16384 or len(hl) > 16384:
                    raise May()
                if hl == b"":
                    break
                if hl[:1] in (b" ", b"\t"):
                    raise May()          # obs-fold: reject or replace by SP
                if stream.find(b"\r\n", pos) < 0:
                    # a field line can only be judged once the next line is there (it may be continued by an obs-fold)
                    raise EOFError
                if stream.find(b"\r\n", pos) - pos > 16384:
                    # the line after it is over the line limit: a recipient enforcing the limit (LineReceiver drops the
                    # connection, no 400) does so before it judges this field line
                    raise May()
                if stream[pos:pos + 1] in (b" ", b"\t"):
                    raise May()          # this field line is continued by an obs-fold
                if b":" not in hl:
                    raise Bad("field-line")
                name, value = hl.split(b":", 1)
                if not _token(name):
                    raise Bad("field-name")   # includes whitespace between name and colon (§5.1: MUST reject)
                value = value.strip(b" \t")
                if b"\x00" in value:
                    raise Bad("field-value-nul")
                if b"\r" in value or b"\n" in value:
                    raise May()
                headers.append((name.lower(), value))
                if len(headers) > 500:
                    raise May()
            # §6.3 message body length
            cls = [v for k, v in headers if k == b"content-length"]
            tes = [v for k, v in headers if k == b"transfer-encoding"]
            if tes and cls:
                raise Bad("te-identity" if all(t.strip().lower() == b"identity" for t in tes) else "cl+te")
            body = b""
            if tes:
                codings = [t.strip(b" \t").lower() for v in tes for t in v.split(b",")]
                if codings == [b"chunked"] and len(tes) == 1 and tes[0].lower() == b"chunked":
                    body, pos = _chunked(stream, pos)
                elif len(tes) > 1 and all(c == b"chunked" for c in codings):
                    raise Bad("te-repeated")       # chunked applied twice: MUST NOT, and not decodable here
                elif codings and codings[-1] == b"chunked" and all(_token(c.split(b";")[0].strip()) for c in codings):
                    raise May()                    # other codings before chunked: 501/400 are both fine, accepting is not checked
                else:
                    raise Bad("te-identity" if b"identity" in codings and all(c in (b"identity", b"chunked") for c in codings)
                              else "te-unsupported")
            elif cls:
                if len(cls) > 1:
                    raise Bad("cl-repeated")
                v = cls[0]
                if not re.fullmatch(rb"[0-9]+", v):
                    if re.fullmatch(rb"[0-9]+(\s*,\s*[0-9]+)+", v):
                        raise May()
                    raise Bad("cl-nonnumeric")
                k = int(v) if len(v) <= 4300 else None
                if k is None:
                    raise Bad("cl-digits")          # a valid (absurd) length: must be refused, not crash
                if n - pos < k:
                    raise EOFError
                body = stream[pos:pos + k]
                pos += k
            out.append(("req", method, target, version, headers, body, stream[start:pos], start, pos))
        except Bad as e:
            out.append(("bad", e.key))
            break
        except May:
            out.append(("may",))
            break
        except EOFError:
            out.append(("more",))
            break
    return [o for o in out if o[0] != "skip"]


def _chunked(s, pos):
    body = b""
    total_trailer = 0
    while True:
        eol = s.find(b"\r\n", pos)
        if eol < 0:
            if len(s) - pos > 1024:
                raise Bad("chunk-size")
            raise EOFError
        line = s[pos:eol]
        if len(line) >= 1024:
            raise May()
        size, _, ext = line.partition(b";")
        if not size or any(c not in HEXD for c in size):
            raise Bad("chunk-size")
        if any(c in (0x0A, 0x0D) or c < 0x09 or (0x09 < c < 0x20) or c == 0x7F for c in ext):
            raise Bad("chunk-ext")
        if b"\\" in ext:
            raise May()
        k = int(size, 16)
        pos = eol + 2
        if k == 0:
            break
        if len(s) - pos < k:
            raise EOFError
        body += s[pos:pos + k]
        pos += k
        if len(s) - pos < 2:
            raise EOFError
        if s[pos:pos + 2] != b"\r\n":
            raise Bad("chunk-crlf")
        pos += 2
    while True:   # trailer section
        eol = s.find(b"\r\n", pos)
        if eol < 0:
            if len(s) - pos + total_trailer > 65000:
                raise May()
            raise EOFError
        line = s[pos:eol]
        pos = eol + 2
        if line == b"":
            return body, pos
        total_trailer += len(line) + 2
        if total_trailer > 65000:
            raise May()


# ---------------------------------------------------------------------------------------------

_W = lambda s: s.encode().hex()
SCRIPT = [[0, 0, [_W("ok")]]]


def _case(stream, feats=()):
    return {"stream": H.hx(stream), "feats": sorted(feats)}


def corpus():
    cs = [
        _case(b"GET /\x7f HTTP/1.1\r\n\r\n", ["target7f"]),
        _case(b"GET /\xb0 HTTP/1.1\r\n\r\n", ["targetb0"]),
        _case(b"GET /\xb1 HTTP/1.1\r\n\r\n", ["targetb1"]),
        _case(b"POST / HTTP/1.1\r\nContent-Length: " + b"0" * 4300 + b"3\r\n\r\nabc", ["cl4301"]),
        _case(b"POST / HTTP/1.1\r\nTransfer-Encoding: identity\r\nContent-Length: 3\r\n\r\nabcGET /x HTTP/1.1\r\n\r\n", ["te-identity"]),
        _case(b"POST / HTTP/1.1\r\nTransfer-Encoding: identity\r\n\r\nGET /x HTTP/1.1\r\n\r\n", ["te-identity"]),
        _case(b"POST / HTTP/1.1\r\nContent-Length: 3\r\nTransfer-Encoding: chunked\r\n\r\n3\r\nabc\r\n0\r\n\r\n", ["cl+te"]),
        _case(b"POST / HTTP/1.1\r\nTransfer-Encoding: chunked\r\n\r\n5\r\nGET /\r\n0\r\n\r\nGET /real HTTP/1.1\r\n\r\n", ["smuggle"]),
        _case(b"POST / HTTP/1.1\r\nContent-Length: 18\r\n\r\nGET /x HTTP/1.1\r\n\r\nGET /y HTTP/1.1\r\n\r\n", ["smuggle"]),
        _case(b"GET / HTTP/1.1\r\nContent-Length: 1\r\nContent-Length: 1\r\n\r\na", ["dupcl"]),
        # an invalid field line followed by a line over LineReceiver's limit: the connection is dropped without a 400 (limits: `may`)
        _case(b"GET / HTTP/1.1\r\nNoColon\r\n" + b"X" * 16385 + b"\r\n\r\n", ["badhdr+longline"]),
        _case(b"GET / HTTP/1.1\r\nNoColon\r\n" + b"X" * 16384 + b"\r\n\r\n", ["badhdr+longline"]),
        # the examples of TwistedProps/C19.lean
        _case(b"POST /a HTTP/1.1\r\nContent-Length: 19\r\n\r\nGET /x HTTP/1.1\r\n\r\nPOST /b HTTP/1.1\r\nTransfer-Encoding: chunked\r\n\r\n"
              b"3\r\nabc\r\n0\r\n\r\nGET /c HTTP/1.1\r\nContent-Length: x\r\n\r\n", ["smuggle", "lean-example"]),
    ]
    # one stream per rejection class of the reference (after a valid pipelined request), so that every class of
    # TwistedProps.C19.bad_framing_gets_400_and_stop is exercised on the real server on every run
    ok = b"GET /ok HTTP/1.1\r\nHost: h\r\n\r\n"
    te = b"POST / HTTP/1.1\r\nTransfer-Encoding: chunked\r\n\r\n"
    for key, bad in [
        ("request-line", b"GET /\r\n\r\n"), ("method", b"G(T / HTTP/1.1\r\n\r\n"), ("target-byte", b"GET /a\x7fb HTTP/1.1\r\n\r\n"),
        ("version", b"GET / HTTP/1.x\r\n\r\n"), ("field-line", b"GET / HTTP/1.1\r\nNoColon\r\n\r\n"),
        ("field-name", b"GET / HTTP/1.1\r\nBad Name: v\r\n\r\n"), ("field-value-nul", b"GET / HTTP/1.1\r\nX: a\x00b\r\n\r\n"),
        ("cl+te", b"POST / HTTP/1.1\r\nTransfer-Encoding: chunked\r\nContent-Length: 3\r\n\r\n3\r\nabc\r\n0\r\n\r\n"),
        ("te-repeated", b"POST / HTTP/1.1\r\nTransfer-Encoding: chunked\r\nTransfer-Encoding: chunked\r\n\r\n0\r\n\r\n"),
        ("te-unsupported", b"POST / HTTP/1.1\r\nTransfer-Encoding: gzip\r\n\r\n"),
        ("cl-repeated", b"POST / HTTP/1.1\r\nContent-Length: 1\r\nContent-Length: 2\r\n\r\nab"),
        ("cl-nonnumeric", b"POST / HTTP/1.1\r\nContent-Length: +1\r\n\r\na"),
        ("cl-digits", b"POST / HTTP/1.1\r\nContent-Length: " + b"0" * 4300 + b"1\r\n\r\na"),
        ("chunk-size", te + b"g\r\nabc\r\n0\r\n\r\n"), ("chunk-ext", te + b"3;a\x01\r\nabc\r\n0\r\n\r\n"),
        ("chunk-crlf", te + b"3\r\nabcXY0\r\n\r\n"),
    ]:
        cs.append(_case(ok + bad + b"GET /after HTTP/1.1\r\n\r\n", ["class-" + key]))
        cs.append(_case(bad + b"GET /after HTTP/1.1\r\n\r\n", ["class-" + key]))
    for b in (0x00, 0x09, 0x20, 0x21, 0x7e, 0x80, 0xff):
        cs.append(_case(b"GET /" + bytes([b]) + b"z HTTP/1.1\r\n\r\n", ["target%02x" % b]))
    return cs


def generate(rng, tier):
    n = 900 if tier == "quick" else 20000
    for i in range(n):
        r = rng.random()
        if r < 0.25:
            # every byte value in the target
            b = rng.randrange(256)
            t = b"/" + bytes([b]) + rng.choice([b"", b"x", b"?q"])
            yield _case(rng.choice(H.METHODS) + b" " + t + b" HTTP/1.1\r\nHost: h\r\n\r\n" + (b"GET /n HTTP/1.1\r\n\r\n" if rng.random() < 0.5 else b""),
                        ["target"])
        elif r < 0.35:
            b = rng.randrange(256)
            where = rng.choice(["name", "value", "method", "version"])
            if where == "name":
                s = b"GET / HTTP/1.1\r\nX" + bytes([b]) + b"Y: v\r\n\r\n"
            elif where == "value":
                s = b"GET / HTTP/1.1\r\nX: a" + bytes([b]) + b"b\r\n\r\n"
            elif where == "method":
                s = b"G" + bytes([b]) + b"T / HTTP/1.1\r\n\r\n"
            else:
                s = b"GET / HTTP/1." + bytes([b]) + b"\r\n\r\n"
            yield _case(s + b"GET /n HTTP/1.1\r\n\r\n", ["byte-" + where])
        else:
            stream, feats = H.gen_stream(rng, malformed=0.1 if i % 2 else 0.4)
            yield _case(stream, feats)


def _ops(c):
    s = H.unhx(c["stream"])
    return H.ops_for(s, [])


def model_line(c):
    return "run " + H.enc_script(SCRIPT) + " " + H.enc_ops(_ops(c))


def enc_ref(ref):
    """the verdict of the reference parser, in the encoding of lean/TwistedModel/Drv/C19.lean"""
    msgs = []
    for item in ref:
        if item[0] != "req":
            break
        _, m, t, v, hs, body, raw, start, stop = item
        h = "|".join(H.hx(n) + "=" + H.hx(x) for n, x in hs) if hs else "."
        msgs.append("/".join([H.hx(m), H.hx(t), H.hx(v), h, H.hx(body)]) + f"@{start}+{stop}")
    last = ref[-1] if ref else ("req",)
    stop = {"req": "done", "more": "more", "may": "may"}.get(last[0]) or "bad:" + last[1]
    return "ref=" + (";".join(msgs) if msgs else "none") + " stop=" + stop


def run_impl(c):
    # the real server's observables, then the Python reference's reading of the same bytes: the driver line carries the
    # Lean reference's reading in the same place, so the string comparison of the tie also compares the two references
    return H.enc_state(H.run_ops(SCRIPT, _ops(c))) + " " + enc_ref(ref_parse(H.unhx(c["stream"])))


def _lean_ref(model_out):
    """[(method, target, body, start, stop)] and the verdict, from the driver's line"""
    if " ref=" not in model_out or " stop=" not in model_out:
        return None
    part = model_out.split(" ref=", 1)[1]
    msgs, stop = part.split(" stop=", 1)
    out = []
    if msgs != "none":
        for m in msgs.split(";"):
            fields, span = m.rsplit("@", 1)
            meth, target, _ver, _hs, body = fields.split("/")
            a, b = span.split("+")
            out.append((H.unhx(meth), H.unhx(target), H.unhx(body), int(a), int(b)))
    return out, stop


def compare(c, impl_out, model_out):
    """tie (server observables) + Lean reference = Python reference (both inside the string), and h11 reads every
    message the Lean reference found — the octets [start, stop) of the stream — as the same method / target / body"""
    if impl_out != model_out:
        return False
    lr = _lean_ref(model_out)
    if lr is None:
        return False
    stream = H.unhx(c["stream"])
    for meth, target, body, a, b in lr[0]:
        if _h11_agrees(stream[a:b], meth, target, None, body) is False:
            return False
    return True


def _h11_agrees(raw, method, target, headers, body):
    """h11 (lenient about some things, strict about others) parses the same single message the same way; None = h11 refuses it"""
    if h11 is None:
        return True
    try:
        conn = h11.Connection(h11.SERVER, max_incomplete_event_size=200000)
        conn.receive_data(raw)
        ev = conn.next_event()
        if not isinstance(ev, h11.Request):
            return None
        got = b""
        while True:
            e = conn.next_event()
            if isinstance(e, h11.Data):
                got += bytes(e.data)
            elif isinstance(e, h11.EndOfMessage):
                break
            else:
                return None
        return (bytes(ev.method) == method and bytes(ev.target) == target and got == body)
    except Exception:
        return None


def oracle(c, out):
    stream = H.unhx(c["stream"])
    st = H.run_ops(SCRIPT, _ops(c))
    ref = ref_parse(stream)
    reqs = st["reqs"]
    n400 = st["written"].count(b"HTTP/1.1 400 Bad Request\r\n\r\n")
    if st["raised"]:
        return {"key": "exception", "detail": f"{st['raised']} escaped dataReceived; reference: {ref[-1][:2] if ref else None}"}
    for k, item in enumerate(ref):
        if item[0] == "req":
            _, m, t, v, hs, body, raw, _start, _stop = item
            if k >= len(reqs):
                if st["closed"] and k > 0 and _closing(ref[k - 1]):
                    return None          # the server closed after the previous response: persistence, not framing
                return {"key": "rejects-valid", "detail": f"message {k} {m!r} {t!r} valid for the reference, server delivered {len(reqs)} (400s: {n400})"}
            rm, rt, rv, rhs, rbody = reqs[k]
            if (rm, rt, rv) != (m, t, v):
                return {"key": "request-line", "detail": f"message {k}: server {rm!r} {rt!r} {rv!r}, reference {m!r} {t!r} {v!r}"}
            if rbody != body:
                return {"key": "body", "detail": f"message {k}: server body {rbody[:60]!r} reference {body[:60]!r}"}
            got = sorted((n.lower(), x) for n, vs in rhs for x in vs)
            if got != sorted(hs):
                return {"key": "headers", "detail": f"message {k}: server {got[:6]} reference {sorted(hs)[:6]}"}
            if _h11_agrees(raw, m, t, hs, body) is False:
                return {"key": "h11-disagrees", "detail": f"message {k}: h11 parses {raw[:80]!r} differently from server and reference"}
        elif item[0] == "bad":
            if len(reqs) > k:
                key = item[1] if item[1] in ("target-byte", "te-identity") else "accepts-invalid"
                return {"key": key, "detail": f"message {k} is invalid ({item[1]}) but was handed to the application: "
                                              f"{reqs[k][0]!r} {reqs[k][1]!r} body {reqs[k][4][:40]!r}; {len(reqs)} delivered in all"}
            if _closing_before(ref, k) and st["closed"] and n400 == 0:
                return None
            if n400 != 1 or not st["closed"]:
                return {"key": "no-400", "detail": f"message {k} invalid ({item[1]}): 400s written {n400}, closed {st['closed']}"}
            if not st["written"].endswith(b"HTTP/1.1 400 Bad Request\r\n\r\n"):
                return {"key": "after-400", "detail": f"message {k} invalid ({item[1]}): bytes written after the 400"}
        elif item[0] == "more":
            if len(reqs) > k:
                return {"key": "early-request", "detail": f"message {k} is incomplete for the reference but {len(reqs)} requests were delivered"}
        else:   # may
            return None
    if ref and ref[-1][0] == "req" and len(reqs) > len(ref):
        return {"key": "extra-request", "detail": f"reference found {len(ref)} messages, server delivered {len(reqs)}"}
    return None


def _closing(item):
    if item[0] != "req":
        return False
    _, m, t, v, hs, body, raw, _start, _stop = item
    return v == b"HTTP/1.0" or any(k == b"connection" and b"close" in x.lower() for k, x in hs)


def _closing_before(ref, k):
    return any(_closing(r) for r in ref[:k])


def tag(c, out):
    ref = ref_parse(H.unhx(c["stream"]))
    verdict = ",".join(i[0] if i[0] != "bad" else "bad:" + i[1] for i in ref[:5])
    closed = out[7:8] if out.startswith("closed=") else "?"
    nreq = 0 if "reqs=none" in out else out.split("reqs=")[1].count(";") + 1 if "reqs=" in out else -1
    return f"{verdict}|c{closed}|r{min(nreq, 4)}|" + ",".join(f for f in c.get("feats", []) if f.startswith(("byte-", "target")))[:20]


def shrink(c):
    s = H.unhx(c["stream"])
    n = len(s)
    for size in (n // 2, n // 4, 16, 4, 1):
        if size < 1:
            continue
        for i in range(0, n, size):
            yield dict(c, stream=H.hx(s[:i] + s[i + size:]))
