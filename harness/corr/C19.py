"""C19 — HTTP/1.1 server framing follows RFC 9112: real HTTPChannel vs the Lean model (tie), and an oracle that
judges the real server against an independent, spec-shaped reference parser written here from RFC 9112/9110
(+ h11 on the requests both accept)."""
import re

from corr import _httpchan as H

try:
    import h11
except Exception:   # pragma: no cover
    h11 = None

HEADLINE = "TwistedProps.C19.body_is_rfc_body"
RULE = ("pipelined request streams from the grammar with framing headers in every combination (Content-Length / Transfer-Encoding, "
        "duplicates, case, whitespace, obs-fold, non-numeric and huge lengths, unknown codings), request lines with every byte value "
        "in the target, bad methods/versions/separators, header-name and value bytes over 0..255, chunked bodies with size/extension/"
        "CRLF mutations; class `octet` (deterministic, not sampled): every octet value 0..255 at the START, in the MIDDLE and at the "
        "END of every protocol element (method, target in origin/absolute/asterisk/authority form, version 1.1/1.0, field name, field "
        "value, the names and values of Content-Length and Transfer-Encoding, chunk-size, chunk-ext name and quoted value, last-chunk, "
        "trailer line) and in place of either half of every line terminator (request line, field line, end of head, chunk-size line, "
        "after chunk data, last-chunk line, end of trailers), each followed (and one in three preceded) by a valid pipelined request "
        "- quick tier: the nine core elements completely, the others one octet value in eight, rotating with the seed; thorough: all; "
        "class `terminator`: LF / CR / CR CR LF / LF CR / LF LF / nothing / CR X / NUL CR LF instead of CR LF for every kind of line; "
        "class `sizes`: chunk-size, last-chunk and Content-Length numerals with up to 1025 / 4300 leading zeros, chunk and "
        "Content-Length bodies of 9..16385 octets (thorough: ..100001, past Request.gotLength's in-memory threshold), a body holding "
        "40 requests; class `spelling`: VALID framing with header names and the coding name in random letter case, optional "
        "whitespace, every method of the grammar; class `segmented`: streams of all these kinds cut into deliveries (one CR|LF, every "
        "CR|LF, around line terminators, octet by octet, random cuts) - run through the real channel and the Lean model delivery by "
        "delivery; judged by the reference parser (message by message: same request and body, next message starts where the "
        "reference says, 400 + close + nothing further on the first invalid message); every case also runs the Lean reference parser "
        "(driver) against the Python one (verbatim: messages, offsets, verdict) and h11 on each message it found; every case outside "
        "class `octet` is run on two fresh connections of the same process (run_impl, then the oracle), which exposes state kept "
        "across connections (header-name cache); distinct = (reference verdicts, server outcome)")
ASSUMES = [
    "the resource answers every request at once (so that pipelined requests are all parsed) — hypothesis `AtOnce app` of the theorems",
    "the whole-stream theorems are stated for the stream arriving in ONE delivery; the check also cuts streams into deliveries (class "
    "`segmented`, model-compared and oracle-judged); the theorems for an arbitrary list of deliveries are `*_segmented_partial`: they "
    "assume `SegInvariant` = the conclusion of TwistedProps.C18.http_seg_invariant (proved in C18 without hypotheses; the two "
    "developments cannot be imported together because of a duplicated equation lemma)",
    "where RFC 9110/9112 lets a recipient either reject or tolerate (obs-fold, bare CR/LF inside a value, other CTLs in a value, "
    "HTTP versions other than 1.0/1.1, list-valued Content-Length, codings other than a single 'chunked', size limits incl. a field "
    "line followed by an over-long line) both outcomes pass (`may` in both references; the theorems claim nothing there)",
    "persistence (Connection tokens) is not part of the property: the reference stops where the server closed after a response; the "
    "theorems say the same through `checkPersistence` of the request as handed over",
    "known finding te-identity: the 400 theorem excludes the reference's class `te-identity` (counterexamples kept in Lean)",
    "not proved (oracle only): a stream that ends inside a message hands over nothing for the incomplete message (key early-request)",
]
TRUSTED = ["the reference parser in this file (read against RFC 9112 §2.2, §3, §5, §6.1, §6.3, §7.1 and RFC 9110 §5.1, §5.5, §5.6.2)",
           "the Lean reference parser lean/TwistedModel/Http/Rfc9112Request.lean (the object of the theorems; compared verbatim with the "
           "Python one and with h11 on every case)",
           "h11 as a second opinion on requests the references accept",
           "twisted.internet.testing.StringTransport(lenient=True); server.version / datetimeToString patched to constants"]
MANIFEST = {
    "text": "Lean theorems (TwistedProps/C19.lean) over the channel model and an independent RFC 9112 reference parser in Lean, for "
            "every answering-at-once application and every byte stream (one delivery): body_is_rfc_body (request k handed over has "
            "exactly the request line and body of the reference's message k, on the whole prefix the reference accepts), "
            "no_request_from_body_bytes (request k+1 is what the reference reads at the offset where message k stops), "
            "bad_framing_gets_400_and_stop (one theorem over all 16 rejection classes except te-identity: closing, 400 + loseConnection "
            "are the last things done, one request per valid message, nothing later is processed), no_extra_request_partial (PARTIAL: "
            "no extra request at end of stream / at an invalid message; the case of a stream ending inside a message is oracle-only); "
            "te-identity counterexamples at header and stream level; header-level theorems of round 1 kept; the same three whole-stream "
            "statements for any list of deliveries given C18's segmentation invariant (`*_segmented_partial`). Model tied to http.py by "
            "differential runs; the Lean reference tied verbatim to the Python reference and to h11 on every case; oracle = Python "
            "reference + h11 on the real server's behaviour. Generator audited by 14 source mutants (harness/mutants/C19): every octet "
            "value at the start/middle/end of every protocol element and line terminator, numerals and bodies at unusual sizes, "
            "letter-case spellings, segmented deliveries.",
    "note": "trusts Lean kernel, the hand-written channel model (differentially tied), the Lean/Python reference parsers (tied to each "
            "other and to h11), h11",
    "technique": "Lean 4 proof (whole-stream simulation of the channel model against a reference parser) + differential tie + "
                 "reference-parser oracle",
    "design_ref": "DESIGN.md §7 C19",
}

TCHAR = set(b"!#$%&'*+-.^_`|~0123456789ABCDEFGHIJKLMNOPQRSTUVWXYZabcdefghijklmnopqrstuvwxyz")
HEXD = set(b"0123456789abcdefABCDEF")


def _token(b):
    return len(b) > 0 and all(c in TCHAR for c in b)


class Bad(Exception):
    def __init__(self, key):
        self.key = key


class May(Exception):
    """the RFC lets the recipient reject or tolerate; no verdict from here on"""


def ref_parse(stream):
    """→ list of ("req", method, target, version, [(lower-name, value)], body, raw, start, stop) | ("bad", key) | ("may",) | ("more",)
    One entry per message, in order; stops at the first non-"req"."""
    out = []
    pos = 0
    n = len(stream)
    first = True
    while pos < n:
        try:
            # RFC 9112 §2.2: a server SHOULD ignore at least one empty line received prior to the request-line
            if stream.startswith(b"\r\n", pos):
                if out and out[-1][0] == "skip":
                    raise May()          # a second empty line: the RFC says "at least one"; the server rejects it
                out.append(("skip",))
                pos += 2
                continue
            start = pos
            eol = stream.find(b"\r\n", pos)
            if eol < 0:
                if n - pos >= 16384:
                    raise May()
                out.append(("more",))
                break
            line = stream[pos:eol]
            if len(line) > 16384:
                raise May()
            pos = eol + 2
            # request-line = method SP request-target SP HTTP-version
            parts = line.split(b" ")
            if len(parts) != 3:
                raise Bad("request-line")
            method, target, version = parts
            if not _token(method):
                raise Bad("method")
            if not target or any(c < 0x21 or c > 0x7E for c in target):
                raise Bad("target-byte")
            if not re.fullmatch(rb"HTTP/[0-9]\.[0-9]", version):
                raise Bad("version")
            if version not in (b"HTTP/1.0", b"HTTP/1.1"):
                raise May()
            # field lines
            headers = []
            size = len(line)
            while True:
                eol = stream.find(b"\r\n", pos)
                if eol < 0:
                    if n - pos >= 16384:
                        raise May()
                    raise EOFError
                hl = stream[pos:eol]
                pos = eol + 2
                size += len(hl)
                if size > 16384 or len(hl) > 16384:
                    raise May()
                if hl == b"":
                    break
                if hl[:1] in (b" ", b"\t"):
                    raise May()          # obs-fold: reject or replace by SP
                if stream.find(b"\r\n", pos) < 0:
                    # a field line can only be judged once the next line is there (it may be continued by an obs-fold)
                    raise EOFError
                if stream.find(b"\r\n", pos) - pos > 16384:
                    # the line after it is over the line limit: a recipient enforcing the limit (LineReceiver drops the
                    # connection, no 400) does so before it judges this field line
                    raise May()
                if stream[pos:pos + 1] in (b" ", b"\t"):
                    raise May()          # this field line is continued by an obs-fold
                if b":" not in hl:
                    raise Bad("field-line")
                name, value = hl.split(b":", 1)
                if not _token(name):
                    raise Bad("field-name")   # includes whitespace between name and colon (§5.1: MUST reject)
                value = value.strip(b" \t")
                if b"\x00" in value:
                    raise Bad("field-value-nul")
                if b"\r" in value or b"\n" in value:
                    raise May()
                headers.append((name.lower(), value))
                if len(headers) > 500:
                    raise May()
            # §6.3 message body length
            cls = [v for k, v in headers if k == b"content-length"]
            tes = [v for k, v in headers if k == b"transfer-encoding"]
            if tes and cls:
                raise Bad("te-identity" if all(t.strip().lower() == b"identity" for t in tes) else "cl+te")
            body = b""
            if tes:
                codings = [t.strip(b" \t").lower() for v in tes for t in v.split(b",")]
                if codings == [b"chunked"] and len(tes) == 1 and tes[0].lower() == b"chunked":
                    body, pos = _chunked(stream, pos)
                elif len(tes) > 1 and all(c == b"chunked" for c in codings):
                    raise Bad("te-repeated")       # chunked applied twice: MUST NOT, and not decodable here
                elif codings and codings[-1] == b"chunked" and all(_token(c.split(b";")[0].strip()) for c in codings):
                    raise May()                    # other codings before chunked: 501/400 are both fine, accepting is not checked
                else:
                    raise Bad("te-identity" if b"identity" in codings and all(c in (b"identity", b"chunked") for c in codings)
                              else "te-unsupported")
            elif cls:
                if len(cls) > 1:
                    raise Bad("cl-repeated")
                v = cls[0]
                if not re.fullmatch(rb"[0-9]+", v):
                    if re.fullmatch(rb"[0-9]+(\s*,\s*[0-9]+)+", v):
                        raise May()
                    raise Bad("cl-nonnumeric")
                k = int(v) if len(v) <= 4300 else None
                if k is None:
                    raise Bad("cl-digits")          # a valid (absurd) length: must be refused, not crash
                if n - pos < k:
                    raise EOFError
                body = stream[pos:pos + k]
                pos += k
            out.append(("req", method, target, version, headers, body, stream[start:pos], start, pos))
        except Bad as e:
            out.append(("bad", e.key))
            break
        except May:
            out.append(("may",))
            break
        except EOFError:
            out.append(("more",))
            break
    return [o for o in out if o[0] != "skip"]


def _chunked(s, pos):
    body = b""
    total_trailer = 0
    while True:
        eol = s.find(b"\r\n", pos)
        if eol < 0:
            if len(s) - pos > 1024:
                raise Bad("chunk-size")
            raise EOFError
        line = s[pos:eol]
        if len(line) >= 1024:
            raise May()
        size, _, ext = line.partition(b";")
        if not size or any(c not in HEXD for c in size):
            raise Bad("chunk-size")
        if any(c in (0x0A, 0x0D) or c < 0x09 or (0x09 < c < 0x20) or c == 0x7F for c in ext):
            raise Bad("chunk-ext")
        if b"\\" in ext:
            raise May()
        k = int(size, 16)
        pos = eol + 2
        if k == 0:
            break
        if len(s) - pos < k:
            raise EOFError
        body += s[pos:pos + k]
        pos += k
        if len(s) - pos < 2:
            raise EOFError
        if s[pos:pos + 2] != b"\r\n":
            raise Bad("chunk-crlf")
        pos += 2
    while True:   # trailer section
        eol = s.find(b"\r\n", pos)
        if eol < 0:
            if len(s) - pos + total_trailer > 65000:
                raise May()
            raise EOFError
        line = s[pos:eol]
        pos = eol + 2
        if line == b"":
            return body, pos
        total_trailer += len(line) + 2
        if total_trailer > 65000:
            raise May()


# ---------------------------------------------------------------------------------------------

_W = lambda s: s.encode().hex()
SCRIPT = [[0, 0, [_W("ok")]]]


def _case(stream, feats=(), cuts=None):
    c = {"stream": H.hx(stream), "feats": sorted(feats)}
    if cuts:
        c["cuts"] = sorted(set(int(x) for x in cuts if 0 < x < len(stream)))
    return c


def corpus():
    cs = [
        _case(b"GET /\x7f HTTP/1.1\r\n\r\n", ["target7f"]),
        _case(b"GET /\xb0 HTTP/1.1\r\n\r\n", ["targetb0"]),
        _case(b"GET /\xb1 HTTP/1.1\r\n\r\n", ["targetb1"]),
        _case(b"POST / HTTP/1.1\r\nContent-Length: " + b"0" * 4300 + b"3\r\n\r\nabc", ["cl4301"]),
        _case(b"POST / HTTP/1.1\r\nTransfer-Encoding: identity\r\nContent-Length: 3\r\n\r\nabcGET /x HTTP/1.1\r\n\r\n", ["te-identity"]),
        _case(b"POST / HTTP/1.1\r\nTransfer-Encoding: identity\r\n\r\nGET /x HTTP/1.1\r\n\r\n", ["te-identity"]),
        _case(b"POST / HTTP/1.1\r\nContent-Length: 3\r\nTransfer-Encoding: chunked\r\n\r\n3\r\nabc\r\n0\r\n\r\n", ["cl+te"]),
        _case(b"POST / HTTP/1.1\r\nTransfer-Encoding: chunked\r\n\r\n5\r\nGET /\r\n0\r\n\r\nGET /real HTTP/1.1\r\n\r\n", ["smuggle"]),
        _case(b"POST / HTTP/1.1\r\nContent-Length: 18\r\n\r\nGET /x HTTP/1.1\r\n\r\nGET /y HTTP/1.1\r\n\r\n", ["smuggle"]),
        _case(b"GET / HTTP/1.1\r\nContent-Length: 1\r\nContent-Length: 1\r\n\r\na", ["dupcl"]),
        # an invalid field line followed by a line over LineReceiver's limit: the connection is dropped without a 400 (limits: `may`)
        _case(b"GET / HTTP/1.1\r\nNoColon\r\n" + b"X" * 16385 + b"\r\n\r\n", ["badhdr+longline"]),
        _case(b"GET / HTTP/1.1\r\nNoColon\r\n" + b"X" * 16384 + b"\r\n\r\n", ["badhdr+longline"]),
        # the examples of TwistedProps/C19.lean
        _case(b"POST /a HTTP/1.1\r\nContent-Length: 19\r\n\r\nGET /x HTTP/1.1\r\n\r\nPOST /b HTTP/1.1\r\nTransfer-Encoding: chunked\r\n\r\n"
              b"3\r\nabc\r\n0\r\n\r\nGET /c HTTP/1.1\r\nContent-Length: x\r\n\r\n", ["smuggle", "lean-example"]),
    ]
    # one stream per rejection class of the reference (after a valid pipelined request), so that every class of
    # TwistedProps.C19.bad_framing_gets_400_and_stop is exercised on the real server on every run
    ok = b"GET /ok HTTP/1.1\r\nHost: h\r\n\r\n"
    te = b"POST / HTTP/1.1\r\nTransfer-Encoding: chunked\r\n\r\n"
    for key, bad in [
        ("request-line", b"GET /\r\n\r\n"), ("method", b"G(T / HTTP/1.1\r\n\r\n"), ("target-byte", b"GET /a\x7fb HTTP/1.1\r\n\r\n"),
        ("version", b"GET / HTTP/1.x\r\n\r\n"), ("field-line", b"GET / HTTP/1.1\r\nNoColon\r\n\r\n"),
        ("field-name", b"GET / HTTP/1.1\r\nBad Name: v\r\n\r\n"), ("field-value-nul", b"GET / HTTP/1.1\r\nX: a\x00b\r\n\r\n"),
        ("cl+te", b"POST / HTTP/1.1\r\nTransfer-Encoding: chunked\r\nContent-Length: 3\r\n\r\n3\r\nabc\r\n0\r\n\r\n"),
        ("te-repeated", b"POST / HTTP/1.1\r\nTransfer-Encoding: chunked\r\nTransfer-Encoding: chunked\r\n\r\n0\r\n\r\n"),
        ("te-unsupported", b"POST / HTTP/1.1\r\nTransfer-Encoding: gzip\r\n\r\n"),
        ("cl-repeated", b"POST / HTTP/1.1\r\nContent-Length: 1\r\nContent-Length: 2\r\n\r\nab"),
        ("cl-nonnumeric", b"POST / HTTP/1.1\r\nContent-Length: +1\r\n\r\na"),
        ("cl-digits", b"POST / HTTP/1.1\r\nContent-Length: " + b"0" * 4300 + b"1\r\n\r\na"),
        ("chunk-size", te + b"g\r\nabc\r\n0\r\n\r\n"), ("chunk-ext", te + b"3;a\x01\r\nabc\r\n0\r\n\r\n"),
        ("chunk-crlf", te + b"3\r\nabcXY0\r\n\r\n"),
    ]:
        cs.append(_case(ok + bad + b"GET /after HTTP/1.1\r\n\r\n", ["class-" + key]))
        cs.append(_case(bad + b"GET /after HTTP/1.1\r\n\r\n", ["class-" + key]))
    for b in (0x00, 0x09, 0x20, 0x21, 0x7e, 0x80, 0xff):
        cs.append(_case(b"GET /" + bytes([b]) + b"z HTTP/1.1\r\n\r\n", ["target%02x" % b]))
    # white-box mutation audit (harness/mutants/C19): one witness per former blind spot, then the fixed classes
    te = b"POST /c HTTP/1.1\r\nTransfer-Encoding: chunked\r\n\r\n"
    after = b"GET /after HTTP/1.1\r\n\r\n"
    cs += [
        _case(b"GET http://h/p\x7f HTTP/1.1\r\n\r\n" + after, ["m01", "absolute-form+bad-octet"]),
        _case(b"GET / HTTP/1.1\n\r\nHost: h\r\n\r\n" + after, ["m02", "version+LF"]),
        _case(b"GET / HTTP/1.1\r\nX\x7fY: v\r\n\r\n" + after, ["m03", "DEL-in-name"]),
        _case(b"G\x7fT / HTTP/1.1\r\n\r\n" + after, ["m03", "DEL-in-method"]),
        _case(b"POST / HTTP/1.1\r\nTransfer-Encoding: chunked\x0b\r\n\r\n3\r\nabc\r\n0\r\n\r\n" + after, ["m05", "coding+VT"]),
        _case(b"POST / HTTP/1.1\r\ntransfer-ENCODING: chunkeD\r\n\r\n3\r\nabc\r\n0\r\n\r\n" + after, ["m06", "spelling"]),
        _case(te + b"3;a\x7f\r\nabc\r\n0\r\n\r\n" + after, ["m07", "DEL-in-chunk-ext"]),
        _case(te + b"3\r\nabc\n0\r\n\r\n" + after, ["m08", "LF-after-chunk-data"]),
        _case(te + b"3\r\nabc\r\n0\r\n\r\n" + after, ["m09", "segmented"], cuts=[len(te) + 2]),
        _case(te + b"000000003\r\nabc\r\n0\r\n\r\n" + after, ["m12", "chunk-size-zeros"]),
    ]
    return cs + terminator_cases() + size_cases()



# ---------------------------------------------------------------------------------------------
# class "octet": every octet value at the start / in the middle / at the end of every protocol element, and in
# place of each half of every line terminator.  Deterministic and complete (no sampling): a check on one element
# that is off by ONE octet value (a forgotten delimiter, DEL, a trailing LF let through by a regex `$`, a strip()
# that eats VT/FF, ...) or that looks only at part of the element is met on every run.

_TE = b"POST /c HTTP/1.1\r\nTransfer-Encoding: chunked\r\n\r\n"
_AFTER = b"GET /after HTTP/1.1\r\n\r\n"
_OK = b"GET /ok HTTP/1.1\r\nHost: h\r\n\r\n"

# element -> (prefix, base value of the element, suffix); the stream is prefix + mutated(base) + suffix
ELEMENTS = {
    "method": (b"", b"GET", b" /m HTTP/1.1\r\nHost: h\r\n\r\n"),
    "target": (b"GET ", b"/ab", b" HTTP/1.1\r\n\r\n"),
    "target-abs": (b"GET ", b"http://h/p", b" HTTP/1.1\r\n\r\n"),
    "target-star": (b"OPTIONS ", b"*", b" HTTP/1.1\r\n\r\n"),
    "target-auth": (b"CONNECT ", b"h.example:80", b" HTTP/1.1\r\n\r\n"),
    "version": (b"GET /v ", b"HTTP/1.1", b"\r\nHost: h\r\n\r\n"),
    "version10": (b"GET /v ", b"HTTP/1.0", b"\r\n\r\n"),
    "name": (b"GET /n HTTP/1.1\r\n", b"X-Ab", b": v\r\n\r\n"),
    "value": (b"GET /w HTTP/1.1\r\nX-Ab: ", b"vw", b"\r\nHost: h\r\n\r\n"),
    "cl-name": (b"POST /l HTTP/1.1\r\n", b"Content-Length", b": 3\r\n\r\nabc"),
    "cl": (b"POST /l HTTP/1.1\r\nContent-Length: ", b"03", b"\r\n\r\nabc"),
    "te-name": (b"POST /c HTTP/1.1\r\n", b"Transfer-Encoding", b": chunked\r\n\r\n3\r\nabc\r\n0\r\n\r\n"),
    "te": (b"POST /c HTTP/1.1\r\nTransfer-Encoding: ", b"chunked", b"\r\n\r\n3\r\nabc\r\n0\r\n\r\n"),
    "chunk-size": (_TE, b"03", b"\r\nabc\r\n0\r\n\r\n"),
    "chunk-ext": (_TE + b"3;", b"ab", b"\r\nabc\r\n0\r\n\r\n"),
    "chunk-extval": (_TE + b"3;a=\"", b"q r", b"\"\r\nabc\r\n0\r\n\r\n"),
    "last-chunk": (_TE + b"3\r\nabc\r\n", b"0", b"\r\n\r\n"),
    "trailer": (_TE + b"3\r\nabc\r\n0\r\n", b"T: v", b"\r\n\r\n"),
}
# line terminators: (prefix, suffix) around the CR LF that is tampered with
TERMINATORS = {
    "eol-request-line": (b"GET /t HTTP/1.1", b"Host: h\r\n\r\n"),
    "eol-field": (b"GET /t HTTP/1.1\r\nHost: h", b"\r\n"),
    "eol-head": (b"GET /t HTTP/1.1\r\nHost: h\r\n", b""),
    "eol-chunk-size": (_TE + b"3", b"abc\r\n0\r\n\r\n"),
    "eol-chunk-data": (_TE + b"3\r\nabc", b"0\r\n\r\n"),
    "eol-last-chunk": (_TE + b"3\r\nabc\r\n0", b"\r\n"),
    "eol-trailer": (_TE + b"3\r\nabc\r\n0\r\n", b""),
}
POSITIONS = ("start", "mid", "end")


def _put(base, pos, octets):
    if pos == "start":
        return octets + base
    if pos == "end":
        return base + octets
    h = (len(base) + 1) // 2
    return base[:h] + octets + base[h:]


def octet_stream(elem, pos, b, lead=False):
    """the stream of the class `octet` for (element, position, octet value)"""
    o = bytes([b])
    if elem in ELEMENTS:
        pre, base, suf = ELEMENTS[elem]
        s = pre + _put(base, pos, o) + suf
    else:
        pre, suf = TERMINATORS[elem]
        s = pre + {"start": o + b"\n", "mid": b"\r" + o + b"\n", "end": b"\r" + o}[pos] + suf
    return (_OK if lead else b"") + s + _AFTER


def octet_cases(keep=None):
    """all (element, position, octet) triples, or those for which keep(element, position, octet) holds"""
    out = []
    i = 0
    for elem in list(ELEMENTS) + list(TERMINATORS):
        for pos in POSITIONS:
            for b in range(256):
                i += 1
                if keep is not None and not keep(elem, pos, b):
                    continue
                out.append(_case(octet_stream(elem, pos, b, lead=(i % 3 == 0)), ["octet", "octet-" + elem, pos]))
    return out


# class "terminator": a line terminator that is not CR LF, for every kind of line
def terminator_cases():
    out = []
    for elem, (pre, suf) in TERMINATORS.items():
        for how, t in (("lf", b"\n"), ("cr", b"\r"), ("crcrlf", b"\r\r\n"), ("lfcr", b"\n\r"), ("lflf", b"\n\n"),
                       ("crlflf", b"\r\n\n"), ("none", b""), ("crx", b"\rX"), ("nul", b"\x00\r\n")):
            out.append(_case(pre + t + suf + _AFTER, ["terminator", elem, how]))
            out.append(_case(_OK + pre + t + suf + _AFTER, ["terminator", elem, how]))
    return out


# class "sizes": legal-but-unusual numerals and lengths (leading zeros up to the line limits, multi-digit chunk sizes,
# bodies past the in-memory threshold of Request.gotLength, a Content-Length body that holds many pipelined requests)
def size_cases(big=False):
    out = []
    for z in (() if big else (1, 2, 4, 7, 8, 9, 15, 16, 17, 31, 32, 33, 64, 100, 255, 256, 500, 1000, 1019, 1020, 1021, 1022, 1023, 1024, 1025)):
        out.append(_case(_TE + b"0" * z + b"3\r\nabc\r\n0\r\n\r\n" + _AFTER, ["sizes", "chunk-zeros%d" % z]))
        out.append(_case(_TE + b"3\r\nabc\r\n" + b"0" * z + b"\r\n\r\n" + _AFTER, ["sizes", "last-zeros%d" % z]))
    for z in (() if big else (1, 2, 4, 8, 16, 19, 20, 21, 64, 100, 1000, 4296, 4297, 4298, 4299, 4300)):
        out.append(_case(b"POST /z HTTP/1.1\r\nContent-Length: " + b"0" * z + b"3\r\n\r\nabc" + _AFTER, ["sizes", "cl-zeros%d" % z]))
        out.append(_case(b"POST /z HTTP/1.1\r\nContent-Length: " + b"0" * z + b"\r\n\r\n" + _AFTER, ["sizes", "cl-zero%d" % z]))
    for n in ((65535, 65536, 65537, 99999, 100000, 100001) if big else (9, 10, 15, 16, 17, 255, 256, 257, 4095, 4096, 4097, 16383, 16384, 16385)):
        data = bytes((i * 7 + 13) % 251 for i in range(n))
        for size in (b"%x" % n, b"%X" % n):
            out.append(_case(_TE + size + b"\r\n" + data + b"\r\n0\r\n\r\n" + _AFTER, ["sizes", "chunk%d" % n]))
        out.append(_case(b"POST /b HTTP/1.1\r\nContent-Length: %d\r\n\r\n" % n + data + _AFTER, ["sizes", "cl%d" % n]))
    if big:
        return out
    hidden = b"".join(b"GET /hidden%d HTTP/1.1\r\n\r\n" % i for i in range(40))
    out.append(_case(b"POST /h HTTP/1.1\r\nContent-Length: %d\r\n\r\n" % len(hidden) + hidden + _AFTER, ["sizes", "smuggle"]))
    out.append(_case(_TE + b"%x\r\n" % len(hidden) + hidden + b"\r\n0\r\n\r\n" + _AFTER, ["sizes", "smuggle"]))
    return out


def _randcase(rng, word):
    return bytes(c ^ 0x20 if (65 <= c <= 90 or 97 <= c <= 122) and rng.random() < 0.5 else c for c in word)


def gen_spelling(rng):
    """class "spelling": framing header names and the coding name in random letter case, optional whitespace around the
    value, every method of the grammar (incl. the bodiless ones) with each framing; all of it is VALID framing"""
    m = rng.choice(H.METHODS)
    t = rng.choice(H.TARGETS)
    n = rng.choice([0, 1, 3, 7, 24])
    body = bytes(rng.choice(b"abc\r\n GET/HTP1.:0") for _ in range(n))
    if rng.random() < 0.3 and n >= 24:
        body = b"GET /hidden HTTP/1.1\r\n\r\n"
    ows = lambda: rng.choice([b"", b" ", b" ", b"\t", b"  ", b" \t"])
    hs = [rng.choice(H.PLAIN_HEADERS) for _ in range(rng.choice([0, 1, 2]))]
    hs = [n_ + b": " + v for n_, v in hs]
    if rng.random() < 0.5:
        hs.insert(rng.randrange(len(hs) + 1), _randcase(rng, b"Content-Length") + b":" + ows() + b"%d" % len(body) + ows())
        wire = body
    else:
        hs.insert(rng.randrange(len(hs) + 1), _randcase(rng, b"Transfer-Encoding") + b":" + ows() + _randcase(rng, b"chunked") + ows())
        _, wire = H.gen_chunked_body(rng, body=body)
    return m + b" " + t + b" HTTP/1.1\r\n" + b"".join(h + b"\r\n" for h in hs) + b"\r\n" + wire


def gen_cuts(rng, stream):
    """class "segmented": the deliveries of a stream.  Cut points are drawn where the parsers keep state: between the CR
    and the LF of a line terminator, just before / after one, inside a chunk-size line; or every octet on its own"""
    n = len(stream)
    if n < 2:
        return []
    crlf = [m.start() for m in re.finditer(rb"\r\n", stream)]
    k = rng.random()
    if k < 0.3 and crlf:
        return [rng.choice(crlf) + 1]                                    # one CR | LF
    if k < 0.45 and crlf:
        return [p + 1 for p in crlf]                                     # every CR | LF
    if k < 0.6 and crlf:
        return sorted({p + rng.choice([0, 1, 2]) for p in rng.sample(crlf, min(len(crlf), rng.randint(1, 4)))})
    if k < 0.7 and n <= 400:
        return list(range(1, n))                                         # octet by octet
    return sorted({rng.randrange(1, n) for _ in range(rng.randint(1, 5))})


CORE_ELEMENTS = ("method", "target", "version", "name", "value", "cl", "te", "chunk-size", "chunk-ext")


def _grammar_case(rng, i):
    r = rng.random()
    if r < 0.25:
        # every byte value in the target
        b = rng.randrange(256)
        t = b"/" + bytes([b]) + rng.choice([b"", b"x", b"?q"])
        return _case(rng.choice(H.METHODS) + b" " + t + b" HTTP/1.1\r\nHost: h\r\n\r\n" + (b"GET /n HTTP/1.1\r\n\r\n" if rng.random() < 0.5 else b""),
                     ["target"])
    if r < 0.35:
        b = rng.randrange(256)
        where = rng.choice(["name", "value", "method", "version"])
        if where == "name":
            s = b"GET / HTTP/1.1\r\nX" + bytes([b]) + b"Y: v\r\n\r\n"
        elif where == "value":
            s = b"GET / HTTP/1.1\r\nX: a" + bytes([b]) + b"b\r\n\r\n"
        elif where == "method":
            s = b"G" + bytes([b]) + b"T / HTTP/1.1\r\n\r\n"
        else:
            s = b"GET / HTTP/1." + bytes([b]) + b"\r\n\r\n"
        return _case(s + b"GET /n HTTP/1.1\r\n\r\n", ["byte-" + where])
    stream, feats = H.gen_stream(rng, malformed=0.1 if i % 2 else 0.4)
    return _case(stream, feats)


def _segmented_case(rng, i):
    r = rng.random()
    if r < 0.55:
        stream, feats = H.gen_stream(rng, malformed=0.1 if i % 2 else 0.3)
    elif r < 0.75:
        stream = b"".join(gen_spelling(rng) for _ in range(rng.choice([1, 2, 3])))
        feats = ["spelling"]
    elif r < 0.9:
        elem = rng.choice(list(ELEMENTS) + list(TERMINATORS))
        stream = octet_stream(elem, rng.choice(POSITIONS), rng.randrange(256), lead=rng.random() < 0.5)
        feats = ["octet", "octet-" + elem]
    else:
        c = rng.choice(_TERMINATOR_CASES)
        stream, feats = H.unhx(c["stream"]), c["feats"]
    return _case(stream, set(feats) | {"segmented"}, cuts=gen_cuts(rng, stream))


_TERMINATOR_CASES = terminator_cases()


def generate(rng, tier):
    quick = tier == "quick"
    # 1. octet class: the core elements completely, the other elements one octet value in 8 (rotating) in the quick tier
    offset = rng.randrange(8)
    for c in octet_cases((lambda elem, pos, b: elem in CORE_ELEMENTS or (b + offset) % 8 == 0) if quick else None):
        yield c
    # 2. the grammar (as before)
    for i in range(900 if quick else 20000):
        yield _grammar_case(rng, i)
    # 3. valid framing in unusual spellings
    for i in range(250 if quick else 2500):
        n = rng.choice([1, 1, 2, 3])
        yield _case(b"".join(gen_spelling(rng) for _ in range(n)), ["spelling"])
    # 4. the same kinds of stream cut into deliveries
    for i in range(500 if quick else 8000):
        yield _segmented_case(rng, i)
    # 5. large numerals / bodies (the smaller ones are in corpus())
    if not quick:
        for c in size_cases(big=True):
            yield c


def _ops(c):
    s = H.unhx(c["stream"])
    return H.ops_for(s, c.get("cuts") or [])


def model_line(c):
    return "run " + H.enc_script(SCRIPT) + " " + H.enc_ops(_ops(c))


def enc_ref(ref):
    """the verdict of the reference parser, in the encoding of lean/TwistedModel/Drv/C19.lean"""
    msgs = []
    for item in ref:
        if item[0] != "req":
            break
        _, m, t, v, hs, body, raw, start, stop = item
        h = "|".join(H.hx(n) + "=" + H.hx(x) for n, x in hs) if hs else "."
        msgs.append("/".join([H.hx(m), H.hx(t), H.hx(v), h, H.hx(body)]) + f"@{start}+{stop}")
    last = ref[-1] if ref else ("req",)
    stop = {"req": "done", "more": "more", "may": "may"}.get(last[0]) or "bad:" + last[1]
    return "ref=" + (";".join(msgs) if msgs else "none") + " stop=" + stop


_STATE = {}      # octet class only: the run of run_impl, judged by the oracle (every other class is run a second time there)


def run_impl(c):
    # the real server's observables, then the Python reference's reading of the same bytes: the driver line carries the
    # Lean reference's reading in the same place, so the string comparison of the tie also compares the two references
    st = H.run_ops(SCRIPT, _ops(c))
    _STATE.clear()
    if "octet" in c.get("feats", ()) and "cuts" not in c:
        _STATE[c["stream"]] = st
    return H.enc_state(st) + " " + enc_ref(ref_parse(H.unhx(c["stream"])))


def _lean_ref(model_out):
    """[(method, target, body, start, stop)] and the verdict, from the driver's line"""
    if " ref=" not in model_out or " stop=" not in model_out:
        return None
    part = model_out.split(" ref=", 1)[1]
    msgs, stop = part.split(" stop=", 1)
    out = []
    if msgs != "none":
        for m in msgs.split(";"):
            fields, span = m.rsplit("@", 1)
            meth, target, _ver, _hs, body = fields.split("/")
            a, b = span.split("+")
            out.append((H.unhx(meth), H.unhx(target), H.unhx(body), int(a), int(b)))
    return out, stop


def compare(c, impl_out, model_out):
    """tie (server observables) + Lean reference = Python reference (both inside the string), and h11 reads every
    message the Lean reference found — the octets [start, stop) of the stream — as the same method / target / body"""
    if impl_out != model_out:
        return False
    lr = _lean_ref(model_out)
    if lr is None:
        return False
    stream = H.unhx(c["stream"])
    for meth, target, body, a, b in lr[0]:
        if _h11_agrees(stream[a:b], meth, target, None, body) is False:
            return False
    return True


def _h11_agrees(raw, method, target, headers, body):
    """h11 (lenient about some things, strict about others) parses the same single message the same way; None = h11 refuses it"""
    if h11 is None:
        return True
    try:
        conn = h11.Connection(h11.SERVER, max_incomplete_event_size=200000)
        conn.receive_data(raw)
        ev = conn.next_event()
        if not isinstance(ev, h11.Request):
            return None
        got = b""
        while True:
            e = conn.next_event()
            if isinstance(e, h11.Data):
                got += bytes(e.data)
            elif isinstance(e, h11.EndOfMessage):
                break
            else:
                return None
        return (bytes(ev.method) == method and bytes(ev.target) == target and got == body)
    except Exception:
        return None


def oracle(c, out):
    stream = H.unhx(c["stream"])
    st = _STATE.pop(c["stream"], None) if "cuts" not in c else None
    if st is None:
        st = H.run_ops(SCRIPT, _ops(c))
    ref = ref_parse(stream)
    reqs = st["reqs"]
    n400 = st["written"].count(b"HTTP/1.1 400 Bad Request\r\n\r\n")
    if st["raised"]:
        return {"key": "exception", "detail": f"{st['raised']} escaped dataReceived; reference: {ref[-1][:2] if ref else None}"}
    for k, item in enumerate(ref):
        if item[0] == "req":
            _, m, t, v, hs, body, raw, _start, _stop = item
            if k >= len(reqs):
                if st["closed"] and k > 0 and _closing(ref[k - 1]):
                    return None          # the server closed after the previous response: persistence, not framing
                return {"key": "rejects-valid", "detail": f"message {k} {m!r} {t!r} valid for the reference, server delivered {len(reqs)} (400s: {n400})"}
            rm, rt, rv, rhs, rbody = reqs[k]
            if (rm, rt, rv) != (m, t, v):
                return {"key": "request-line", "detail": f"message {k}: server {rm!r} {rt!r} {rv!r}, reference {m!r} {t!r} {v!r}"}
            if rbody != body:
                return {"key": "body", "detail": f"message {k}: server body {rbody[:60]!r} reference {body[:60]!r}"}
            got = sorted((n.lower(), x) for n, vs in rhs for x in vs)
            if got != sorted(hs):
                return {"key": "headers", "detail": f"message {k}: server {got[:6]} reference {sorted(hs)[:6]}"}
            if _h11_agrees(raw, m, t, hs, body) is False:
                return {"key": "h11-disagrees", "detail": f"message {k}: h11 parses {raw[:80]!r} differently from server and reference"}
        elif item[0] == "bad":
            if len(reqs) > k:
                key = item[1] if item[1] in ("target-byte", "te-identity") else "accepts-invalid"
                return {"key": key, "detail": f"message {k} is invalid ({item[1]}) but was handed to the application: "
                                              f"{reqs[k][0]!r} {reqs[k][1]!r} body {reqs[k][4][:40]!r}; {len(reqs)} delivered in all"}
            if _closing_before(ref, k) and st["closed"] and n400 == 0:
                return None
            if n400 != 1 or not st["closed"]:
                return {"key": "no-400", "detail": f"message {k} invalid ({item[1]}): 400s written {n400}, closed {st['closed']}"}
            if not st["written"].endswith(b"HTTP/1.1 400 Bad Request\r\n\r\n"):
                return {"key": "after-400", "detail": f"message {k} invalid ({item[1]}): bytes written after the 400"}
        elif item[0] == "more":
            if len(reqs) > k:
                return {"key": "early-request", "detail": f"message {k} is incomplete for the reference but {len(reqs)} requests were delivered"}
        else:   # may
            return None
    if ref and ref[-1][0] == "req" and len(reqs) > len(ref):
        return {"key": "extra-request", "detail": f"reference found {len(ref)} messages, server delivered {len(reqs)}"}
    return None


def _closing(item):
    if item[0] != "req":
        return False
    _, m, t, v, hs, body, raw, _start, _stop = item
    return v == b"HTTP/1.0" or any(k == b"connection" and b"close" in x.lower() for k, x in hs)


def _closing_before(ref, k):
    return any(_closing(r) for r in ref[:k])


def tag(c, out):
    ref = ref_parse(H.unhx(c["stream"]))
    verdict = ",".join(i[0] if i[0] != "bad" else "bad:" + i[1] for i in ref[:5])
    closed = out[7:8] if out.startswith("closed=") else "?"
    nreq = 0 if "reqs=none" in out else out.split("reqs=")[1].count(";") + 1 if "reqs=" in out else -1
    return f"{verdict}|c{closed}|r{min(nreq, 4)}|" + ",".join(f for f in c.get("feats", []) if f.startswith(("byte-", "target", "octet-", "segmented", "spelling", "terminator", "sizes")))[:40]


def shrink(c):
    s = H.unhx(c["stream"])
    n = len(s)
    cuts = c.get("cuts") or []
    if cuts:
        yield {k: v for k, v in c.items() if k != "cuts"}
        if len(cuts) > 1:
            for x in cuts:
                yield dict(c, cuts=[x])
            yield dict(c, cuts=cuts[:len(cuts) // 2])
            yield dict(c, cuts=cuts[len(cuts) // 2:])
    for size in (n // 2, n // 4, 16, 4, 1):
        if size < 1:
            continue
        for i in range(0, n, size):
            t = s[:i] + s[i + size:]
            d = dict(c, stream=H.hx(t))
            if cuts:
                d["cuts"] = sorted({x if x <= i else max(i, x - size) for x in cuts} - {0} - set(range(len(t), n + 1)))
                if not d["cuts"]:
                    del d["cuts"]
            yield d
