"""C03 — a Deferred delivers one result; cancellation follows its protocol.

Real `twisted.internet.defer.Deferred` objects driven through a history of operations vs the
Lean model `TwistedModel/Defer/Cancel.lean`, plus an oracle that evaluates the six rules of the
property statement directly on what the real objects did (independent of the model).
"""
import re

from twisted.internet import defer
from twisted.internet.defer import AlreadyCalledError, CancelledError, Deferred
from twisted.python.failure import Failure

HEADLINE = "TwistedProps.C03.protocol_all_histories_partial"
RULE = ("histories over {callback, errback, cancel, addCallback/addBoth of a callback returning a fresh unfired inner "
        "Deferred, fire inner i (callback/errback), cancel inner i} x outer canceller kind {none, returns, fires callback, "
        "fires errback, raises} x the same five kinds for every inner Deferred. quick: EVERY history of length <= 3 over that "
        "full alphabet and of length <= 5 over the statement's bare alphabet {callback, errback, cancel, add, fire latest inner}, "
        "for each of the 5 outer canceller kinds, + 1500 random histories of length <= 40; thorough: lengths <= 4 / <= 7 "
        "(length 8 for the canceller-less Deferred) + 40000 random. "
        "Since the white-box mutation audit (harness/mutants/C03) the case language also has, each with its own bounded-exhaustive "
        "slice in the quick tier and a share of the random histories: "
        "(sub) the Deferreds are instances of a Deferred SUBCLASS (all / only the inner ones / only the outer one); "
        "(forms) every way of handing over a failure: errback(exc), errback(Failure), errback() inside an except block, "
        "callback(Failure); "
        "(D+/D-) Deferred debugging switched on/off IN THE MIDDLE of a history (a Deferred created/fired in one mode, used in the other); "
        "(nested, oracle-only) inner Deferreds that carry their own callbacks returning further Deferreds: chains of any depth, "
        "cancel() forwarded through several fired-and-waiting Deferreds; "
        "(re-entrant) callbacks that call callback()/errback()/cancel() on the Deferred whose callback chain is running "
        "(model-compared against TwistedModel/Defer/Reenter.lean when the history has no inner Deferred, oracle-only otherwise). "
        "distinct = (outer canceller kind, case-language features used, set of (operation kind, outer fired?/waiting?, outcome))")
ASSUMES = [
    "model-compared cases: the only user callbacks are `lambda _: inner_i` (addCallback/addBoth); each inner Deferred is returned by exactly one callback and has no callbacks of its own "
    "(nested chains, and re-entrant callbacks in histories that also have inner Deferreds, are judged by the oracle only: the chaining model has one outer Deferred "
    "and leaf inner Deferreds, the re-entrancy model `Reenter` has ONE Deferred whose callbacks are the re-entrant ones and return their argument)",
    "the Lean model abstracts the FORM of a failure hand-over (errback(exc) / errback(Failure) / errback() / callback(Failure) are all `errback e`), the class of the Deferreds, and the debugging mode (D+/D- are not operations of the model): the harness maps them away in model_line, so the tie checks that they make no observable difference",
    "cancellers are one of: absent, returns, fires callback(v), fires errback(e), raises an Exception subclass (not BaseException such as KeyboardInterrupt)",
    "no pause()/unpause() by the user; re-entrant operations address the Deferred whose callback is running (not another one); values are ints (never None / a Deferred)",
    "a re-entrant callback()/errback() issued from a callback that runs INSIDE the cancel() of a canceller-less Deferred (on that Deferred) may count as the one ignored late result or be refused: the statement does not say which, the oracle accepts both (consistently)",
]
TRUSTED = ["the probe callback (first addBoth on every Deferred, returns its argument) used to observe delivered results"]
MANIFEST = {
    "text": "Lean theorems (TwistedProps/C03.lean) over ALL histories of any length (invariant of every reachable state of the "
            "model): every Deferred is given at most one result; a further callback/errback raises AlreadyCalledError and changes "
            "nothing, except exactly one that is ignored after cancel() on a canceller-less Deferred; cancel() on an unfired "
            "Deferred calls the canceller exactly once and fires it (canceller's result, else CancelledError) PROVIDED the "
            "canceller does not raise; cancel() on a fired Deferred is exactly cancel() on the (unfired) Deferred it waits on, "
            "otherwise a no-op; operations on one Deferred never fire/cancel another. For a RAISING canceller the code violates "
            "the statement (counterexample theorem + replayed witness; known finding); the full statement is proved for the "
            "candidate repair. RE-ENTRANCY (second model, one Deferred whose callbacks call callback()/errback()/cancel() on it while its "
            "chain runs; theorems reent_one_result, reent_result_never_replaced, reent_records, all histories): such calls never change "
            "called / the delivered result / the canceller count, every re-entrant cancel() is a no-op and every re-entrant "
            "callback()/errback() raises AlreadyCalledError, except at most one per operation that is swallowed — and only when an "
            "ignore was pending or the operation is the canceller-less cancel() itself. Models tied to defer.py by differential runs "
            "(per-operation outcome + called/result/canceller-count/delivered of every Deferred + the records of the re-entrant "
            "callbacks) incl. exhaustive short histories; Deferred subclasses, the four forms of handing over a failure and debugging "
            "switched mid-history are run against the same model lines (they must make no observable difference). Chains deeper than "
            "one and re-entrant callbacks next to inner Deferreds are checked by the oracle only.",
    "note": "partial for the code as it is (hypothesis: the cancelled Deferred's canceller does not raise); trusts Lean kernel, "
            "the hand models of Deferred.cancel/_startRunCallbacks/the chaining part of _runCallbacks and of the callback loop with "
            "re-entrant callbacks (differentially tied); nested chains are outside both models (oracle-only cases)",
    "technique": "Lean 4 proof (invariant over histories + refinement of the protocol automaton) + differential tie",
    "design_ref": "DESIGN.md §7 C03",
}

# which Deferred.cancel the Lean driver is asked to model.  "asis": an exception raised by the canceller
# propagates out of cancel() (the code as it is); "repaired": it is caught inside cancel() (candidate repair,
# not applied — see TwistedProps/C03.lean).
MODE = "asis"

SPECS = ["n", "z", "o7", "e3", "r"]


class UserError(Exception):
    def __init__(self, n):
        Exception.__init__(self, n)
        self.n = n


class CancellerBoom(Exception):
    pass


class SubDeferred(Deferred):
    """a Deferred subclass (what DeferredList, application subclasses … are to the code under test)"""


# ------------------------------------------------------------------------------------------
# cases: {"spec": <outer canceller>, "ops": [<op token>, …], "dbg": bool?, "sub": 0..3?}
#
# op tokens (the first block is the Lean driver's protocol; the rest is mapped away or oracle-only):
#   cb<v> eb<k> x ac:<spec> ab:<spec> fi<i>:v<n> fi<i>:e<n> xi<i>
#   ef<k>  outer.errback(Failure(UserError(k)))        fi<i>:f<k>  the same on inner i
#   en<k>  outer.errback() inside `except UserError`     fi<i>:n<k>
#   cf<k>  outer.callback(Failure(UserError(k)))        fi<i>:c<k>
#   D+ D-  defer.setDebugging(True / False) in the middle of the history
#   ic<i>:<spec> ib<i>:<spec>   inner_i.addCallback / addBoth(lambda _: <new inner Deferred>)     (nested; oracle-only)
#   ro:<act> ri<i>:<act>        outer / inner_i .addBoth(callback that performs <act> = cb<v> | eb<k> | x on the
#                               Deferred it is attached to, records what happened, returns its argument) (re-entrant; oracle-only)
# "sub": 0 plain Deferreds, 1 every Deferred is a SubDeferred, 2 only the inner ones, 3 only the outer one.

_OP = re.compile(r"^(?:(?P<x>x)|xi(?P<xi>\d+)|(?P<of>cb|eb|ef|en|cf)(?P<ofn>\d+)|fi(?P<fi>\d+):(?P<fif>[vefnc])(?P<fin>\d+)"
                 r"|a(?P<ab>[cb]):(?P<aspec>\w+)|i(?P<ib>[cb])(?P<ii>\d+):(?P<ispec>\w+)"
                 r"|ro:(?P<roact>cb\d+|eb\d+|x)|ri(?P<ri>\d+):(?P<riact>cb\d+|eb\d+|x)|D(?P<dbg>[+-]))$")
_OUTER_FORM = {"cb": "v", "eb": "e", "ef": "f", "en": "n", "cf": "c"}


def _parse_op(op):
    """→ dict(kind=fire|cancel|add|reent|dbg, …); the target/owner Deferred is a cell index (0 = outer, 1+i = inner i)"""
    m = _OP.match(op)
    if not m:
        raise ValueError("bad op " + op)
    g = m.groupdict()
    if g["x"]:
        return {"kind": "cancel", "target": 0}
    if g["xi"] is not None:
        return {"kind": "cancel", "target": 1 + int(g["xi"])}
    if g["of"]:
        return {"kind": "fire", "target": 0, "form": _OUTER_FORM[g["of"]], "n": int(g["ofn"])}
    if g["fi"] is not None:
        return {"kind": "fire", "target": 1 + int(g["fi"]), "form": g["fif"], "n": int(g["fin"])}
    if g["ab"]:
        return {"kind": "add", "on": 0, "both": g["ab"] == "b", "spec": g["aspec"]}
    if g["ib"]:
        return {"kind": "add", "on": 1 + int(g["ii"]), "both": g["ib"] == "b", "spec": g["ispec"]}
    if g["roact"]:
        return {"kind": "reent", "on": 0, "act": g["roact"]}
    if g["ri"] is not None:
        return {"kind": "reent", "on": 1 + int(g["ri"]), "act": g["riact"]}
    return {"kind": "dbg", "on": g["dbg"] == "+"}


def _features(c):
    f = set()
    if c.get("sub"):
        f.add("sub")
    if c.get("dbg"):
        f.add("dbg")
    for op in c["ops"]:
        p = _parse_op(op)
        if p["kind"] == "fire" and p["form"] in "fnc":
            f.add("forms")
        elif p["kind"] == "dbg":
            f.add("toggle")
        elif p["kind"] == "add" and p["on"] != 0:
            f.add("nested")
        elif p["kind"] == "reent":
            f.add("reent")
    return f


def corpus():
    return [
        # the hand-found defect: a canceller that raises
        {"spec": "r", "ops": ["x"]},
        {"spec": "n", "ops": ["x", "cb1", "cb2"], "dbg": True},      # Deferred debugging on: the one late callback is still ignored
        {"spec": "n", "ops": ["cb1", "ac:n", "x", "fi0:v3", "fi0:v4"], "dbg": True},
        {"spec": "r", "ops": ["x", "x", "cb1"]},
        {"spec": "n", "ops": ["cb1", "ac:r", "x"]},
        # one test per rule of the statement
        {"spec": "n", "ops": ["cb1", "cb2", "eb3"]},
        {"spec": "n", "ops": ["x", "cb1", "cb2", "eb3"]},
        {"spec": "n", "ops": ["x", "eb1", "x", "cb2"]},
        {"spec": "z", "ops": ["x", "cb1"]},
        {"spec": "o7", "ops": ["x", "x", "cb1"]},
        {"spec": "e3", "ops": ["ab:n", "x", "x", "fi0:v4", "fi0:v5"]},
        {"spec": "n", "ops": ["ac:z", "cb1", "x", "fi0:v2", "x"]},
        {"spec": "n", "ops": ["ac:n", "cb1", "x", "fi0:v2", "fi0:v3", "cb9"]},
        {"spec": "z", "ops": ["ac:o7", "ac:e3", "cb1", "x", "x", "x"]},
        {"spec": "n", "ops": ["ac:n", "fi0:e2", "ab:n", "cb1", "x", "cb5", "cb6"]},
        {"spec": "n", "ops": ["x", "ab:z", "cb1", "x", "cb2", "fi0:v1"]},
        {"spec": "n", "ops": ["cb1", "ac:n", "xi0", "ac:n", "fi0:v1", "fi1:e1", "ab:n", "x"]},
        {"spec": "n", "ops": []},
        # white-box mutation audit (harness/mutants/C03): one witness per former blind spot
        {"spec": "n", "ops": ["x", "en2", "cb1"]},                              # m02: late errback() in an except block is the ignored one
        {"spec": "n", "ops": ["x", "cf2", "ef3"]},
        {"spec": "n", "ops": ["cb1", "ac:z", "x", "fi0:v2"], "sub": 2},         # m03: the Deferred waited on is a subclass instance
        {"spec": "z", "ops": ["ac:n", "ic0:z", "fi0:v1", "cb2", "x", "x"]},     # m04: cancel forwarded through two fired-and-waiting Deferreds
        {"spec": "n", "ops": ["ro:cb9", "ro:x", "cb1", "cb2"]},                 # m05: a callback fires / cancels its own Deferred
        {"spec": "z", "ops": ["ro:x", "ro:eb9", "x"]},
        {"spec": "n", "ops": ["cb1", "D+", "cb2", "D-", "cb3"]},                # m12: fired with debugging off, refused with debugging on
        {"spec": "n", "ops": ["D+", "x", "D-", "cb1", "D+", "cb2"]},
    ]


def _enumerate(depth, reduced):
    """every well-formed history of exactly `depth` ops"""
    def rec(prefix):
        if len(prefix) == depth:
            yield list(prefix)
            return
        n = sum(1 for o in prefix if o.startswith("a"))
        nxt = ["cb1", "eb2", "x"]
        if reduced:
            nxt += ["ac:n"]
            if n:
                nxt += [f"fi{n - 1}:v4"]
        else:
            nxt += ["ac:" + s for s in SPECS] + ["ab:n"]
            for i in range(n):
                nxt += [f"fi{i}:v4", f"fi{i}:e5", f"xi{i}"]
        for t in nxt:
            prefix.append(t)
            yield from rec(prefix)
            prefix.pop()
    yield from rec([])


def _n_inners(prefix):
    return sum(1 for o in prefix if o[0] in "ai" and o[1] in "cb" and ":" in o)


def _enum(depth, alphabet, need=None):
    """every history of exactly `depth` ops with `alphabet(prefix, number of inner Deferreds so far)` as the next tokens;
    `need`: keep only histories in which some op satisfies it (the others belong to another slice)"""
    def rec(prefix):
        if len(prefix) == depth:
            if need is None or any(need(o) for o in prefix):
                yield list(prefix)
            return
        for t in alphabet(prefix, _n_inners(prefix)):
            prefix.append(t)
            yield from rec(prefix)
            prefix.pop()
    yield from rec([])


def _alpha_forms(prefix, n):
    nxt = ["x", "cb1", "ef2", "en3", "cf4", "ac:n"]
    if n:
        nxt += [f"fi{n - 1}:f5", f"fi{n - 1}:n6", f"fi{n - 1}:c7"]
    return nxt


def _alpha_toggle(prefix, n):
    nxt = ["x", "cb1", "eb2", "ac:n", "D+", "D-"]
    if n:
        nxt += [f"fi{n - 1}:v4"]
    return nxt


def _alpha_nested_bare(prefix, n):
    nxt = ["cb1", "x"]
    nxt += ["ac:n"] if not any(o.startswith("ac") for o in prefix) else []
    if n:
        nxt += [f"ic{n - 1}:n"]
        nxt += [f"fi{i}:v4" for i in range(n)]
    return nxt


def _alpha_nested_full(prefix, n):
    nxt = ["cb1", "eb2", "x", "ab:n"] + ["ac:" + s for s in ("n", "z", "o7")]
    for i in range(n):
        nxt += [f"ic{i}:n", f"ic{i}:z", f"ic{i}:e3", f"ic{i}:r", f"ib{i}:n", f"fi{i}:v4", f"fi{i}:e5", f"xi{i}"]
    return nxt


def _alpha_reent(prefix, n):
    nxt = ["cb1", "eb2", "x", "ac:n", "ro:cb9", "ro:eb9", "ro:x"]
    if n:
        nxt += [f"fi{n - 1}:v4", f"xi{n - 1}", f"ri{n - 1}:cb9", f"ri{n - 1}:x"]
    return nxt


def _is_form(o):
    return o[:2] in ("ef", "en", "cf") or (o.startswith("fi") and o.split(":")[1][0] in "fnc")


def _random_history(rng, maxlen, feats=()):
    """feats ⊆ {forms, toggle, nested, reent}: which extensions of the case language the history may use"""
    n = rng.choice([1, 2, 3, 4, 5, 6, 8, 8, 12, 20, maxlen])
    ops, inner = [], 0
    style = rng.random()

    def form(isinner):
        if "forms" in feats and rng.random() < 0.6:
            return rng.choice("fnc") if isinner else rng.choice(["ef", "en", "cf"])
        return "e" if isinner else "eb"

    for _ in range(n):
        r = rng.random()
        if "toggle" in feats and rng.random() < 0.15:
            ops.append(rng.choice(["D+", "D-"]))
            continue
        if "reent" in feats and rng.random() < 0.15:
            act = rng.choice([f"cb{rng.randint(0, 9)}", f"eb{rng.randint(0, 9)}", "x"])
            ops.append(f"ri{rng.randrange(inner)}:{act}" if inner and rng.random() < 0.5 else f"ro:{act}")
            continue
        if "nested" in feats and inner and rng.random() < 0.2:
            i = rng.randrange(inner) if rng.random() < 0.5 else inner - 1
            ops.append(("ib" if rng.random() < 0.3 else "ic") + f"{i}:" + rng.choice(SPECS + ["n", "z"]))
            inner += 1
            continue
        if inner and r < (0.45 if style < 0.5 else 0.25):
            i = rng.randrange(inner) if rng.random() < 0.5 else inner - 1
            k = rng.random()
            ops.append(f"xi{i}" if k < 0.2 else (f"fi{i}:v{rng.randint(0, 9)}" if k < 0.7 else f"fi{i}:{form(True)}{rng.randint(0, 9)}"))
        elif r < 0.6:
            ops.append(("ab:" if rng.random() < 0.3 else "ac:") + rng.choice(SPECS + ["n", "z"]))
            inner += 1
        elif r < 0.8:
            ops.append("x")
        elif r < 0.93:
            ops.append(f"cb{rng.randint(0, 9)}")
        else:
            ops.append(f"{form(False)}{rng.randint(0, 9)}")
    return ops


def generate(rng, tier):
    quick = tier == "quick"
    # bounded-exhaustive slice (the statement's own quantifier), on both sides
    full_depth = 3 if quick else 4
    for spec in SPECS:
        for d in range(1, full_depth + 1):
            for ops in _enumerate(d, reduced=False):
                yield {"spec": spec, "ops": ops}
    red_depth = 5 if quick else 7
    for spec in SPECS:
        for d in range(full_depth + 1, red_depth + 1):
            for ops in _enumerate(d, reduced=True):
                yield {"spec": spec, "ops": ops}
    if not quick:       # the statement's "length <= 8", for the canceller-less Deferred
        for ops in _enumerate(8, reduced=True):
            yield {"spec": "n", "ops": ops}
    # the same bounded-exhaustive slice (shallower) with Deferred debugging switched on
    for spec in SPECS:
        for d in range(1, full_depth):
            for ops in _enumerate(d, reduced=False):
                yield {"spec": spec, "ops": ops, "dbg": True}

    # --- slices added by the white-box mutation audit (harness/mutants/C03/README.md) ---
    # (sub) Deferred subclass instances: every bare history, every canceller kind, each placement of the subclass
    for spec in SPECS:
        for sub in (2, 1, 3):
            for d in range(1, (4 if quick else 5) + 1):
                if d > 3 and (sub != 2 or (quick and spec not in ("n", "z"))):
                    continue
                for ops in _enumerate(d, reduced=True):
                    yield {"spec": spec, "ops": ops, "sub": sub}
            for d in range(1, (2 if quick else 3) + 1):
                for ops in _enumerate(d, reduced=False):
                    yield {"spec": spec, "ops": ops, "sub": sub}
    # (forms) every way of handing over a failure, first / late / second-late, on the outer and on an inner Deferred
    for spec in SPECS:
        for d in range(1, (3 if quick or spec not in ("n", "z") else 4) + 1):
            for ops in _enum(d, _alpha_forms, need=_is_form):
                yield {"spec": spec, "ops": ops}
    # (D+/D-) debugging switched on / off in the middle of the history, starting in either mode
    for spec in SPECS:
        for d in range(1, (4 if spec == "n" else 3) + (0 if quick else 1) + 1):
            for ops in _enum(d, _alpha_toggle, need=lambda o: o[0] == "D"):
                for dbg in (False, True):
                    if ops[0] == ("D+" if dbg else "D-"):
                        continue        # a no-op toggle first: the same history starts in the other slice
                    yield {"spec": spec, "ops": ops, "dbg": dbg}
    # (nested) chains deeper than one: inner Deferreds with callbacks that return further Deferreds (oracle-only)
    for spec in ("n", "z"):
        for d in range(2, (6 if quick else 7) - (1 if spec == "z" else 0) + 1):
            for ops in _enum(d, _alpha_nested_bare, need=lambda o: o.startswith("ic")):
                yield {"spec": spec, "ops": ops}
    for spec in SPECS:
        for d in range(2, (3 if quick else 4) + 1):
            for ops in _enum(d, _alpha_nested_full, need=lambda o: o[0] == "i"):
                yield {"spec": spec, "ops": ops}
    # (re-entrant) callbacks that fire / cancel the Deferred whose chain is running (oracle-only)
    for spec in SPECS:
        for d in range(1, (3 if quick else 4) + 1):
            for ops in _enum(d, _alpha_reent, need=lambda o: o[0] == "r"):
                yield {"spec": spec, "ops": ops}
                if d <= 2:
                    yield {"spec": spec, "ops": ops, "dbg": True}

    n = 1500 if quick else 40000
    for i in range(n):
        # i % 8: 0-3 the original language; 4 forms+toggle; 5 forms+sub (all model-compared); 6 nested; 7 re-entrant (+ nested)
        k = i % 8
        feats = {4: ("forms", "toggle"), 5: ("forms",), 6: ("nested", "forms"), 7: ("reent", "nested", "toggle")}.get(k, ())
        c = {"spec": rng.choice(SPECS + [f"o{rng.randint(0, 9)}", f"e{rng.randint(0, 9)}"]),
             "ops": _random_history(rng, 40, feats)}
        if i % 4 == 2:
            c["dbg"] = True
        if k in (1, 5) or (k >= 6 and rng.random() < 0.3):
            c["sub"] = rng.choice([1, 2, 2, 3])
        yield c


_FORM_TO_MODEL = {"v": "v", "e": "e", "f": "e", "n": "e", "c": "e"}


def model_line(c):
    """the history in the Lean driver's language, or None when it uses callbacks no model has.
    The form of a failure hand-over, the class of the Deferreds and the debugging mode are abstracted by the
    models (see ASSUMES): forms are mapped to `errback`, D+/D- are dropped (run_impl prints no step for them).
    Histories with re-entrant callbacks on the outer Deferred and NO inner Deferred go to the single-Deferred
    re-entrancy model (driver mode `reent`, TwistedModel/Defer/Reenter.lean); re-entrant callbacks together with
    inner Deferreds, and nested chains, are oracle-only."""
    toks = []
    reent = False
    inners = False
    for op in c["ops"]:
        p = _parse_op(op)
        if p["kind"] == "dbg":
            continue
        if p["kind"] == "add" and p["on"] != 0:
            return None
        if p["kind"] == "reent":
            if p["on"] != 0:
                return None
            reent = True
            toks.append(op)
        elif p["kind"] == "fire":
            f = _FORM_TO_MODEL[p["form"]]
            if p["target"] == 0:
                toks.append(("cb" if f == "v" else "eb") + str(p["n"]))
            else:
                inners = True
                toks.append(f"fi{p['target'] - 1}:{f}{p['n']}")
        else:
            inners = inners or p["kind"] == "add" or p.get("target", 0) != 0
            toks.append(op)
    if reent and inners:
        return None
    return " ".join(["reent" if reent else MODE, c["spec"]] + toks)


# ------------------------------------------------------------------------------------------
# the real code

class _Cell:
    """a real Deferred + observation: canceller call count, results delivered to its first callback"""

    def __init__(self, spec, cls=Deferred):
        self.spec = spec
        self.calls = 0
        self.delivered = []
        self.d = cls(self._canceller if spec != "n" else None)
        self.d.addBoth(self._probe)

    def _probe(self, r):
        self.delivered.append(r)
        return r

    def _canceller(self, d):
        self.calls += 1
        k = self.spec[0]
        if k == "o":
            d.callback(int(self.spec[1:]))
        elif k == "e":
            d.errback(UserError(int(self.spec[1:])))
        elif k == "r":
            raise CancellerBoom()


def _res(r, cells):
    if isinstance(r, Deferred):
        for i, c in enumerate(cells[1:]):
            if c.d is r:
                return f"d{i}"
        return "d?"
    if isinstance(r, Failure):
        if r.check(CancelledError):
            return "X"
        if r.check(UserError):
            return f"e{r.value.n}"
        return "F:" + r.type.__name__
    if r is None:
        return "N"
    if isinstance(r, int):
        return f"v{r}"
    return "?" + type(r).__name__


_NO = object()


def _snap(cells):
    out = []
    for c in cells:
        r = getattr(c.d, "result", _NO)
        out.append(f"c{int(bool(c.d.called))}k{c.calls}r{'-' if r is _NO else _res(r, cells)}d"
                   + ",".join(_res(x, cells) for x in c.delivered))
    return ";".join(out)


def run_impl(c):
    # Deferred debugging (defer.setDebugging, what `trial --debug` / `twistd --debug` switch on) must not change any
    # observable of the statement (seeded change C03-2 moved the _suppressAlreadyCalled test into the non-debug branch)
    dbg = defer.getDebugging()
    defer.setDebugging(bool(c.get("dbg")))
    try:
        return _run_impl(c)
    finally:
        defer.setDebugging(dbg)


def _fire(d, form, n):
    if form == "v":
        d.callback(n)
    elif form == "e":
        d.errback(UserError(n))
    elif form == "f":
        d.errback(Failure(UserError(n)))
    elif form == "c":
        d.callback(Failure(UserError(n)))
    elif form == "n":
        try:
            raise UserError(n)
        except UserError:
            d.errback()
    else:
        raise ValueError("bad form " + form)


def _fingerprint(cells, me):
    return ([(bool(c.d.called), c.calls, len(c.delivered)) for c in cells], id(getattr(me.d, "result", _NO)))


def _reentrant(cells, me, idx, act, records):
    """a callback for `me.d` that performs `act` on me.d itself while me.d's callback chain is running"""
    def cb(r):
        before = _fingerprint(cells, me)
        try:
            if act == "x":
                me.d.cancel()
            else:
                _fire(me.d, "v" if act.startswith("cb") else "e", int(act[2:]))
            o = "ok"
        except AlreadyCalledError:
            o = "A"
        except CancellerBoom:
            o = "B"
        records.append(f"{idx}/{act}/{o}/{'s' if _fingerprint(cells, me) == before else 'c'}")
        return r
    return cb


def _run_impl(c):
    sub = c.get("sub", 0)
    cells = [_Cell(c["spec"], SubDeferred if sub in (1, 3) else Deferred)]
    inner_cls = SubDeferred if sub in (1, 2) else Deferred
    toks = []
    records = []
    try:
        for op in c["ops"]:
            p = _parse_op(op)
            if p["kind"] == "dbg":
                defer.setDebugging(p["on"])      # no step printed: not an operation on a Deferred
                continue
            try:
                if p["kind"] == "cancel":
                    cells[p["target"]].d.cancel()
                elif p["kind"] == "fire":
                    _fire(cells[p["target"]].d, p["form"], p["n"])
                elif p["kind"] == "add":
                    inner = _Cell(p["spec"], inner_cls)
                    cells.append(inner)
                    f = (lambda _r, _d=inner.d: _d)
                    if p["both"]:
                        cells[p["on"]].d.addBoth(f)
                    else:
                        cells[p["on"]].d.addCallback(f)
                else:
                    me = cells[p["on"]]
                    me.d.addBoth(_reentrant(cells, me, p["on"], p["act"], records))
                o = "ok"
            except AlreadyCalledError:
                o = "A"
            except CancellerBoom:
                o = "B"
            toks.append(o + "|" + _snap(cells) + ("|" + ",".join(records) if records else ""))
            del records[:]
    finally:
        for cell in cells:  # no "Unhandled error in Deferred" noise at garbage collection
            cell.d.addErrback(lambda f: None)
    return " ".join(toks) if toks else "-"


# ------------------------------------------------------------------------------------------
# the property, evaluated on the implementation's observable (independent of the Lean model)

_CELL = re.compile(r"^c([01])k(\d+)r(-|v\d+|e\d+|X|N|d\d+|d\?|F:\w+|\?\w+)d(.*)$")


def _parse_cell(t):
    m = _CELL.match(t)
    if not m:
        raise ValueError("bad cell " + t)
    return {"called": m.group(1) == "1", "calls": int(m.group(2)), "result": m.group(3),
            "delivered": m.group(4).split(",") if m.group(4) else []}


def _parse(out):
    """→ [(outcome, [cell, …], [(cell index, act, outcome, unchanged?), …])] — one entry per operation (D+/D- print none)"""
    steps = []
    if out == "-":
        return steps
    for tok in out.split(" "):
        parts = tok.split("|")
        if len(parts) not in (2, 3):
            raise ValueError("bad step " + tok)
        recs = []
        if len(parts) == 3:
            for r in parts[2].split(","):
                t, act, o, same = r.split("/")
                recs.append((int(t), act, o, same == "s"))
        steps.append((parts[0], [_parse_cell(t) for t in parts[1].split(";")], recs))
    return steps


def _expected_cancel_delivery(spec):
    k = spec[0]
    if k == "o":
        return "v" + spec[1:]
    if k == "e":
        return "e" + spec[1:]
    return "X"           # absent, returns, raises: errbacked with CancelledError


_FRESH = {"called": False, "calls": 0, "result": "-", "delivered": []}
_DREF = re.compile(r"^d(\d+)$")


def _resolve(pre, target):
    """the Deferred a cancel() addressed to `target` ends up at: while it is fired and waiting on another
    Deferred (its result IS that Deferred), "cancels that Deferred" — applied again to that one.
    → (the fired-and-waiting Deferreds passed through, the final one)"""
    path, t = [], target
    while pre[t]["called"] and _DREF.match(pre[t]["result"]) and t not in path:
        path.append(t)
        t = 1 + int(pre[t]["result"][1:])
        if t >= len(pre):
            raise ValueError("waiting on an unknown Deferred")
    return path, t


def _violations(c, out):
    if out.startswith("!raised"):
        yield {"key": "unexpected-exception", "detail": out}
        return
    try:
        steps = _parse(out)
        ops = [(op, _parse_op(op)) for op in c["ops"]]
    except Exception as e:  # unparsable observable = something unforeseen happened
        yield {"key": "unparsable", "detail": f"{out!r}: {e}"}
        return
    ops = [(op, p) for op, p in ops if p["kind"] != "dbg"]      # switching debugging prints no step; any effect it
    #                                                             had shows as a change at the next operation
    specs = [c["spec"]]
    cells = [dict(_FRESH)]
    pending_ignore = [False]      # the statement's "exactly one later callback or errback is silently ignored"
    for n, ((op, p), (o, post, recs)) in enumerate(zip(ops, steps)):
        where = f"op #{n} {op!r} of spec={c['spec']} ops={' '.join(c['ops'])}" + (" dbg" if c.get("dbg") else "") \
            + (f" sub={c['sub']}" if c.get("sub") else "")
        pre = cells
        if p["kind"] == "add":
            specs.append(p["spec"])
            pending_ignore.append(False)
            pre = pre + [dict(_FRESH)]
        if len(post) != len(pre):
            yield {"key": "unparsable", "detail": f"{len(post)} Deferreds in the snapshot, expected {len(pre)} at {where}"}
            return
        # global: one result per Deferred, ever
        for j, cell in enumerate(post):
            if len(cell["delivered"]) > 1:
                yield {"key": "two-results", "detail": f"Deferred {j} was given {cell['delivered']} after {where}"}
            if pre[j]["delivered"] and cell["delivered"] != pre[j]["delivered"]:
                yield {"key": "result-replaced", "detail": f"Deferred {j}: {pre[j]['delivered']} -> {cell['delivered']} at {where}"}
            if cell["calls"] < pre[j]["calls"]:
                yield {"key": "unparsable", "detail": "call count decreased"}
            if pre[j]["called"] and not cell["called"]:
                yield {"key": "result-replaced", "detail": f"Deferred {j} is unfired again at {where}"}
        # which Deferred does the operation address?
        kind = p["kind"]
        target = p.get("target")
        path = []
        if kind == "cancel":
            try:
                path, target = _resolve(pre, target)
            except ValueError as e:
                yield {"key": "unparsable", "detail": f"{e} at {where}"}
                return
            # fired and waiting on another Deferred: "cancels that Deferred" — not itself
            for j in path:
                if post[j]["calls"] != pre[j]["calls"]:
                    yield {"key": "chained-cancel-called-own-canceller", "detail": f"Deferred {j} at {where}"}
        # the Deferred whose cancel() (canceller-less, unfired) is in progress: a re-entrant callback()/errback() on it
        # from one of its own callbacks may or may not count as the "later" result that is ignored (see ASSUMES)
        amb = target if kind == "cancel" and not pre[target]["called"] and specs[target] == "n" else None
        amb_consumed = False
        # operations performed by callbacks on the Deferred whose chain is running: it HAS its result, so a further
        # callback/errback raises AlreadyCalledError (or is the one ignored), cancel() has no effect; nothing changes
        for (t, act, ro, same) in recs:
            rwhere = f"re-entrant {act} on Deferred {t} during {where}"
            if not same:
                yield {"key": "reentrant-op-changed-state", "detail": f"outcome {ro}, {rwhere}"}
            if act == "x":
                if ro != "ok":
                    yield {"key": "reentrant-cancel-on-fired-had-effect", "detail": f"outcome {ro}, {rwhere}"}
            elif pending_ignore[t]:
                pending_ignore[t] = False
                if ro != "ok":
                    yield {"key": "late-result-after-cancel-not-ignored", "detail": f"outcome {ro}, {rwhere}"}
            elif t == amb and not amb_consumed and ro == "ok":
                amb_consumed = True
            elif ro != "A":
                yield {"key": "second-result-accepted", "detail": f"outcome {ro} (expected AlreadyCalledError), {rwhere}"}
        if kind in ("add", "reent"):
            if o != "ok":
                yield {"key": "add-raised", "detail": where}
            # adding a callback gives no Deferred a result and cancels none
            for j in range(len(post)):
                if any(post[j][f] != pre[j][f] for f in ("called", "calls", "delivered")):
                    yield {"key": "add-fired-or-cancelled", "detail": f"Deferred {j}: {pre[j]} -> {post[j]} at {where}"}
        elif kind == "fire":
            if not pre[target]["called"]:
                # the one callback/errback a Deferred accepts
                want = ("v" if p["form"] == "v" else "e") + str(p["n"])
                if o != "ok" or not post[target]["called"] or post[target]["delivered"] != [want]:
                    yield {"key": "first-result-not-accepted",
                            "detail": f"outcome {o}, delivered {post[target]['delivered']} at {where}"}
                for j in range(len(post)):
                    if j != target and any(post[j][f] != pre[j][f] for f in ("called", "calls", "delivered")):
                        yield {"key": "fire-touched-unrelated", "detail": f"Deferred {j}: {pre[j]} -> {post[j]} at {where}"}
            elif pending_ignore[target]:
                pending_ignore[target] = False
                if o != "ok" or post != pre or recs:
                    yield {"key": "late-result-after-cancel-not-ignored", "detail": f"outcome {o}; {pre} -> {post} at {where}"}
            else:
                if o != "A":
                    yield {"key": "second-result-accepted", "detail": f"outcome {o} (expected AlreadyCalledError) at {where}"}
                if post != pre or recs:
                    yield {"key": "second-result-changed-state", "detail": f"{pre} -> {post} at {where}"}
        else:  # cancel, addressed (directly or by forwarding) to `target`
            if not pre[target]["called"]:
                spec = specs[target]
                want_calls = pre[target]["calls"] + (0 if spec == "n" else 1)
                if post[target]["calls"] != want_calls:
                    yield {"key": "canceller-call-count",
                            "detail": f"canceller of Deferred {target} called {post[target]['calls'] - pre[target]['calls']} time(s) at {where}"}
                want = _expected_cancel_delivery(spec)
                if not post[target]["called"] or post[target]["delivered"] != [want]:
                    key = "raising-canceller-leaves-unfired" if spec == "r" else "cancel-did-not-errback"
                    yield {"key": key,
                            "detail": f"after cancel() Deferred {target} (canceller {spec}) has called={post[target]['called']} "
                                      f"delivered={post[target]['delivered']} (expected [{want}]), outcome {o}, at {where}"}
                if o == "A":
                    # "unless the canceller fired it": cancel() tried to give a fired Deferred a second result
                    yield {"key": "cancel-errbacked-a-fired-deferred", "detail": f"cancel() raised AlreadyCalledError at {where}"}
                if spec == "n":
                    pending_ignore[target] = not amb_consumed
                # no other Deferred is fired or cancelled by this (the ones waiting on it resume and, running their
                # callbacks, may take over the result of an already-fired one: `result` is not compared)
                for j in range(len(post)):
                    if j != target and any(post[j][f] != pre[j][f] for f in ("called", "calls", "delivered")):
                        yield {"key": "cancel-touched-unrelated", "detail": f"Deferred {j} changed at {where}"}
            else:
                # fired and not waiting on anything: no effect at all
                if o != "ok" or post != pre or recs:
                    yield {"key": "cancel-on-fired-had-effect", "detail": f"outcome {o}; {pre} -> {post} at {where}"}
        cells = post
    if len(steps) != len(ops):
        yield {"key": "unparsable", "detail": "missing steps"}


KNOWN_KEY = "raising-canceller-leaves-unfired"


def oracle(c, out):
    """first violation of the history; a violation of any other class than the recorded finding takes
    precedence, so the finding cannot mask something new later in the same history"""
    first = None
    for v in _violations(c, out):
        if v["key"] != KNOWN_KEY:
            return v
        first = first or v
    return first


# ------------------------------------------------------------------------------------------

def _kind(op):
    if op.startswith("fi"):
        return "fi" + op.split(":")[1][0]
    if op.startswith("xi"):
        return "xi"
    if op[0] == "r":
        return "r" + ("o" if op[1] == "o" else "i") + op.split(":")[1][:2]
    if op[0] in "ai":
        return op[:2] + op.split(":")[1][0]
    return op[:2] if op != "x" else "x"


def tag(c, out):
    steps = []
    try:
        steps = _parse(out)
    except Exception:
        return "unparsable"
    sig = set()
    prev = None
    for op, (o, post, recs) in zip([op for op in c["ops"] if op[0] != "D"], steps):
        st = ""
        if prev is not None:
            st = ("F" if prev[0]["called"] else "U") + ("w" if prev[0]["result"].startswith("d") else "")
        else:
            st = "U"
        sig.add(f"{_kind(op)}@{st}:{o}" + "".join(sorted({f"+{a[:2]}{ro}" for (_t, a, ro, _s) in recs})))
        prev = post
    feats = "".join(sorted(f[0] for f in _features(c) if f != "dbg"))
    return c["spec"][0] + feats + "|" + ",".join(sorted(sig))


def _with_flags(c, d):
    for k in ("dbg", "sub"):
        if c.get(k):
            d[k] = c[k]
    return d


def shrink(c):
    for d in _shrink(c):
        yield _with_flags(c, d)
    for k in ("dbg", "sub"):
        if c.get(k):
            d = {kk: v for kk, v in c.items() if kk != k}
            yield d
    # simpler forms of the same operation
    for i, op in enumerate(c["ops"]):
        p = _parse_op(op)
        if p["kind"] == "fire" and p["form"] in "fnc":
            simple = f"eb{p['n']}" if p["target"] == 0 else f"fi{p['target'] - 1}:e{p['n']}"
            yield _with_flags(c, {"spec": c["spec"], "ops": c["ops"][:i] + [simple] + c["ops"][i + 1:]})


_REF = re.compile(r"^(fi|xi|ic|ib|ri)(\d+)(.*)$")


def _shrink(c):
    ops = c["ops"]
    for i in range(len(ops)):
        cand = ops[:i] + ops[i + 1:]
        # keep inner indices meaningful: dropping an add renumbers later inners
        if _parse_op(ops[i])["kind"] == "add":
            k = _n_inners(ops[:i])
            new, ok = [], True
            for o in cand:
                m = _REF.match(o)
                if m:
                    idx = int(m.group(2))
                    if idx == k:
                        ok = False
                        break
                    if idx > k:
                        idx -= 1
                    new.append(f"{m.group(1)}{idx}{m.group(3)}")
                else:
                    new.append(o)
            if not ok:
                continue
            cand = new
        yield {"spec": c["spec"], "ops": cand}
    if c["spec"] != "n":
        yield {"spec": "n", "ops": ops}


def search(rng, tier, disagreeing):
    """property-directed search: every history up to depth 4 (5 thorough) with every canceller kind,
    plus every prefix/extension of the disagreeing cases."""
    for c in disagreeing[:50]:
        for k in range(len(c["ops"]) + 1):
            yield _with_flags(c, {"spec": c["spec"], "ops": c["ops"][:k]})
            for t in ("x", "cb1", "x cb1 cb2".split()):
                yield _with_flags(c, {"spec": c["spec"], "ops": c["ops"][:k] + (t if isinstance(t, list) else [t])})
    depth = 4 if tier == "quick" else 5
    for spec in SPECS:
        for d in range(1, depth + 1):
            for ops in _enumerate(d, reduced=False):
                yield {"spec": spec, "ops": ops}
