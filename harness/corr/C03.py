"""C03 — a Deferred delivers one result; cancellation follows its protocol.

Real `twisted.internet.defer.Deferred` objects driven through a history of operations vs the
Lean model `TwistedModel/Defer/Cancel.lean`, plus an oracle that evaluates the six rules of the
property statement directly on what the real objects did (independent of the model).
"""
import re

from twisted.internet import defer
from twisted.internet.defer import AlreadyCalledError, CancelledError, Deferred
from twisted.python.failure import Failure

HEADLINE = "TwistedProps.C03.protocol_all_histories_partial"
RULE = ("histories over {callback, errback, cancel, addCallback/addBoth of a callback returning a fresh unfired inner "
        "Deferred, fire inner i (callback/errback), cancel inner i} x outer canceller kind {none, returns, fires callback, "
        "fires errback, raises} x the same five kinds for every inner Deferred. quick: EVERY history of length <= 3 over that "
        "full alphabet and of length <= 5 over the statement's bare alphabet {callback, errback, cancel, add, fire latest inner}, "
        "for each of the 5 outer canceller kinds, + 1500 random histories of length <= 40; thorough: lengths <= 4 / <= 7 "
        "(length 8 for the canceller-less Deferred) + 40000 random; "
        "distinct = (outer canceller kind, set of (operation kind, outer fired?/waiting?, outcome))")
ASSUMES = [
    "the only user callbacks are `lambda _: inner_i` (addCallback/addBoth); each inner Deferred is returned by exactly one callback and has no callbacks of its own",
    "cancellers are one of: absent, returns, fires callback(v), fires errback(e), raises an Exception subclass (not BaseException such as KeyboardInterrupt)",
    "no pause()/unpause() by the user, Deferred.debug off, no re-entrant operations from inside callbacks",
]
TRUSTED = ["the probe callback (first addBoth on every Deferred, returns its argument) used to observe delivered results"]
MANIFEST = {
    "text": "Lean theorems (TwistedProps/C03.lean) over ALL histories of any length (invariant of every reachable state of the "
            "model): every Deferred is given at most one result; a further callback/errback raises AlreadyCalledError and changes "
            "nothing, except exactly one that is ignored after cancel() on a canceller-less Deferred; cancel() on an unfired "
            "Deferred calls the canceller exactly once and fires it (canceller's result, else CancelledError) PROVIDED the "
            "canceller does not raise; cancel() on a fired Deferred is exactly cancel() on the (unfired) Deferred it waits on, "
            "otherwise a no-op; operations on one Deferred never fire/cancel another. For a RAISING canceller the code violates "
            "the statement (counterexample theorem + replayed witness; known finding); the full statement is proved for the "
            "candidate repair. Model tied to defer.py by differential runs (per-operation outcome + "
            "called/result/canceller-count/delivered of every Deferred) incl. exhaustive short histories.",
    "note": "partial for the code as it is (hypothesis: the cancelled Deferred's canceller does not raise); trusts Lean kernel, "
            "the hand model of Deferred.cancel/_startRunCallbacks/the chaining part of _runCallbacks (differentially tied)",
    "technique": "Lean 4 proof (invariant over histories + refinement of the protocol automaton) + differential tie",
    "design_ref": "DESIGN.md §7 C03",
}

# which Deferred.cancel the Lean driver is asked to model.  "asis": an exception raised by the canceller
# propagates out of cancel() (the code as it is); "repaired": it is caught inside cancel() (candidate repair,
# not applied — see TwistedProps/C03.lean).
MODE = "asis"

SPECS = ["n", "z", "o7", "e3", "r"]


class UserError(Exception):
    def __init__(self, n):
        Exception.__init__(self, n)
        self.n = n


class CancellerBoom(Exception):
    pass


# ------------------------------------------------------------------------------------------
# cases: {"spec": <outer canceller>, "ops": [<op token>, …]}  (tokens = the driver protocol)

def corpus():
    return [
        # the hand-found defect: a canceller that raises
        {"spec": "r", "ops": ["x"]},
        {"spec": "n", "ops": ["x", "cb1", "cb2"], "dbg": True},      # Deferred debugging on: the one late callback is still ignored
        {"spec": "n", "ops": ["cb1", "ac:n", "x", "fi0:v3", "fi0:v4"], "dbg": True},
        {"spec": "r", "ops": ["x", "x", "cb1"]},
        {"spec": "n", "ops": ["cb1", "ac:r", "x"]},
        # one test per rule of the statement
        {"spec": "n", "ops": ["cb1", "cb2", "eb3"]},
        {"spec": "n", "ops": ["x", "cb1", "cb2", "eb3"]},
        {"spec": "n", "ops": ["x", "eb1", "x", "cb2"]},
        {"spec": "z", "ops": ["x", "cb1"]},
        {"spec": "o7", "ops": ["x", "x", "cb1"]},
        {"spec": "e3", "ops": ["ab:n", "x", "x", "fi0:v4", "fi0:v5"]},
        {"spec": "n", "ops": ["ac:z", "cb1", "x", "fi0:v2", "x"]},
        {"spec": "n", "ops": ["ac:n", "cb1", "x", "fi0:v2", "fi0:v3", "cb9"]},
        {"spec": "z", "ops": ["ac:o7", "ac:e3", "cb1", "x", "x", "x"]},
        {"spec": "n", "ops": ["ac:n", "fi0:e2", "ab:n", "cb1", "x", "cb5", "cb6"]},
        {"spec": "n", "ops": ["x", "ab:z", "cb1", "x", "cb2", "fi0:v1"]},
        {"spec": "n", "ops": ["cb1", "ac:n", "xi0", "ac:n", "fi0:v1", "fi1:e1", "ab:n", "x"]},
        {"spec": "n", "ops": []},
    ]


def _enumerate(depth, reduced):
    """every well-formed history of exactly `depth` ops"""
    def rec(prefix):
        if len(prefix) == depth:
            yield list(prefix)
            return
        n = sum(1 for o in prefix if o.startswith("a"))
        nxt = ["cb1", "eb2", "x"]
        if reduced:
            nxt += ["ac:n"]
            if n:
                nxt += [f"fi{n - 1}:v4"]
        else:
            nxt += ["ac:" + s for s in SPECS] + ["ab:n"]
            for i in range(n):
                nxt += [f"fi{i}:v4", f"fi{i}:e5", f"xi{i}"]
        for t in nxt:
            prefix.append(t)
            yield from rec(prefix)
            prefix.pop()
    yield from rec([])


def _random_history(rng, maxlen):
    n = rng.choice([1, 2, 3, 4, 5, 6, 8, 8, 12, 20, maxlen])
    ops, inner = [], 0
    style = rng.random()
    for _ in range(n):
        r = rng.random()
        if inner and r < (0.45 if style < 0.5 else 0.25):
            i = rng.randrange(inner) if rng.random() < 0.5 else inner - 1
            k = rng.random()
            ops.append(f"xi{i}" if k < 0.2 else (f"fi{i}:v{rng.randint(0, 9)}" if k < 0.7 else f"fi{i}:e{rng.randint(0, 9)}"))
        elif r < 0.6:
            ops.append(("ab:" if rng.random() < 0.3 else "ac:") + rng.choice(SPECS + ["n", "z"]))
            inner += 1
        elif r < 0.8:
            ops.append("x")
        elif r < 0.93:
            ops.append(f"cb{rng.randint(0, 9)}")
        else:
            ops.append(f"eb{rng.randint(0, 9)}")
    return ops


def generate(rng, tier):
    # bounded-exhaustive slice (the statement's own quantifier), on both sides
    full_depth = 3 if tier == "quick" else 4
    for spec in SPECS:
        for d in range(1, full_depth + 1):
            for ops in _enumerate(d, reduced=False):
                yield {"spec": spec, "ops": ops}
    red_depth = 5 if tier == "quick" else 7
    for spec in SPECS:
        for d in range(full_depth + 1, red_depth + 1):
            for ops in _enumerate(d, reduced=True):
                yield {"spec": spec, "ops": ops}
    if tier != "quick":       # the statement's "length <= 8", for the canceller-less Deferred
        for ops in _enumerate(8, reduced=True):
            yield {"spec": "n", "ops": ops}
    # the same bounded-exhaustive slice (shallower) with Deferred debugging switched on
    for spec in SPECS:
        for d in range(1, full_depth):
            for ops in _enumerate(d, reduced=False):
                yield {"spec": spec, "ops": ops, "dbg": True}
    n = 1500 if tier == "quick" else 40000
    for i in range(n):
        c = {"spec": rng.choice(SPECS + [f"o{rng.randint(0, 9)}", f"e{rng.randint(0, 9)}"]),
             "ops": _random_history(rng, 40)}
        if i % 4 == 2:
            c["dbg"] = True
        yield c


def model_line(c):
    return " ".join([MODE, c["spec"]] + list(c["ops"]))


# ------------------------------------------------------------------------------------------
# the real code

class _Cell:
    """a real Deferred + observation: canceller call count, results delivered to its first callback"""

    def __init__(self, spec):
        self.spec = spec
        self.calls = 0
        self.delivered = []
        self.d = Deferred(self._canceller if spec != "n" else None)
        self.d.addBoth(self._probe)

    def _probe(self, r):
        self.delivered.append(r)
        return r

    def _canceller(self, d):
        self.calls += 1
        k = self.spec[0]
        if k == "o":
            d.callback(int(self.spec[1:]))
        elif k == "e":
            d.errback(UserError(int(self.spec[1:])))
        elif k == "r":
            raise CancellerBoom()


def _res(r, cells):
    if isinstance(r, Deferred):
        for i, c in enumerate(cells[1:]):
            if c.d is r:
                return f"d{i}"
        return "d?"
    if isinstance(r, Failure):
        if r.check(CancelledError):
            return "X"
        if r.check(UserError):
            return f"e{r.value.n}"
        return "F:" + r.type.__name__
    if r is None:
        return "N"
    if isinstance(r, int):
        return f"v{r}"
    return "?" + type(r).__name__


_NO = object()


def _snap(cells):
    out = []
    for c in cells:
        r = getattr(c.d, "result", _NO)
        out.append(f"c{int(bool(c.d.called))}k{c.calls}r{'-' if r is _NO else _res(r, cells)}d"
                   + ",".join(_res(x, cells) for x in c.delivered))
    return ";".join(out)


def run_impl(c):
    # Deferred debugging (defer.setDebugging, what `trial --debug` / `twistd --debug` switch on) must not change any
    # observable of the statement (seeded change C03-2 moved the _suppressAlreadyCalled test into the non-debug branch)
    dbg = defer.getDebugging()
    defer.setDebugging(bool(c.get("dbg")))
    try:
        return _run_impl(c)
    finally:
        defer.setDebugging(dbg)


def _run_impl(c):
    cells = [_Cell(c["spec"])]
    outer = cells[0]
    toks = []
    try:
        for op in c["ops"]:
            try:
                if op == "x":
                    outer.d.cancel()
                elif op.startswith("cb"):
                    outer.d.callback(int(op[2:]))
                elif op.startswith("eb"):
                    outer.d.errback(UserError(int(op[2:])))
                elif op.startswith("ac:") or op.startswith("ab:"):
                    inner = _Cell(op[3:])
                    cells.append(inner)
                    f = (lambda _r, _d=inner.d: _d)
                    if op.startswith("ab:"):
                        outer.d.addBoth(f)
                    else:
                        outer.d.addCallback(f)
                elif op.startswith("xi"):
                    cells[1 + int(op[2:])].d.cancel()
                elif op.startswith("fi"):
                    i, r = op[2:].split(":")
                    d = cells[1 + int(i)].d
                    if r[0] == "v":
                        d.callback(int(r[1:]))
                    else:
                        d.errback(UserError(int(r[1:])))
                else:
                    raise ValueError("bad op " + op)
                o = "ok"
            except AlreadyCalledError:
                o = "A"
            except CancellerBoom:
                o = "B"
            toks.append(o + "|" + _snap(cells))
    finally:
        for cell in cells:  # no "Unhandled error in Deferred" noise at garbage collection
            cell.d.addErrback(lambda f: None)
    return " ".join(toks) if toks else "-"


# ------------------------------------------------------------------------------------------
# the property, evaluated on the implementation's observable (independent of the Lean model)

_CELL = re.compile(r"^c([01])k(\d+)r(-|v\d+|e\d+|X|N|d\d+|d\?|F:\w+|\?\w+)d(.*)$")


def _parse_cell(t):
    m = _CELL.match(t)
    if not m:
        raise ValueError("bad cell " + t)
    return {"called": m.group(1) == "1", "calls": int(m.group(2)), "result": m.group(3),
            "delivered": m.group(4).split(",") if m.group(4) else []}


def _parse(out):
    steps = []
    if out == "-":
        return steps
    for tok in out.split(" "):
        o, snap = tok.split("|")
        steps.append((o, [_parse_cell(t) for t in snap.split(";")]))
    return steps


def _expected_cancel_delivery(spec):
    k = spec[0]
    if k == "o":
        return "v" + spec[1:]
    if k == "e":
        return "e" + spec[1:]
    return "X"           # absent, returns, raises: errbacked with CancelledError


def _violations(c, out):
    if out.startswith("!raised"):
        yield {"key": "unexpected-exception", "detail": out}
        return
    try:
        steps = _parse(out)
    except Exception as e:  # unparsable observable = something unforeseen happened
        yield {"key": "unparsable", "detail": f"{out!r}: {e}"}
        return
    specs = [c["spec"]]
    cells = [{"called": False, "calls": 0, "result": "-", "delivered": []}]
    pending_ignore = [False]      # the statement's "exactly one later callback or errback is silently ignored"
    for n, (op, (o, post)) in enumerate(zip(c["ops"], steps)):
        where = f"op #{n} {op!r} of spec={c['spec']} ops={' '.join(c['ops'])}"
        pre = cells
        if op.startswith("a"):
            specs.append(op[3:])
            pending_ignore.append(False)
            pre = pre + [{"called": False, "calls": 0, "result": "-", "delivered": []}]
        # global: one result per Deferred, ever
        for j, cell in enumerate(post):
            if len(cell["delivered"]) > 1:
                yield {"key": "two-results", "detail": f"Deferred {j} was given {cell['delivered']} after {where}"}
            if j < len(pre) and pre[j]["delivered"] and cell["delivered"] != pre[j]["delivered"]:
                yield {"key": "result-replaced", "detail": f"Deferred {j}: {pre[j]['delivered']} -> {cell['delivered']} at {where}"}
            if j < len(pre) and cell["calls"] < pre[j]["calls"]:
                yield {"key": "unparsable", "detail": "call count decreased"}
        # which Deferred does the operation address?
        target = None
        if op.startswith("cb") or op.startswith("eb"):
            target, kind = 0, "fire"
        elif op.startswith("fi"):
            target, kind = 1 + int(op[2:].split(":")[0]), "fire"
        elif op.startswith("xi"):
            target, kind = 1 + int(op[2:]), "cancel"
        elif op == "x":
            target, kind = 0, "cancel"
            if pre[0]["called"] and pre[0]["result"].startswith("d") and pre[0]["result"][1:].isdigit():
                # fired and waiting on another Deferred: "cancels that Deferred"
                target = 1 + int(pre[0]["result"][1:])
                if post[0]["calls"] != pre[0]["calls"]:
                    yield {"key": "chained-cancel-called-own-canceller", "detail": where}
        if target is None:
            if o != "ok":
                yield {"key": "add-raised", "detail": where}
        elif kind == "fire":
            if not pre[target]["called"]:
                # the one callback/errback a Deferred accepts
                want = op[2:] if target == 0 else op.split(":")[1]
                want = ("v" if op.startswith("cb") else "e") + want if target == 0 else want
                if o != "ok" or not post[target]["called"] or post[target]["delivered"] != [want]:
                    yield {"key": "first-result-not-accepted",
                            "detail": f"outcome {o}, delivered {post[target]['delivered']} at {where}"}
            elif pending_ignore[target]:
                pending_ignore[target] = False
                if o != "ok" or post != pre:
                    yield {"key": "late-result-after-cancel-not-ignored", "detail": f"outcome {o}; {pre} -> {post} at {where}"}
            else:
                if o != "A":
                    yield {"key": "second-result-accepted", "detail": f"outcome {o} (expected AlreadyCalledError) at {where}"}
                if post != pre:
                    yield {"key": "second-result-changed-state", "detail": f"{pre} -> {post} at {where}"}
        else:  # cancel, addressed (directly or by forwarding) to `target`
            if not pre[target]["called"]:
                spec = specs[target]
                want_calls = pre[target]["calls"] + (0 if spec == "n" else 1)
                if post[target]["calls"] != want_calls:
                    yield {"key": "canceller-call-count",
                            "detail": f"canceller of Deferred {target} called {post[target]['calls'] - pre[target]['calls']} time(s) at {where}"}
                want = _expected_cancel_delivery(spec)
                if not post[target]["called"] or post[target]["delivered"] != [want]:
                    key = "raising-canceller-leaves-unfired" if spec == "r" else "cancel-did-not-errback"
                    yield {"key": key,
                            "detail": f"after cancel() Deferred {target} (canceller {spec}) has called={post[target]['called']} "
                                      f"delivered={post[target]['delivered']} (expected [{want}]), outcome {o}, at {where}"}
                if spec == "n":
                    pending_ignore[target] = True
                # no other Deferred is fired or cancelled by this (the outer one may resume and, running its
                # callbacks, take over the result of an already-fired inner one: `result` is not compared)
                for j in range(len(post)):
                    if j not in (target, 0) and any(post[j][f] != pre[j][f] for f in ("called", "calls", "delivered")):
                        yield {"key": "cancel-touched-unrelated", "detail": f"Deferred {j} changed at {where}"}
            else:
                # fired and not waiting on anything: no effect at all
                if o != "ok" or post != pre:
                    yield {"key": "cancel-on-fired-had-effect", "detail": f"outcome {o}; {pre} -> {post} at {where}"}
        cells = post
    if len(steps) != len(c["ops"]):
        yield {"key": "unparsable", "detail": "missing steps"}


KNOWN_KEY = "raising-canceller-leaves-unfired"


def oracle(c, out):
    """first violation of the history; a violation of any other class than the recorded finding takes
    precedence, so the finding cannot mask something new later in the same history"""
    first = None
    for v in _violations(c, out):
        if v["key"] != KNOWN_KEY:
            return v
        first = first or v
    return first


# ------------------------------------------------------------------------------------------

def _kind(op):
    if op.startswith("fi"):
        return "fi" + op.split(":")[1][0]
    if op.startswith("xi"):
        return "xi"
    if op[0] == "a":
        return op[:2] + op[3]
    return op[:2] if op != "x" else "x"


def tag(c, out):
    steps = []
    try:
        steps = _parse(out)
    except Exception:
        return "unparsable"
    sig = set()
    prev = None
    for op, (o, post) in zip(c["ops"], steps):
        st = ""
        if prev is not None:
            st = ("F" if prev[0]["called"] else "U") + ("w" if prev[0]["result"].startswith("d") else "")
        else:
            st = "U"
        sig.add(f"{_kind(op)}@{st}:{o}")
        prev = post
    return c["spec"][0] + "|" + ",".join(sorted(sig))


def shrink(c):
    for d in _shrink(c):
        if c.get("dbg"):
            d["dbg"] = True
        yield d
    if c.get("dbg"):
        yield {"spec": c["spec"], "ops": c["ops"]}


def _shrink(c):
    ops = c["ops"]
    for i in range(len(ops)):
        cand = ops[:i] + ops[i + 1:]
        # keep inner indices meaningful: dropping an add renumbers later inners
        if ops[i].startswith("a"):
            k = sum(1 for o in ops[:i] if o.startswith("a"))
            new, ok = [], True
            for o in cand:
                if o.startswith("fi") or o.startswith("xi"):
                    head = o[:2]
                    rest = o[2:]
                    idx = int(rest.split(":")[0])
                    tail = rest[len(str(idx)):]
                    if idx == k:
                        ok = False
                        break
                    if idx > k:
                        idx -= 1
                    new.append(f"{head}{idx}{tail}")
                else:
                    new.append(o)
            if not ok:
                continue
            cand = new
        yield {"spec": c["spec"], "ops": cand}
    if c["spec"] != "n":
        yield {"spec": "n", "ops": ops}


def search(rng, tier, disagreeing):
    """property-directed search: every history up to depth 4 (5 thorough) with every canceller kind,
    plus every prefix/extension of the disagreeing cases."""
    for c in disagreeing[:50]:
        for k in range(len(c["ops"]) + 1):
            yield {"spec": c["spec"], "ops": c["ops"][:k]}
            for t in ("x", "cb1", "x cb1 cb2".split()):
                yield {"spec": c["spec"], "ops": c["ops"][:k] + (t if isinstance(t, list) else [t])}
    depth = 4 if tier == "quick" else 5
    for spec in SPECS:
        for d in range(1, depth + 1):
            for ops in _enumerate(d, reduced=False):
                yield {"spec": spec, "ops": ops}
