"""C28 — template flattening never lets content become markup.

Tie: the real `flattenString` on generated `_stan` trees vs the Lean model of `_flattenElement`
(bytes must be equal; for large content and scaled buffer sizes the chunk-level model `FlattenIO`
with `bufferedWrite`), and the Lean tokenizers vs real parsers on the real output: stdlib expat
for the XML reading, a Python transcription of the WHATWG tokenizer states for the HTML reading
(html5lib is not installed).

Oracle (independent of the Lean model): every tree is flattened twice by the real code — once
as generated (hostile content) and once with every content string replaced by a unique
alphanumeric placeholder.  Both documents are parsed (expat; HTML tokenizer with and without
CDATA recognition).  The hostile document must have exactly the benign document's markup
(same element/attribute/comment tokens in the same order) and every payload must be the benign
payload with the placeholders replaced by the content (comments: by `escapedComment(content)`,
the documented rewrite; attribute values: additionally equal to the bytes the real code handed
to `writeWithAttributeEscaping`).
"""
import html as _html
import warnings
import re
from xml.parsers import expat

from twisted.internet.defer import Deferred, succeed
from twisted.web import _flatten
from twisted.web._stan import CDATA, CharRef, Comment, Tag, slot
from twisted.web.error import FlattenerError
from twisted.web.iweb import IRenderable
from zope.interface import implementer

warnings.filterwarnings("ignore", category=RuntimeWarning)

HEADLINE = "TwistedProps.C28.html_roundtrip / xml_roundtrip_partial / buffering_invisible"
RULE = ("random _stan trees (depth <= 5; Tag/transparent Tag/render-directive Tag, slot with and without default, "
        "Comment, CDATA, list/tuple/generator, fired/unfired Deferred, coroutine, IRenderable) whose strings (str and "
        "bytes; text, attribute values, slot values, comment and CDATA content) come from a hostile alphabet "
        "(< > & quotes -- --> --!> ]]> <!-- control characters, non-ASCII); plus, for one comment / CDATA / text / "
        "attribute, every string of length <= L over {- > ! < ] & \" a}; "
        "plus LARGE content with the real BUFFER_SIZE (64 KiB): one string longer than k*BUFFER_SIZE (k = 1..3; text, attribute, "
        "slot value, comment, CDATA; also inside an attribute value, behind an unfired Deferred, from a renderer, inside a random "
        "tree) whose hostile cluster (]]> --> --!> & < \" multi-byte UTF-8 ...) begins at every offset around the multiple, in the "
        "data and in the output, over benign and hostile padding; documents of small strings whose accumulated output crosses "
        "BUFFER_SIZE in the middle of a hostile subtree; and the same class at small scale: _flatten.BUFFER_SIZE set to 1..64 "
        "while the case runs (every string of length <= L for comment/CDATA with BUFFER_SIZE 2 and 3, random trees); "
        "plus (white-box mutation audit, harness/mutants/C28) strings that begin with / contain a shape a special case could be "
        "keyed on (URL forms with '://', scheme prefixes, '<?xml', '<!DOCTYPE', '</script>', ready-made entities, template "
        "syntax, NEL / NBSP / BOM / U+2028) mixed with hostile characters in every kind of place; element and attribute names "
        "with a special meaning to some consumer (script, style, textarea, title, pre, table, template, math, meta, t:slot ...; "
        "xmlns, xmlns:*, style, on*, src, srcdoc, value ...) around hostile content (25% of all names); CharRef nodes (markup "
        "characters, ASCII, non-ASCII) in text, directly in attribute values, below a Tag inside an attribute value, in slot "
        "defaults, behind Deferreds and renderers, next to CDATA/comments and to text that would complete a reference; "
        "an IRenderable whose render() flattens ANOTHER document to a string (re-entrant flattenString) before it returns its "
        "content - at the start / middle / end of the outer document, inside an attribute value, behind a Deferred, nested; "
        "and cases ('inter') in which another document is flattened completely every time the case's own flattening waits "
        "for an unfired Deferred; "
        "distinct = (node kinds present, hostile sequences present, outcome, buffer size in effect / a string longer than it / "
        "accumulated output longer than it / a multi-byte hostile sequence straddling a multiple of it, interleaved or not, "
        "'://' present, special names present)")
ASSUMES = [
    "tag and attribute names are valid for the reading in question (XML: [A-Za-z_:][-A-Za-z0-9_:.]*; HTML: first character an "
    "ASCII letter) and an element's attribute names are distinct (case-insensitively for HTML); the flattener does not validate names",
    "slot values held in Tag.slotData are str/bytes (possibly inside a Deferred); renderers, render(), Deferreds and coroutines "
    "are resolved to the tree they return",
    "CharRef(n) (not one of the statement's strings; n a character both readings can represent: no controls, no 128..159, "
    "no surrogates) stands for the character n: the oracle's inert document has a text node in its place and the text "
    "payload must contain the character.  Directly in an attribute value the code hands the bytes '&#n;' to the attribute "
    "writer, which escapes the '&' (the value reads back as the literal text '&#n;'): there only the markup clause and "
    "'value = what was handed to the writer' are required.  The Lean model has no CharRef constructor: the model line "
    "carries a stand-in text node (the text '&#n;' in attribute position, which writes the same bytes there; an inert "
    "alphanumeric text in content position, replaced in the model's bytes by '&#n;' escaped once per enclosing attribute "
    "value) and such cases are compared on the flattened bytes only",
    "a document flattened from inside render() or while another flattening waits is, to the model, invisible (the model "
    "has no state outside one flattenString call); the oracle requires every such document to equal its stand-alone flattening",
    "HTML reading: tokenizer only — the element is not one whose content model the tree builder switches "
    "(script, style, textarea, title, xmp, iframe, noembed, noframes, noscript, plaintext); no CR/LF preprocessing, no NUL replacement",
    "XML reading: bytes are read as Latin-1 (any byte string is a character string); payloads are compared modulo XML line-end "
    "and attribute-value whitespace normalisation (#xD #xA, #xD -> #xA; TAB/LF/CR -> space in attribute values)",
    "bytes content is in the document encoding (the flattener passes bytes through unchanged)",
    "cases with a 'bs' field run with the module constant twisted.web._flatten.BUFFER_SIZE set to that value (restored "
    "afterwards); the cases without it use the real 2**16 and strings of real size",
    "large cases (> 4096 content bytes) are model-compared on the flattened bytes only (Lean's tokenizers are the "
    "proof-friendly quadratic ones); the oracle still parses them with expat and the Python WHATWG transcription",
]
TRUSTED = ["stdlib pyexpat as the XML parser", "harness/corr/C28.py:html_tokens — hand transcription of the WHATWG tokenizer states "
           "(html5lib is not installed); html.unescape for character references"]
MANIFEST = {
    "text": "Lean theorems (TwistedProps/C28.lean) over the model of _flattenElement and two tokenizers (XML subset; WHATWG HTML "
            "tokenizer states incl. all comment-end forms): for every tree with valid names, tokenizing the flattened bytes yields "
            "exactly the tree's own markup with every string inside a text/attribute/comment payload — so no content can open, close "
            "or alter markup. HTML reading proved in full after the escapedComment repair; XML reading proved for documents without "
            "'--' inside comments and without non-XML characters (both recorded findings). No statement bounds the size of a "
            "string or of the document; the chunk-level model (every write call, writeWithAttributeEscaping per chunk, "
            "bufferedWrite/flushBuffer for ANY BUFFER_SIZE, flush before awaited Deferreds) is proved to deliver exactly the same "
            "bytes (buffering_invisible, html_roundtrip_buffered); escaping slice by slice is proved safe for text/attribute "
            "escaping and refuted for escapedCDATA/escapedComment (cdata_slices_counterexample). Model tied to _flatten.py and the "
            "tokenizers tied to expat / a transcription of the WHATWG states by differential runs on hostile trees, including "
            "strings longer than BUFFER_SIZE with hostile sequences straddling its multiples, URL-/entity-/markup-shaped strings, "
            "element and attribute names that are special to HTML/XML consumers, CharRef nodes (byte-level tie through stand-ins; "
            "not covered by the theorems), and re-entrant / interleaved flattenString calls (15 white-box mutants, "
            "harness/mutants/C28/README.md).",
    "note": "html5lib unavailable: the HTML half relies on hand transcriptions (Lean + Python) of the WHATWG tokenizer states; "
            "trusts Lean kernel, pyexpat, CPython bytes.replace / re.sub",
    "technique": "Lean 4 proof (state-machine simulation lemmas + induction over the tree) + differential tie + placeholder-substitution oracle",
    "design_ref": "DESIGN.md §7 C28",
}

VOID = ("img", "br", "hr", "base", "meta", "link", "param", "area", "input", "col", "basefont", "isindex", "frame",
        "command", "embed", "keygen", "source", "track", "wbs")

# ------------------------------------------------------------------------------------------
# wire encoding


def hx(b):
    return b.hex() if b else "-"


# A content string of a case is hex, or (for large content) run-length segments joined by '+', each `hex` or
# `hex*count` ("61*65534+5d5d3e" = 65534 times 'a' then ']]>').  The Lean driver reads the same notation.

def _segs(h):
    """encoded content -> [(bytes, count)]"""
    out = []
    for seg in h.split("+"):
        if "*" in seg:
            x, n = seg.split("*")
            out.append((bytes.fromhex(x), int(n)))
        elif seg:
            out.append((bytes.fromhex(seg), 1))
    return out


def _enc(segs):
    """[(bytes, count)] -> encoded content"""
    return "+".join(b.hex() if n == 1 else "%s*%d" % (b.hex(), n) for b, n in segs if b and n > 0)


_CB = {}


def cb(h):
    """the bytes an encoded content string stands for"""
    if "*" not in h and "+" not in h:
        return bytes.fromhex(h)
    r = _CB.get(h)
    if r is None:
        if len(_CB) > 64:
            _CB.clear()
        r = _CB[h] = b"".join(b * n for b, n in _segs(h))
    return r


def wire(h):
    return h if h else "-"


_RUN = re.compile(rb"(.)\1{15,}", re.S)


def hxr(b):
    """hex with every maximal run of >= 16 equal bytes written `xx*n` (segments joined by '+'); the driver's `hexR`"""
    if not b:
        return "-"
    segs, pos = [], 0
    for m in _RUN.finditer(b):
        if m.start() > pos:
            segs.append(b[pos:m.start()].hex())
        segs.append("%02x*%d" % (b[m.start()], m.end() - m.start()))
        pos = m.end()
    if pos < len(b):
        segs.append(b[pos:].hex())
    return "+".join(segs)


def _frame_line(fr):
    if fr is None:
        return "N"
    if not fr:
        return "_"
    return ",".join(hx(k.encode("ascii")) + "=" + wire(v[0]) for k, v in fr.items())


def _name_bytes(name, kind):
    return name.encode("latin-1")


def node_line(n, out):
    k = n[0]
    if k in ("T", "C", "D"):
        out += [k, wire(n[1])]
    elif k == "S":
        out += ["S", hx(n[1].encode("ascii"))]
    elif k == "SD":
        out += ["SD", hx(n[1].encode("ascii"))]
        node_line(n[2], out)
    elif k == "G":
        _, name, nk, fr, attrs, ch, _ck = n
        out += ["G", hx(_name_bytes(name, nk)), _frame_line(fr), str(len(attrs))]
        for an, ak, av in attrs:
            out.append(hx(_name_bytes(an, ak)))
            node_line(av, out)
        out.append(str(len(ch)))
        for c in ch:
            node_line(c, out)
    elif k == "R":
        out += ["R", _frame_line(n[1])]
        node_line(n[2], out)
    elif k == "L":
        out += ["L", str(len(n[2]))]
        for c in n[2]:
            node_line(c, out)
    elif k == "F":
        out.append("F")
        node_line(n[2], out)
    elif k == "E":
        out.append("E")
        node_line(n[1], out)
    elif k == "N":                       # IRenderable whose render() flattens another tree first: to the model an IRenderable
        out.append("E")
        node_line(n[2], out)
    elif k == "X":                       # CharRef: see `_charref_plan`
        out += ["T", n[2].hex()]
    else:
        raise ValueError(k)


# ---- CharRef nodes ["X", ordinal].  The Lean model has no CharRef constructor.  What the code writes for one is the
# ASCII bytes `&#N;` handed to the `write` in effect.  Directly in an attribute value (dataEscaper =
# attributeEscapingDoneOutside) that is exactly what the text node "&#N;" writes there, so the model line carries that
# text node.  In content position (dataEscaper = escapeForContent, possibly below d enclosing attribute values) no
# text node writes `&#N;`; the model line carries an inert alphanumeric text node (unchanged by every escaper) and the
# comparison replaces it in the model's bytes by `&#N;` escaped d times by the attribute writer's rule.

def _xph(i):
    return b"zc%dcz" % i


def _attr_esc(b):
    return b.replace(b"&", b"&amp;").replace(b"<", b"&lt;").replace(b">", b"&gt;").replace(b'"', b"&quot;")


def _charref_plan(n, mode="c", depth=0, plan=None):
    """a copy of the case tree with every X node given its stand-in text (third element) + {stand-in: real bytes}"""
    if plan is None:
        plan = {}
    k = n[0]
    if k == "X":
        ref = b"&#%d;" % n[1]
        if mode == "a":
            return ["X", n[1], ref], plan
        ph = _xph(len(plan))
        real = ref
        for _ in range(depth):
            real = _attr_esc(real)
        plan[ph] = real
        return ["X", n[1], ph], plan
    if k == "G":
        _, name, nk, fr, attrs, ch, ck = n
        transparent = name == ""
        na = [[an, ak, _charref_plan(av, "a", depth + 1, plan)[0]] for an, ak, av in attrs]
        nc = [_charref_plan(c, mode if transparent else "c", depth, plan)[0] for c in ch]
        return ["G", name, nk, fr, na, nc, ck], plan
    if k in ("SD", "R", "F"):
        return n[:2] + [_charref_plan(n[2], mode, depth, plan)[0]], plan
    if k == "N":
        return ["N", n[1], _charref_plan(n[2], mode, depth, plan)[0]], plan
    if k == "E":
        return ["E", _charref_plan(n[1], mode, depth, plan)[0]], plan
    if k == "L":
        return ["L", n[1], [_charref_plan(c, mode, depth, plan)[0] for c in n[2]]], plan
    return n, plan


def has_charref(t):
    return "X" in kinds(t, set())


BIG = 4096   # total content bytes above which a case is compared on the flattened bytes only (`flatb`): the Lean
             # tokenizers are the proof-friendly quadratic ones (`cur ++ [c]`), the flattener model is linear


def is_big(c):
    return sum(len(x) for x in _strings(c["tree"], [])) > BIG


def model_line(c):
    """small cases with the real BUFFER_SIZE: the chunk-free model `flatten` (+ the three tokenizations); cases with a
    scaled BUFFER_SIZE and large cases: the chunk-level model (`FlattenIO`: every write call, the attribute wrappers,
    bufferedWrite/flushBuffer with that BUFFER_SIZE) — the two are proved equal (`buffering_invisible`)"""
    tree = c["tree"]
    big = bytes_only(c)
    if "bs" in c or big:
        out = ["flatbw" if big else "flatw", str(c.get("bs", REAL_BUFFER_SIZE))]
    else:
        out = ["flat"]
    if has_charref(tree):
        tree = _charref_plan(tree)[0]
    node_line(tree, out)
    return " ".join(out)


def bytes_only(c):
    """compared on the flattened bytes only: large cases, and cases with a CharRef (the model's bytes carry stand-ins)"""
    return is_big(c) or has_charref(c["tree"])


# ------------------------------------------------------------------------------------------
# building the real objects


@implementer(IRenderable)
class _Renderable:
    def __init__(self, result, registry):
        self.result, self.registry = result, registry

    def render(self, request):
        return self.result()

    def lookupRenderMethod(self, name):
        thunk = self.registry[name]
        return lambda request, tag: thunk()


class Builder:
    """Builds the `_stan` objects of a case.  `sub` maps a content string (by occurrence index) to its
    replacement: None = as generated; otherwise a function index -> bytes."""

    def __init__(self, sub=None):
        self.sub = sub
        self.n = 0            # content occurrence counter (depth-first over the case tree; frames before children)
        self.contents = []    # (kind of place, original bytes, used bytes)
        self.pending = []     # Deferreds to fire after flattenString was called
        self.registry = {}
        self.rn = 0
        self.sides = []       # (case tree, result list) of every flattenString run from inside a render()

    def content(self, h, kind, place):
        orig = cb(h)
        i = self.n
        self.n += 1
        used = orig if self.sub is None else self.sub(i, orig, place)
        self.contents.append((place, orig, used))
        if kind == "s":
            try:
                return used.decode("utf-8")
            except UnicodeDecodeError:
                return used
        return used

    def frame(self, fr):
        if fr is None:
            return None
        d = {}
        for k, (h, kind, wrap) in fr.items():
            v = self.content(h, kind, "slot")
            if wrap == "deferred":
                v = succeed(v)
            d[k] = v
        return d

    def build(self, n):
        k = n[0]
        if k == "T":
            return self.content(n[1], n[2], "text")
        if k == "C":
            return Comment(self.content(n[1], n[2], "comment"))
        if k == "D":
            return CDATA(self.content(n[1], n[2], "cdata"))
        if k == "S":
            return slot(n[1])
        if k == "SD":
            return slot(n[1], self.build(n[2]))
        if k == "G":
            _, name, nk, fr, attrs, ch, ck = n
            tn = name if nk == "s" else name.encode("latin-1")
            t = Tag(tn)
            t.slotData = self.frame(fr)
            for an, ak, av in attrs:
                t.attributes[an if ak == "s" else an.encode("latin-1")] = self.build(av)
            t.children = [self.build(c) for c in ch]
            return t
        if k == "R":
            self.rn += 1
            name = "r%d" % self.rn
            t = Tag("div", render=name)
            t.slotData = self.frame(n[1])
            sub = n[2]
            self.registry[name] = lambda: self.build(sub)
            return t
        if k == "L":
            items = [self.build(c) for c in n[2]]
            if n[1] == "tuple":
                return tuple(items)
            if n[1] == "gen":
                return (x for x in items)
            return items
        if k == "F":
            v = self.build(n[2])
            if n[1] == "fired":
                return succeed(v)
            if n[1] == "coro":
                async def coro():
                    return v
                return coro()
            d = Deferred()
            self.pending.append((d, v))
            return d
        if k == "E":
            sub = n[1]
            return _Renderable(lambda: self.build(sub), self.registry)
        if k == "N":
            side, sub = n[1], n[2]

            def render():
                # a render() that flattens another tree to a string first (an ETag, a cached fragment, a log line)
                # and then returns its own content: a re-entrant flattenString in the middle of the outer one
                res = []
                sb = Builder()
                saved = _flatten.writeWithAttributeEscaping          # the side document is not part of the capture
                _flatten.writeWithAttributeEscaping = getattr(saved, "real", saved)
                try:
                    _flatten.flattenString(None, sb.build(side)).addBoth(res.append)
                    for dd, v in sb.pending:
                        dd.callback(v)
                finally:
                    _flatten.writeWithAttributeEscaping = saved
                self.sides.append((side, res))
                return self.build(sub)
            return _Renderable(render, self.registry)
        if k == "X":
            orig = chr(n[1]).encode("utf-8")
            i = self.n
            self.n += 1
            used = orig if self.sub is None else self.sub(i, orig, "charref")
            self.contents.append(("charref", orig, used))
            if used == orig:
                return CharRef(n[1])
            return used.decode("utf-8")       # the inert stand-in of the benign run: a text node
        raise ValueError(k)


class _Capture:
    """Replaces `_flatten.writeWithAttributeEscaping` while a case runs: same behaviour (delegates to the
    real one) but records the raw bytes written into every *document-level* attribute value."""

    def __init__(self):
        self.values = []
        self.real = _flatten.writeWithAttributeEscaping

    def __call__(self, write):
        inner = self.real(write)
        nested = getattr(write, "_c28_nested", False)
        chunks = []
        if not nested:
            self.values.append(chunks)

        def _write(data):
            chunks.append(data)
            inner(data)
        _write._c28_nested = True
        return _write


REAL_BUFFER_SIZE = _flatten.BUFFER_SIZE


_INTER_DOC = ["G", "i", "s", {"s": ["3c26223e", "s", "plain"]}, [["id", "s", ["S", "s"]]], [["T", "3c5d5d3e26", "s"], ["S", "s"]], "list"]
_INTER_OUT = []


def _inter_run():
    """another, complete flattenString while the case's own one is suspended on a Deferred → its result"""
    res = []
    saved = _flatten.writeWithAttributeEscaping          # not part of the case's capture
    _flatten.writeWithAttributeEscaping = getattr(saved, "real", saved)
    try:
        _flatten.flattenString(None, Builder().build(_INTER_DOC)).addBoth(res.append)
    finally:
        _flatten.writeWithAttributeEscaping = saved
    return res[0] if res and isinstance(res[0], bytes) else None


def flatten_real(tree, sub=None, capture=False, bs=None, inter=False):
    """→ (bytes | None, wrapped exception class name | None, builder, [raw attribute values]).
    `bs`: value of `_flatten.BUFFER_SIZE` while the case runs (None = the real one, untouched).
    `inter`: every time the flattening is suspended on an unfired Deferred another document is flattened completely
    before the Deferred fires (results in builder.inter)."""
    b = Builder(sub)
    b.inter = []
    cap = _Capture() if capture else None
    if cap:
        _flatten.writeWithAttributeEscaping = cap
    if bs is not None:
        _flatten.BUFFER_SIZE = bs
    try:
        root = b.build(tree)
        res = []
        d = _flatten.flattenString(None, root)
        d.addBoth(res.append)
        guard = 0
        while not res and b.pending and guard < 10000:
            dd, v = b.pending.pop(0)
            if inter:
                b.inter.append(_inter_run())
            dd.callback(v)
            guard += 1
        for dd, v in b.pending:          # never awaited (flattening failed earlier)
            dd.addErrback(lambda f: None)
    finally:
        if cap:
            _flatten.writeWithAttributeEscaping = cap.real
        if bs is not None:
            _flatten.BUFFER_SIZE = REAL_BUFFER_SIZE
    if not res:
        return None, "NeverFired", b, []
    r = res[0]
    if isinstance(r, bytes):
        return r, None, b, [b"".join(v) for v in cap.values] if cap else []
    r.trap(FlattenerError)
    inner = r.value._exception
    return None, type(inner).__name__, b, []


# ------------------------------------------------------------------------------------------
# real parsers → the canonical token line used by the Lean driver
#   t:<hex>  s:<name>:<a>=<v>,…:<0|1>  e:<name>  c:<hex>   joined by ';'   '!' = not parseable

def show_tokens(toks):
    if toks is None:
        return "!"
    out = []
    for t in toks:
        if t[0] == "t":
            out.append("t:" + hx(t[1]))
        elif t[0] == "s":
            out.append("s:" + hx(t[1]) + ":" + ",".join(hx(k) + "=" + hx(v) for k, v in t[2]) + ":" + ("1" if t[3] else "0"))
        elif t[0] == "e":
            out.append("e:" + hx(t[1]))
        elif t[0] == "c":
            out.append("c:" + hx(t[1]))
    return ";".join(out)


def _unhx(s):
    return b"" if s == "-" else bytes.fromhex(s)


def parse_tokens(s):
    if s == "!":
        return None
    toks = []
    if not s:
        return toks
    for p in s.split(";"):
        f = p.split(":")
        if f[0] == "t":
            toks.append(("t", _unhx(f[1])))
        elif f[0] == "s":
            attrs = [tuple(_unhx(x) for x in kv.split("=")) for kv in f[2].split(",")] if f[2] else []
            toks.append(("s", _unhx(f[1]), attrs, f[3] == "1"))
        elif f[0] == "e":
            toks.append(("e", _unhx(f[1])))
        elif f[0] == "c":
            toks.append(("c", _unhx(f[1])))
    return toks


def merge_text(toks):
    out = []
    for t in toks:
        if t[0] == "t":
            if not t[1]:
                continue
            if out and out[-1][0] == "t":
                out[-1] = ("t", out[-1][1] + t[1])
                continue
        out.append(t)
    return out


def xml_tokens(doc):
    """expat on <r>doc</r>, bytes read as Latin-1; None if not well-formed.  Empty-element tags are reported
    by expat as start+end."""
    toks = []
    p = expat.ParserCreate("iso-8859-1")
    p.ordered_attributes = True
    p.buffer_text = True

    def enc(s):
        return s.encode("latin-1")
    p.StartElementHandler = lambda name, attrs: toks.append(
        ("s", enc(name), [(enc(attrs[i]), enc(attrs[i + 1])) for i in range(0, len(attrs), 2)], False))
    p.EndElementHandler = lambda name: toks.append(("e", enc(name)))
    p.CharacterDataHandler = lambda data: toks.append(("t", enc(data)))
    p.CommentHandler = lambda data: toks.append(("c", enc(data)))
    try:
        p.Parse(b"<r>" + doc + b"</r>", True)
    except expat.ExpatError:
        return None
    except UnicodeEncodeError:
        return None
    return merge_text(toks[1:-1])


def xml_norm_text(b):
    return b.replace(b"\r\n", b"\n").replace(b"\r", b"\n")


def xml_norm_attr(b):
    return xml_norm_text(b).replace(b"\n", b" ").replace(b"\t", b" ")


def xml_canon(toks):
    """what expat reports for a token list produced without XML normalisation (the Lean tokenizer's)"""
    if toks is None:
        return None
    out = []
    for t in toks:
        if t[0] == "t":
            out.append(("t", xml_norm_text(t[1])))
        elif t[0] == "c":
            out.append(("c", xml_norm_text(t[1])))
        elif t[0] == "s":
            out.append(("s", t[1], [(k, xml_norm_attr(v)) for k, v in t[2]], False))
            if t[3]:
                out.append(("e", t[1]))
        else:
            out.append(t)
    return merge_text(out)


_SPACE = b"\t\n\x0c\r "
_CHARREF = re.compile(rb"&(?:#[0-9]+;?|#[xX][0-9a-fA-F]+;?|[0-9A-Za-z]+;?)")


def _unescape(b, in_attr=False):
    def rep(m):
        s = m.group(0).decode("ascii")
        u = _html.unescape(s)
        return u.encode("utf-8") if u != s else m.group(0)
    return _CHARREF.sub(rep, b)


def html_tokens(doc, foreign):
    """Transcription of the WHATWG tokenizer (https://html.spec.whatwg.org/multipage/parsing.html#tokenization):
    data, tag open, end tag open, tag name, before/in/after attribute name, before attribute value, attribute value
    (double-quoted, single-quoted, unquoted), after attribute value (quoted), self-closing start tag, bogus comment,
    markup declaration open, all ten comment states, the three CDATA section states.  Character references are decoded
    when a payload is emitted (they never change the tokenizer state).  `foreign`: is `<![CDATA[` recognised.
    DOCTYPE is not transcribed (→ None).  No newline preprocessing, NUL kept as is, parse errors not reported.
    EOF inside markup → None."""
    toks = []
    text = bytearray()
    i, n = 0, len(doc)
    state = "data"
    name = bytearray()
    attrs = []
    an = av = None
    is_end = False
    selfc = False
    cm = bytearray()

    def flush():
        if text:
            toks.append(("t", _unescape(bytes(text))))
            text.clear()

    def emit_tag():
        nonlocal an, av
        finish_attr()
        flush()
        if is_end:
            toks.append(("e", bytes(name)))
        else:
            seen, out = set(), []
            for k, v in attrs:
                if k not in seen:
                    seen.add(k)
                    out.append((k, _unescape(v, True)))
            toks.append(("s", bytes(name), out, selfc))

    def finish_attr():
        nonlocal an, av
        if an is not None:
            attrs.append((bytes(an), bytes(av)))
            an = av = None

    def emit_comment():
        flush()
        toks.append(("c", bytes(cm)))

    def lower(c):
        return c + 32 if 65 <= c <= 90 else c

    while True:
        c = doc[i] if i < n else None
        if state == "data":
            if c is None:
                flush()
                return toks
            if c == 0x3C:
                state = "tagOpen"
                i += 1
            else:                      # a run of characters none of which is '<' (same as one at a time)
                j = doc.find(b"<", i)
                j = n if j < 0 else j
                text += doc[i:j]
                i = j
        elif state == "tagOpen":
            if c is None:
                return None
            if c == 0x21:
                state = "markupDecl"
                i += 1
            elif c == 0x2F:
                state = "endTagOpen"
                i += 1
            elif chr(c).isascii() and chr(c).isalpha():
                name = bytearray()
                attrs, an, av, is_end, selfc = [], None, None, False, False
                state = "tagName"
            elif c == 0x3F:
                cm = bytearray()
                state = "bogus"
            else:
                text.append(0x3C)
                state = "data"
        elif state == "endTagOpen":
            if c is None:
                return None
            if chr(c).isascii() and chr(c).isalpha():
                name = bytearray()
                attrs, an, av, is_end, selfc = [], None, None, True, False
                state = "tagName"
            elif c == 0x3E:
                state = "data"
                i += 1
            else:
                cm = bytearray()
                state = "bogus"
        elif state == "tagName":
            if c is None:
                return None
            i += 1
            if c in _SPACE:
                state = "beforeAttrName"
            elif c == 0x2F:
                state = "selfClosing"
            elif c == 0x3E:
                emit_tag()
                state = "data"
            else:
                name.append(lower(c))
        elif state == "beforeAttrName":
            if c is None:
                return None
            if c in _SPACE:
                i += 1
            elif c in (0x2F, 0x3E):
                state = "afterAttrName"
            elif c == 0x3D:
                finish_attr()
                an, av = bytearray(b"="), bytearray()
                state = "attrName"
                i += 1
            else:
                finish_attr()
                an, av = bytearray(), bytearray()
                state = "attrName"
        elif state == "attrName":
            if c is None:
                return None
            if c in _SPACE or c in (0x2F, 0x3E):
                state = "afterAttrName"
            elif c == 0x3D:
                state = "beforeAttrValue"
                i += 1
            else:
                an.append(lower(c))
                i += 1
        elif state == "afterAttrName":
            if c is None:
                return None
            if c in _SPACE:
                i += 1
            elif c == 0x2F:
                state = "selfClosing"
                i += 1
            elif c == 0x3D:
                state = "beforeAttrValue"
                i += 1
            elif c == 0x3E:
                emit_tag()
                state = "data"
                i += 1
            else:
                finish_attr()
                an, av = bytearray(), bytearray()
                state = "attrName"
        elif state == "beforeAttrValue":
            if c is None:
                return None
            if c in _SPACE:
                i += 1
            elif c == 0x22:
                state = "attrValueDQ"
                i += 1
            elif c == 0x27:
                state = "attrValueSQ"
                i += 1
            elif c == 0x3E:
                emit_tag()
                state = "data"
                i += 1
            else:
                state = "attrValueUQ"
        elif state in ("attrValueDQ", "attrValueSQ"):
            if c is None:
                return None
            q = 0x22 if state == "attrValueDQ" else 0x27
            if c == q:
                state = "afterAttrValueQ"
                i += 1
            else:                      # a run of characters none of which is the quote
                j = doc.find(bytes([q]), i)
                j = n if j < 0 else j
                av += doc[i:j]
                i = j
        elif state == "attrValueUQ":
            if c is None:
                return None
            i += 1
            if c in _SPACE:
                state = "beforeAttrName"
            elif c == 0x3E:
                emit_tag()
                state = "data"
            else:
                av.append(c)
        elif state == "afterAttrValueQ":
            if c is None:
                return None
            if c in _SPACE:
                state = "beforeAttrName"
                i += 1
            elif c == 0x2F:
                state = "selfClosing"
                i += 1
            elif c == 0x3E:
                emit_tag()
                state = "data"
                i += 1
            else:
                state = "beforeAttrName"
        elif state == "selfClosing":
            if c is None:
                return None
            if c == 0x3E:
                selfc = True
                emit_tag()
                state = "data"
                i += 1
            else:
                state = "beforeAttrName"
        elif state == "bogus":
            if c is None:
                return None
            if c == 0x3E:
                emit_comment()
                state = "data"
                i += 1
            else:                      # a run of characters none of which is '>'
                j = doc.find(b">", i)
                j = n if j < 0 else j
                cm += doc[i:j]
                i = j
        elif state == "markupDecl":
            if doc.startswith(b"--", i):
                cm = bytearray()
                state = "commentStart"
                i += 2
            elif doc[i:i + 7].upper() == b"DOCTYPE":
                return None
            elif doc.startswith(b"[CDATA[", i):
                i += 7
                if foreign:
                    state = "cdata"
                else:
                    cm = bytearray(b"[CDATA[")
                    state = "bogus"
            else:
                if c is None:
                    return None
                cm = bytearray()
                state = "bogus"
        elif state == "commentStart":
            if c == 0x2D:
                state = "commentStartDash"
                i += 1
            elif c == 0x3E:
                emit_comment()
                state = "data"
                i += 1
            else:
                state = "comment"
        elif state == "commentStartDash":
            if c is None:
                return None
            if c == 0x2D:
                state = "commentEnd"
                i += 1
            elif c == 0x3E:
                emit_comment()
                state = "data"
                i += 1
            else:
                cm.append(0x2D)
                state = "comment"
        elif state == "comment":
            if c is None:
                return None
            if c == 0x3C:
                cm.append(c)
                state = "commentLt"
                i += 1
            elif c == 0x2D:
                state = "commentEndDash"
                i += 1
            else:                      # a run of characters none of which is '<' or '-'
                m = _COMMENT_SPECIAL.search(doc, i)
                j = n if m is None else m.start()
                cm += doc[i:j]
                i = j
        elif state == "commentLt":
            if c == 0x21:
                cm.append(c)
                state = "commentLtBang"
                i += 1
            elif c == 0x3C:
                cm.append(c)
                i += 1
            else:
                state = "comment"
        elif state == "commentLtBang":
            if c == 0x2D:
                state = "commentLtBangDash"
                i += 1
            else:
                state = "comment"
        elif state == "commentLtBangDash":
            if c == 0x2D:
                state = "commentLtBangDashDash"
                i += 1
            else:
                state = "commentEndDash"
        elif state == "commentLtBangDashDash":
            state = "commentEnd"
        elif state == "commentEndDash":
            if c is None:
                return None
            if c == 0x2D:
                state = "commentEnd"
                i += 1
            else:
                cm.append(0x2D)
                state = "comment"
        elif state == "commentEnd":
            if c is None:
                return None
            if c == 0x3E:
                emit_comment()
                state = "data"
                i += 1
            elif c == 0x21:
                state = "commentEndBang"
                i += 1
            elif c == 0x2D:
                cm.append(0x2D)
                i += 1
            else:
                cm += b"--"
                state = "comment"
        elif state == "commentEndBang":
            if c is None:
                return None
            if c == 0x2D:
                cm += b"--!"
                state = "commentEndDash"
                i += 1
            elif c == 0x3E:
                emit_comment()
                state = "data"
                i += 1
            else:
                cm += b"--!"
                state = "comment"
        elif state == "cdata":
            if c is None:
                return None
            if c == 0x5D:
                state = "cdataBracket"
                i += 1
            else:                      # a run of characters none of which is ']'
                j = doc.find(b"]", i)
                j = n if j < 0 else j
                text += doc[i:j].replace(b"&", b"&amp;")     # see _cdata_amp below
                i = j
        elif state == "cdataBracket":
            if c == 0x5D:
                state = "cdataEnd"
                i += 1
            else:
                text.append(0x5D)
                state = "cdata"
        elif state == "cdataEnd":
            if c == 0x5D:
                text.append(0x5D)
                i += 1
            elif c == 0x3E:
                state = "data"
                i += 1
            else:
                text += b"]]"
                state = "cdata"


_COMMENT_SPECIAL = re.compile(rb"[<-]")


# _cdata_amp: CDATA section content is emitted as characters without character-reference processing; the text buffer
# is decoded as a whole when flushed, so a literal '&' coming from a CDATA section is protected as '&amp;'.


# ------------------------------------------------------------------------------------------
# validity of names (the property's precondition)

_XML_NAME = re.compile(r"^[A-Za-z_:][-A-Za-z0-9_:.]*$")
_RAWTEXT = {"script", "style", "textarea", "title", "xmp", "iframe", "noembed", "noframes", "noscript", "plaintext"}


def names_valid(n):
    """(valid for XML, valid for HTML) over the whole case tree"""
    x = h = True
    k = n[0]
    subs = []
    if k == "G":
        _, name, nk, fr, attrs, ch, _ck = n
        if name != "":
            if not _XML_NAME.match(name):
                x = h = False
            elif not name[0].isalpha() or name.lower() in _RAWTEXT:
                h = False
            seen_x, seen_h = set(), set()
            for an, ak, av in attrs:
                if not _XML_NAME.match(an):
                    x = h = False
                elif not an[0].isalpha():
                    h = False
                if an in seen_x:
                    x = False
                if an.lower() in seen_h:
                    h = False
                seen_x.add(an)
                seen_h.add(an.lower())
                subs.append(av)
        subs += ch
    elif k == "SD":
        subs.append(n[2])
    elif k == "R":
        subs.append(n[2])
    elif k == "L":
        subs += n[2]
    elif k == "F":
        subs.append(n[2])
    elif k == "E":
        subs.append(n[1])
    elif k == "N":
        subs.append(n[2])
    elif k == "X":
        if n[1] >= 128:       # the XML reading takes bytes as Latin-1; a reference to a non-ASCII character has no
            x = False         # counterpart in that reading (the HTML reading, UTF-8, has)
    for s in subs:
        a, b = names_valid(s)
        x, h = x and a, h and b
    return x, h


def kinds(n, acc):
    k = n[0]
    acc.add(k if k != "G" else ("Gt" if n[1] == "" else "G"))
    if k == "G":
        if n[3] is not None:
            acc.add("fill")
        for an, ak, av in n[4]:
            acc.add("attr")
            kinds(av, acc)
        for c in n[5]:
            kinds(c, acc)
    elif k in ("SD",):
        kinds(n[2], acc)
    elif k == "R":
        kinds(n[2], acc)
    elif k == "L":
        for c in n[2]:
            kinds(c, acc)
    elif k == "F":
        kinds(n[2], acc)
    elif k == "E":
        kinds(n[1], acc)
    elif k == "N":
        kinds(n[2], acc)
    return acc


# ------------------------------------------------------------------------------------------
# implementation side of the tie

def run_impl(c):
    out, err, b, _ = flatten_real(c["tree"], bs=c.get("bs"), inter=bool(c.get("inter")))
    if out is None:
        return "!raised FlattenerError(%s)" % err
    if bytes_only(c):
        return hxr(out)
    return "%s|x=%s|h=%s|n=%s" % (hxr(out), show_tokens(xml_tokens(out)), show_tokens(html_tokens(out, True)),
                                    show_tokens(html_tokens(out, False)))


def _fields(s):
    f = s.split("|")
    d = {"hex": f[0]}
    for p in f[1:]:
        d[p[0]] = p[2:]
    return d


def _unrle(h):
    return b"" if h == "-" else cb(h)


def compare(c, impl_out, model_out):
    if has_charref(c["tree"]) and not (impl_out.startswith("!") or model_out.startswith("!") or model_out == "bad-op"):
        m = _unrle(model_out)
        for ph, real in _charref_plan(c["tree"])[1].items():
            m = m.replace(ph, real)
        return _unrle(impl_out) == m
    if impl_out.startswith("!") or model_out.startswith("!") or "|" not in model_out:
        return impl_out == model_out
    a, m = _fields(impl_out), _fields(model_out)
    if a["hex"] != m["hex"]:
        return False
    vx, vh = names_valid(c["tree"])
    if vx:
        # the Lean XML tokenizer does not normalise line ends / attribute whitespace; expat does
        if xml_canon(parse_tokens(m["x"])) != parse_tokens(a["x"]):
            return False
    if vh:
        if a["h"] != m["h"]:
            return False
        # CDATA not recognised (HTML content): a CDATA node that contains '>' breaks out of its bogus comment (recorded
        # finding) and what follows may leave the subset the Lean tokenizer models ('!'); where it stays inside, both agree
        if a["n"] != m["n"] and not ("D" in kinds(c["tree"], set()) and m["n"] == "!"):
            return False
    return True


# ------------------------------------------------------------------------------------------
# the property oracle on the real code

def _ph(i):
    return b"zq%dqz" % i


_PH = re.compile(rb"zq(\d+)qz")


def _shape(toks):
    return [(t[0], t[1], [k for k, _ in t[2]], t[3]) if t[0] == "s" else (t[0], t[1]) if t[0] == "e" else ("c",)
            for t in toks if t[0] != "t"]


def _subst(b, contents, comment=False):
    def rep(m):
        used = contents[int(m.group(1))][2]
        return _flatten.escapedComment(used) if comment else used
    return _PH.sub(rep, b)


def _expected(btoks, contents, raw_attrs, xml):
    """the benign token list with placeholders replaced by the real content"""
    out = []
    ai = 0
    nt = xml_norm_text if xml else (lambda b: b)
    na = xml_norm_attr if xml else (lambda b: b)
    for t in btoks:
        if t[0] == "t":
            out.append(("t", nt(_subst(t[1], contents))))
        elif t[0] == "c":
            out.append(("c", nt(_subst(t[1], contents, comment=True))))
        elif t[0] == "s":
            attrs = []
            for k, v in t[2]:
                raw = raw_attrs[ai] if ai < len(raw_attrs) else None
                ai += 1
                attrs.append((k, na(raw) if raw is not None else None))
            out.append(("s", t[1], attrs, t[3]))
        else:
            out.append(t)
    return merge_text(out)


def _has_forbidden(contents):
    return any(any(ch < 32 and ch not in (9, 10, 13) for ch in used) for _, _, used in contents)


def _abbr(b, limit=200):
    """a document for a message: runs of >= 16 equal bytes written  'x'*n"""
    parts, pos = [], 0
    for m in _RUN.finditer(b):
        if m.start() > pos:
            parts.append(repr(b[pos:m.start()]))
        parts.append("%r*%d" % (b[m.start():m.start() + 1], m.end() - m.start()))
        pos = m.end()
        if sum(map(len, parts)) > limit:
            break
    else:
        if pos < len(b) or not parts:
            parts.append(repr(b[pos:]))
    r = " + ".join(parts)
    return r if len(r) <= limit + 60 else r[:limit + 60] + "..."


def _show(toks, limit=260):
    """tokens for a message (payloads in run-length hex)"""
    if toks is None:
        return "!"
    out = []
    for t in toks:
        if t[0] in ("t", "c"):
            out.append(t[0] + ":" + hxr(t[1]))
        elif t[0] == "s":
            out.append("s:" + hx(t[1]) + ":" + ",".join(hx(k) + "=" + (hxr(v) if v is not None else "?") for k, v in t[2]) + ":" + ("1" if t[3] else "0"))
        else:
            out.append("e:" + hx(t[1]))
    r = ";".join(out)
    return r if len(r) <= limit else r[:limit] + "..."


def _check_reading(label, parse, tree, out_b, out_t, bt, cap_b, cap_t, xml):
    """→ None or detail string"""
    tb, tt = parse(out_b), parse(out_t)
    if tb is None:
        return "benign document %s does not parse" % _abbr(out_b, 120)
    if tt is None:
        return "document %s does not parse" % _abbr(out_t)
    if _shape(tb) != _shape(tt):
        return "markup changed: %s parses as %s, with inert content as %s" % (_abbr(out_t), _show(tt), _show(tb))
    # placeholders-only attribute values must be exactly the content
    for rb_, rt_ in zip(cap_b, cap_t):
        if any(bt.contents[int(i)][0] == "charref" for i in _PH.findall(rb_)):
            # a CharRef directly in an attribute value is handed to the attribute writer as the bytes '&#N;' (and
            # re-read as that literal text): not a string of the statement; the markup and raw-value clauses below apply
            continue
        if _PH.sub(b"", rb_) == b"" and _subst(rb_, bt.contents) != rt_:
            return "attribute value of strings %s written as %s" % (_abbr(_subst(rb_, bt.contents)), _abbr(rt_))
    exp = _expected(tb, bt.contents, cap_t, xml)
    if exp != tt:
        return "payload changed: %s parses as %s expected %s" % (_abbr(out_t), _show(tt), _show(exp))
    return None


_DASHES = re.compile(rb"-{2,}")


def _neutral(forbidden=False, dashes=False):
    def sub(i, orig, place):
        b = orig
        if forbidden:
            b = bytes(ch if (ch >= 32 or ch in (9, 10, 13)) else 63 for ch in b)
        if dashes and place == "comment":
            # only the '--' of the recorded finding: a single '-' is representable (escapedComment puts a space after
            # a trailing one), so a document that still fails with every '--' gone is not explained by that finding
            b = _DASHES.sub(lambda m: b"~" * len(m.group(0)), b)
        return b
    return sub


def oracle(c, impl_out):
    tree = c["tree"]
    vx, vh = names_valid(tree)
    if not (vx or vh):
        return None
    bs = c.get("bs")
    inter = bool(c.get("inter"))
    out_b, err_b, bb, cap_b = flatten_real(tree, sub=lambda i, orig, place: _ph(i), capture=True, bs=bs, inter=inter)
    out_t, err_t, bt, cap_t = flatten_real(tree, capture=True, bs=bs, inter=inter)
    # documents flattened while this one was in progress (from inside a render(), or while it waited for a Deferred)
    # are what they are when flattened alone
    for side, res in bt.sides:
        alone = flatten_real(side)[0]
        if alone is not None and res != [alone]:
            return {"key": "reentrant", "detail": "a document flattened from inside render() came out as %s, alone as %s"
                    % (_abbr(res[0]) if res and isinstance(res[0], bytes) else res, _abbr(alone))}
    if bt.inter:
        if not _INTER_OUT:
            _INTER_OUT.append(_inter_run())
        for r in bt.inter:
            if r != _INTER_OUT[0]:
                return {"key": "interleaved", "detail": "a document flattened while another one waited for a Deferred came out as %r, "
                        "alone as %r" % (r, _INTER_OUT[0])}
    if out_b is None or out_t is None:
        if err_b != err_t:
            return {"key": "content-raises", "detail": "with inert content: %s, as generated: %s" % (err_b, err_t)}
        return None
    if impl_out.split("|")[0] != hxr(out_t):
        return {"key": "nondeterministic", "detail": "two runs of flattenString differ"}

    if vh:
        d = _check_reading("html", lambda doc: html_tokens(doc, True), tree, out_b, out_t, bt, cap_b, cap_t, False)
        if d:
            key = "html-comment" if b"<!--" in out_t and "C" in kinds(tree, set()) and _comment_cause(tree, True, bs) else "html"
            return {"key": key, "detail": d}
        if "D" in kinds(tree, set()):
            tb, tt = html_tokens(out_b, False), html_tokens(out_t, False)
            if tb is None or tt is None or _shape(tb) != _shape(tt):
                return {"key": "html-cdata-outside-foreign-content",
                        "detail": "CDATA in HTML content is a bogus comment ended by the first '>': %s parses as %s"
                                  % (_abbr(out_t), _show(tt))}
    if vx:
        d = _check_reading("xml", xml_tokens, tree, out_b, out_t, bt, cap_b, cap_t, True)
        if d:
            # which class of content is responsible?  neutralise one class at a time and look again
            if _has_forbidden(bt.contents):
                o2, e2, b2, c2 = flatten_real(tree, sub=_neutral(forbidden=True), capture=True, bs=bs)
                if o2 is not None and not _check_reading("xml", xml_tokens, tree, out_b, o2, b2, cap_b, c2, True):
                    return {"key": "xml-forbidden-char", "detail": d}
            o3, e3, b3, c3 = flatten_real(tree, sub=_neutral(forbidden=True, dashes=True), capture=True, bs=bs)
            if o3 is not None and not _check_reading("xml", xml_tokens, tree, out_b, o3, b3, cap_b, c3, True):
                return {"key": "xml-comment-double-dash", "detail": d}
            return {"key": "xml", "detail": d}
    return None


def _comment_cause(tree, html, bs=None):
    """is a comment's content responsible? (neutralise comment punctuation and look again)"""
    def sub(i, orig, place):
        return orig.replace(b"-", b"~").replace(b">", b"~").replace(b"!", b"~") if place == "comment" else orig
    out_b, err_b, bb, cap_b = flatten_real(tree, sub=lambda i, orig, place: _ph(i), capture=True, bs=bs)
    o2, e2, b2, c2 = flatten_real(tree, sub=sub, capture=True, bs=bs)
    if o2 is None or out_b is None:
        return False
    return _check_reading("html", lambda doc: html_tokens(doc, True), tree, out_b, o2, b2, cap_b, c2, False) is None


# ------------------------------------------------------------------------------------------
# generation

HOSTILE = ["<", ">", "&", '"', "'", "-", "--", "-->", "--!>", "]]>", "]]", "<!--", "!", "]", "a", "b", " ", "=", "/",
           "</div>", "<script>", "&amp;", "&lt;", "&#60;", "\x00", "\x01", "\x1f", "\x7f", "\r", "\n", "\t", "\x0c",
           "é", "€", "\U0001F600", "<![CDATA[", "->", "<!", ";", "--!", "- "]
# strings a fast path / special case could be keyed on: URL shapes, other markup openers, entity forms, script-ish text
KEYED = ["http://", "https://h.example/p?a=1&b=2", "://", "//h/", "javascript:", "data:text/html,", "mailto:a@b", "?", "#", "%3C",
         "<?xml ", "?>", "<!DOCTYPE x>", "</script>", "</style>", "</textarea>", "</title>", "&quot;", "&gt;", "&apos;", "&#x3c;",
         "&#0;", "&amp;amp;", "&nbsp;", "\\", "{{x}}", "${x}", "`", "\u2028", "\x85", "\xa0", "\ufeff", "\ufffd", "xmlns", "on", "0", "None"]
BYTES_EXTRA = [b"\xff", b"\x80", b"\xc3"]
TAGS = ["div", "p", "span", "a", "br", "img", "input", "hr", "Div", "BR", "x:y", "_u", "svg", "h1", "my-el", "a.b", "td"]
# element names with a special meaning to some consumer (HTML raw text / RCDATA elements: XML reading only, see
# names_valid; void elements; foreign content roots; table / select / template contexts; document skeleton)
SPECIAL_TAGS = ["script", "style", "textarea", "title", "xmp", "noscript", "plaintext", "SCRIPT", "Style", "pre", "table", "tr", "select",
                "option", "template", "math", "body", "head", "html", "meta", "link", "wbr", "wbs", "base", "form", "button", "iframe",
                "object", "embed", "t:slot", "t:attr", "t:transparent"]
ATTRS = ["id", "class", "href", "title", "data-x", "xml:lang", "Alt", "_p", "a1"]
SPECIAL_ATTRS = ["xmlns", "xmlns:t", "xmlns:xlink", "xlink:href", "style", "onclick", "onerror", "src", "srcdoc", "value", "checked",
                 "action", "content", "http-equiv", "data-json", "for", "name", "type", "t:render", "lang", "is"]
# ordinals of CharRef nodes: markup characters, plain ASCII, non-ASCII (HTML reading only)
CHARREF_ORDS = [60, 62, 38, 34, 39, 45, 93, 33, 47, 61, 32, 35, 59, 65, 97, 48, 126, 233, 160, 8364, 128512, 0x2028, 0xFFFD]
BAD_NAMES = ["a b", "a>b", 'a"b', "1a", "a=b", "", "a/b", "a<b", "é", "\xff", "-a"]
SLOTS = ["s", "t", "u"]


def _string(rng, n=None):
    n = rng.choice([0, 1, 1, 2, 2, 3, 4, 6]) if n is None else n
    kind = "s" if rng.random() < 0.6 else "b"
    parts = [rng.choice(KEYED) if rng.random() < 0.15 else rng.choice(HOSTILE) for _ in range(n)]
    b = "".join(parts).encode("utf-8")
    if kind == "b" and rng.random() < 0.2:
        b += rng.choice(BYTES_EXTRA)
    return b.hex(), kind


def _frame(rng):
    r = rng.random()
    if r < 0.55:
        return None
    if r < 0.6:
        return {}
    fr = {}
    for k in rng.sample(SLOTS, rng.randint(1, 2)):
        h, kind = _string(rng)
        fr[k] = [h, kind, "deferred" if rng.random() < 0.2 else "plain"]
    return fr


TAGS_T = TAGS + [""]


def _name(rng, pool, bad_ok):
    if bad_ok and rng.random() < 0.5:
        n = rng.choice(BAD_NAMES)
    elif rng.random() < 0.25:
        n = rng.choice(SPECIAL_ATTRS if pool is ATTRS else SPECIAL_TAGS)
    else:
        n = rng.choice(pool)
    kind = "s" if (rng.random() < 0.7 or any(ord(ch) > 127 for ch in n)) and all(ord(ch) < 128 for ch in n) else "b"
    return n, kind


def _node(rng, depth, bad, in_attr=False):
    r = rng.random()
    if r < 0.012:
        return ["X", rng.choice(CHARREF_ORDS)]
    if depth <= 0 or r < 0.30:
        h, k = _string(rng)
        return ["T", h, k]
    if r < 0.40:
        h, k = _string(rng)
        return ["C", h, k]
    if r < 0.48:
        h, k = _string(rng)
        return ["D", h, k]
    if r < 0.54:
        return ["S", rng.choice(SLOTS)]
    if r < 0.58:
        return ["SD", rng.choice(SLOTS), _node(rng, depth - 1, bad, in_attr)]
    if r < 0.80:
        name, nk = _name(rng, TAGS_T, bad)
        attrs = []
        seen = set()
        for _ in range(rng.choice([0, 0, 1, 1, 2, 3])):
            an, ak = _name(rng, ATTRS, bad)
            if an.lower() in seen or an == "":
                continue
            seen.add(an.lower())
            attrs.append([an, ak, _node(rng, depth - 1, bad, True)])
        ch = [_node(rng, depth - 1, bad, in_attr) for _ in range(rng.choice([0, 0, 1, 1, 2, 3]))]
        return ["G", name, nk, _frame(rng), attrs, ch, "list"]
    if r < 0.85:
        return ["R", _frame(rng), _node(rng, depth - 1, bad, in_attr)]
    if r < 0.91:
        return ["L", rng.choice(["list", "tuple", "gen"]), [_node(rng, depth - 1, bad, in_attr) for _ in range(rng.randint(0, 3))]]
    if r < 0.96:
        sub = _node(rng, depth - 1, bad, in_attr)
        while sub[0] == "F":              # a Deferred never fires with a Deferred
            sub = sub[2]
        return ["F", rng.choice(["fired", "later", "coro"]), sub]
    if r < 0.985:
        return ["E", _node(rng, depth - 1, bad, in_attr)]
    return ["N", _side(rng), _node(rng, depth - 1, bad, in_attr)]


def _side(rng):
    """the tree a render() flattens to a string before it returns its own content"""
    r = rng.random()
    if r < 0.3:
        return ["T", _string(rng)[0], "s"]
    if r < 0.6:
        return ["G", "i", "s", None, [["id", "s", ["T", _string(rng)[0], "s"]]], [["T", _string(rng)[0], "b"]], "list"]
    return _node(rng, 2, False)


def _tree(rng, bad):
    t = _node(rng, rng.randint(1, 5), bad)
    r = rng.random()
    if r < 0.5:
        t = ["E", t]                      # give render directives a factory most of the time
        if r < 0.08:
            t = ["N", _side(rng), t[1]]   # ... sometimes one whose render() flattens another document first
    if r < 0.8 and rng.random() < 0.6:
        t = ["G", rng.choice(["div", "html", ""]), "s", {k: [_string(rng)[0], "s", "plain"] for k in SLOTS}, [], [t], "list"]
    return t


def _single(place, b, kind="b"):
    """one content string (bytes, or an encoded content string) in one place of a fixed small document"""
    h = b.hex() if isinstance(b, bytes) else b
    if kind != "b":
        return _rekind(_single(place, h), kind)
    if place == "comment":
        return ["G", "div", "s", None, [], [["T", "78", "s"], ["C", h, "b"], ["T", "79", "s"]], "list"]
    if place == "cdata":
        return ["G", "svg", "s", None, [], [["D", h, "b"], ["T", "79", "s"]], "list"]
    if place == "text":
        return ["G", "p", "s", None, [], [["T", h, "b"]], "list"]
    if place == "attr":
        return ["G", "a", "s", None, [["href", "s", ["T", h, "b"]]], [], "list"]
    if place == "slot":
        return ["G", "p", "s", {"s": [h, "b", "plain"]}, [["id", "s", ["S", "s"]]], [["S", "s"]], "list"]
    if place == "attr-tag":
        return ["G", "img", "s", None, [["src", "s", ["G", "a", "s", None, [["href", "s", ["T", h, "b"]]], [["C", h, "b"]], "list"]]], [], "list"]
    if place == "attr-cdata":        # a CDATA node inside an attribute value: its writes go through the attribute escaper
        return ["G", "a", "s", None, [["title", "s", ["D", h, "b"]]], [["T", "79", "s"]], "list"]
    if place == "attr-comment":
        return ["G", "a", "s", None, [["title", "s", ["C", h, "b"]]], [["T", "79", "s"]], "list"]
    if place == "later-cdata":       # behind an unfired Deferred: the buffer is flushed before and after
        return ["G", "svg", "s", None, [], [["T", "78", "s"], ["F", "later", ["D", h, "b"]], ["T", "79", "s"]], "list"]
    if place == "later-comment":
        return ["G", "div", "s", None, [], [["T", "78", "s"], ["F", "later", ["C", h, "b"]], ["T", "79", "s"]], "list"]
    if place == "render-text":
        return ["E", ["G", "p", "s", None, [], [["R", None, ["T", h, "b"]]], "list"]]
    if place == "slot-later":        # slot value is a fired Deferred, used in an attribute and as a child
        return ["G", "p", "s", {"s": [h, "b", "deferred"]}, [["id", "s", ["S", "s"]]], [["S", "s"]], "list"]
    raise ValueError(place)


def _rekind(n, kind):
    """the same tree with every content string of kind `kind` ("s" = str, "b" = bytes)"""
    if isinstance(n, list):
        if n and n[0] in ("T", "C", "D") and len(n) == 3:
            return [n[0], n[1], kind]
        return [_rekind(x, kind) for x in n]
    if isinstance(n, dict):
        return {k: [v[0], kind, v[2]] for k, v in n.items()}
    return n


# ---- large content: strings longer than the flattener's buffer (BUFFER_SIZE, 64 KiB), hostile sequences placed at /
# straddling the multiples of it, documents whose accumulated output crosses it in the middle of a hostile subtree ----

BS = REAL_BUFFER_SIZE
PLACES_OF = {"D": "cdata", "C": "comment", "T": "text"}
CLUSTERS = {
    "cdata": ["]]>", "]]>", "]]>]]>", "]]]>", "]]]]>", "]]><script>alert(1)</script><![CDATA[", "]]><b>", "]>", "]]", "]]>>",
              "]]&gt;", "&", "<", "é"],
    "comment": ["-->", "-->", "--!>", "--", "->", ">", "-", "--><script>alert(1)</script><!--", "--!><b>", "<!--", "--->",
                "<!-->", "é"],
    "text": ["<", ">", "&", "&amp;", "<script>", "</p>", "]]>", "é", "€", "\U0001F600", "&lt;", "\r\n", '"'],
    "attr": ['"', '"><script>', '" x="', "&", "<", ">", "&quot;", "é", "€", "'", "\t\n", "-->"],
}
PAD_UNITS = [b"a"] * 10 + [b"]", b"-", b"&", b">", b"<", b'"', b" ", "é".encode(), "€".encode(), b"ab", b"]]>", b"-->", b"\n"]


def _big_content(rng, place, k=None, cluster=None, back=None, unit=None, shift=0, tail=None, second=None):
    """an encoded content string longer than k*BS whose hostile `cluster` begins `back` bytes before offset k*BS
    (minus `shift`, the number of bytes written before the content)"""
    k = rng.choice([1, 1, 1, 1, 1, 2, 2, 3]) if k is None else k
    if cluster is None:
        cluster = rng.choice(CLUSTERS[place]) if rng.random() < 0.75 else "".join(rng.choice(HOSTILE) for _ in range(rng.randint(1, 4)))
    cl = cluster.encode("utf-8") if isinstance(cluster, str) else cluster
    if back is None:
        back = rng.randint(0, len(cl)) if rng.random() < 0.7 else rng.randint(-3, len(cl) + 24)
    unit = rng.choice(PAD_UNITS) if unit is None else unit
    start = max(0, k * BS - back - shift)
    segs = [(unit, start // len(unit)), (b"a", start % len(unit)), (cl, 1)]
    if second is None:
        second = rng.random() < 0.2
    if second:          # the same again at the next multiple
        pos = start + len(cl)
        cl2 = rng.choice(CLUSTERS[place]).encode("utf-8")
        start2 = max(pos, (k + 1) * BS - rng.randint(0, len(cl2)) - shift)
        segs += [(b"b", start2 - pos), (cl2, 1)]
    if tail is None:
        tail = rng.choice([0, 0, 0, 1, 1, 2, 2, 100, 100, 100, BS - 7, BS + 10])
    segs.append((b"c", tail))
    return _enc(segs)


def _contents_of(n, acc, attr=False):
    """(container list, index, place) of every content string of a case tree"""
    k = n[0]
    if k in ("T", "C", "D"):
        acc.append((n, 1, "attr" if (attr and k == "T") else PLACES_OF[k]))
    elif k == "G":
        for v in (n[3] or {}).values():
            acc.append((v, 0, "text"))
        for an, ak, av in n[4]:
            _contents_of(av, acc, True)
        for c in n[5]:
            _contents_of(c, acc, attr)
    elif k == "SD":
        _contents_of(n[2], acc, attr)
    elif k == "R":
        for v in (n[1] or {}).values():
            acc.append((v, 0, "text"))
        _contents_of(n[2], acc, attr)
    elif k == "L":
        for c in n[2]:
            _contents_of(c, acc, attr)
    elif k == "F":
        _contents_of(n[2], acc, attr)
    elif k == "E":
        _contents_of(n[1], acc, attr)
    elif k == "N":
        _contents_of(n[2], acc, attr)
    return acc


def _tree_with_big(rng):
    """a random tree one (sometimes two) of whose content strings is large"""
    for _ in range(50):
        t = _tree(rng, bad=False)
        cs = _contents_of(t, [])
        if cs:
            break
    else:
        return _single("cdata", _big_content(rng, "cdata"))
    for holder, i, place in rng.sample(cs, min(len(cs), rng.choice([1, 1, 1, 2]))):
        holder[i] = _big_content(rng, place, shift=rng.choice([0, 0, 0, rng.randint(0, 40)]))
    return t


def _accumulated(rng):
    """a document of small hostile strings whose accumulated output crosses BUFFER_SIZE in the middle of them:
    padding of just under k*BS bytes, then a random subtree (so `bufferedWrite` flushes between two of its writes)"""
    k = rng.choice([1, 1, 2])
    r = rng.randint(0, 90)
    pad = ["T", _enc([(b"a", k * BS - r)]), rng.choice(["s", "b"])]
    sub = _tree(rng, bad=False)
    if rng.random() < 0.5:
        return ["L", rng.choice(["list", "tuple", "gen"]), [pad, sub]]
    return ["G", rng.choice(["div", "svg", ""]), "s", {k_: [_string(rng)[0], "s", "plain"] for k_ in SLOTS}, [], [pad, sub], "list"]


BIG_SINGLE_PLACES = ["cdata", "cdata", "cdata", "comment", "comment", "text", "attr", "slot", "attr-tag", "attr-cdata",
                     "attr-comment", "later-cdata", "later-comment", "render-text", "slot-later"]
_CLUSTER_PLACE = {"cdata": "cdata", "comment": "comment", "text": "text", "attr": "attr", "slot": "attr", "attr-tag": "comment",
                  "attr-cdata": "cdata", "attr-comment": "comment", "later-cdata": "cdata", "later-comment": "comment",
                  "render-text": "text", "slot-later": "attr"}
# bytes the fixed document of `_single` writes before the content starts
_SHIFT = {"cdata": 5 + 9, "comment": 5 + 1 + 4, "text": 3, "attr": 9, "later-cdata": 5 + 1 + 9, "later-comment": 5 + 1 + 4}


def _boundary_cases(clusters, ks):
    """deterministic: every alignment of each cluster against k*BS, in the data and in the output"""
    for place, cluster in clusters:
        n = len(cluster.encode("utf-8"))
        for k in ks:
            for back in range(-1, n + 2):
                for shift in (0, _SHIFT[place]):
                    yield {"tree": _single(place, _big_content(None, place, k=k, cluster=cluster + "<b>x</b>", back=back,
                                                               unit=b"a", shift=shift, tail=100, second=False),
                                           "s" if (back + k) % 2 else "b")}


def _big_cases(rng, n_single, n_tree, n_acc):
    for i in range(n_single):
        place = rng.choice(BIG_SINGLE_PLACES)
        h = _big_content(rng, _CLUSTER_PLACE[place], shift=rng.choice([0, 0, _SHIFT.get(place, 0)]))
        yield {"tree": _single(place, h, rng.choice(["s", "b"]))}
    for i in range(n_tree):
        yield {"tree": _tree_with_big(rng)}
    for i in range(n_acc):
        yield {"tree": _accumulated(rng)}


def _scaled_cases(rng, L, n_tree):
    """the same class at small scale: `_flatten.BUFFER_SIZE` set to 1..16 while the case runs, so every string longer
    than that is "large" and every alignment of a hostile sequence against a multiple occurs in short strings"""
    for bs in (2, 3):
        for place in ("cdata", "comment"):
            for s in _all_strings(L):
                if len(s) >= 2:
                    yield {"tree": _single(place, s), "bs": bs}
    for bs in (1, 2):
        for place in ("text", "attr", "slot", "attr-tag", "attr-cdata", "later-cdata"):
            for s in _all_strings(2):
                if s:
                    yield {"tree": _single(place, s), "bs": bs}
    for i in range(n_tree):
        yield {"tree": _tree(rng, bad=False), "bs": rng.choice([1, 2, 3, 4, 5, 8, 13, 16, 64])}


SMALL = [b"-", b">", b"!", b"<", b"]", b"&", b'"', b"a"]


def _all_strings(maxlen):
    cur = [b""]
    yield b""
    for _ in range(maxlen):
        cur = [s + a for s in cur for a in SMALL]
        yield from cur


# ---- classes added by the white-box mutation audit (harness/mutants/C28) ----

def _x_single(place, o, before="", after=""):
    """one CharRef(o) in one place of a small document, between two text nodes"""
    x = [["T", before.encode().hex(), "s"], ["X", o], ["T", after.encode().hex(), "b"]]
    if place == "text":
        return ["G", "p", "s", None, [], x, "list"]
    if place == "attr":                  # directly in an attribute value
        return ["G", "a", "s", None, [["title", "s", ["L", "list", x]]], [["T", "79", "s"]], "list"]
    if place == "attr-tag":              # child of a Tag that is inside an attribute value
        return ["G", "img", "s", None, [["alt", "s", ["G", "b", "s", None, [["id", "s", ["X", o]]], x, "list"]]], [], "list"]
    if place == "slot-default":
        return ["G", "p", "s", None, [["id", "s", ["SD", "s", ["X", o]]]], [["SD", "s", ["L", "tuple", x]]], "list"]
    if place == "later":
        return ["G", "p", "s", None, [], [["T", "78", "s"], ["F", "later", ["L", "gen", x]]], "list"]
    if place == "render":
        return ["E", ["G", "p", "s", None, [], [["R", None, ["L", "list", x]]], "list"]]
    if place == "top":
        return ["L", "list", x]
    if place == "svg":                   # next to CDATA and a comment
        return ["G", "svg", "s", None, [], [["D", before.encode().hex(), "s"]] + x + [["C", after.encode().hex(), "s"]], "list"]
    raise ValueError(place)


X_PLACES = ["text", "text", "attr", "attr-tag", "slot-default", "later", "render", "top", "svg"]
X_NEIGHBOURS = ["", "", "&", "&#", "<", "a", ";", "60;", "]]", "--", '"', "&amp", "<!--", "é"]


def _charref_cases(rng, n):
    for o in (60, 62, 38, 34, 39, 65, 233):          # deterministic: each markup character in each place
        for place in ("text", "attr", "attr-tag", "slot-default", "top"):
            yield {"tree": _x_single(place, o)}
    for _ in range(n):
        yield {"tree": _x_single(rng.choice(X_PLACES), rng.choice(CHARREF_ORDS), rng.choice(X_NEIGHBOURS), rng.choice(X_NEIGHBOURS))}


def _reentrant_cases(rng, n):
    """a render() that flattens another document (completely, to a string) before it returns its own content — at the
    start / in the middle / at the end of the outer document, inside an attribute value, behind a Deferred, nested —
    and documents flattened while the case's own flattening waits for an unfired Deferred (`inter`)"""
    for i in range(n):
        sub = _node(rng, rng.randint(0, 3), False)
        node = ["N", _side(rng), sub]
        r = i % 6
        pre = ["T", _string(rng, 2)[0], "s"]
        post = ["T", _string(rng, 2)[0], "b"]
        if r == 0:
            t = ["G", rng.choice(["div", "svg"]), "s", None, [["id", "s", ["T", _string(rng)[0], "s"]]], [pre, node, post], "list"]
        elif r == 1:
            t = ["G", "a", "s", None, [["href", "s", ["L", "list", [pre, node, post]]]], [post], "list"]
        elif r == 2:
            t = ["L", "list", [pre, ["F", rng.choice(["later", "fired", "coro"]), node], post]]
        elif r == 3:
            t = ["L", "tuple", [pre, ["N", _side(rng), ["G", "b", "s", None, [], [node], "list"]], post]]
        elif r == 4:
            t = ["G", "p", "s", None, [], [pre, ["C", _string(rng)[0], "s"], node, ["D", _string(rng)[0], "s"], node], "list"]
        else:
            t = ["L", "list", [pre, ["N", ["F", "later", _side(rng)], sub], post]]
        c = {"tree": t}
        if r in (2, 5) or rng.random() < 0.2:
            c["inter"] = 1
        if rng.random() < 0.25:
            c["bs"] = rng.choice([1, 2, 3, 8, 64])
        yield c


def _later_in(n):
    k = n[0]
    if k == "F":
        return n[1] == "later" or _later_in(n[2])
    if k == "G":
        return any(_later_in(a[2]) for a in n[4]) or any(_later_in(c) for c in n[5])
    if k in ("SD", "R", "N"):
        return _later_in(n[2])
    if k == "E":
        return _later_in(n[1])
    if k == "L":
        return any(_later_in(c) for c in n[2])
    return False


def _interleaved_cases(rng, n):
    """random trees that wait for at least one unfired Deferred; another document is flattened during every wait"""
    made = 0
    for _ in range(n * 40):
        t = _tree(rng, bad=False)
        if _later_in(t):
            made += 1
            yield {"tree": t, "inter": 1}
            if made >= n:
                return


KEYED_PLACES = ["attr", "attr", "attr", "text", "slot", "attr-tag", "comment", "cdata", "attr-cdata", "slot-later", "render-text"]


def _keyed_cases(rng, n):
    """one string that begins with / contains a shape a special case could be keyed on (URL, entity, markup opener, ...)
    together with hostile characters, in each kind of place; and the special element / attribute names around hostile content"""
    for i in range(n):
        key = rng.choice(KEYED)
        host = "".join(rng.choice(HOSTILE) for _ in range(rng.randint(1, 3)))
        val = rng.choice([key + host, host + key, key + host + key, host + key + host])
        place = rng.choice(KEYED_PLACES)
        t = _single(place, val.encode("utf-8"), rng.choice(["s", "b"]))
        yield {"tree": t}
    for i in range(n):
        h, k = _string(rng, rng.randint(1, 3))
        h2, k2 = _string(rng, rng.randint(1, 3))
        name = rng.choice(SPECIAL_TAGS)
        attr = rng.choice(SPECIAL_ATTRS)
        inner = ["G", name, rng.choice(["s", "b"]), None, [[attr, rng.choice(["s", "b"]), ["T", h2, k2]]],
                 [rng.choice([["T", h, k], ["C", h, k], ["D", h, k], ["L", "gen", [["T", h, k], ["T", h2, k2]]]])], "list"]
        yield {"tree": rng.choice([inner, ["G", "div", "s", None, [], [inner], "list"],
                                   ["G", "img", "s", None, [["alt", "s", inner]], [], "list"]])}


def corpus():
    cs = []
    for place, s in [("comment", b">"), ("comment", b"->x"), ("comment", b"a--!>b"), ("comment", b"--!><script>alert(1)</script>"),
                     ("comment", b"a--b"), ("comment", b"a-->b"), ("comment", b"x-"), ("comment", b"<!--"), ("comment", b"<!-"),
                     ("comment", b"--!"), ("comment", b""), ("comment", b"-"),
                     ("cdata", b"a]]>b"), ("cdata", b"]]]>"), ("cdata", b"a>b"), ("cdata", b"]]"), ("cdata", b"x]"),
                     ("text", b"]]>"), ("text", b"<b>&amp;\x01"), ("text", b"a\r\nb\rc"),
                     ("attr", b'"><script>'), ("attr", b"a\tb\nc"), ("attr", b"&quot;'<"),
                     ("slot", b'<&">'), ("attr-tag", b'<>&"-->')]:
        cs.append({"tree": _single(place, s)})
    cs.append({"tree": ["L", "list", [["G", "a", "s", {"s": ["3c", "s", "plain"]}, [], [], "list"], ["S", "s"]]]})
    cs.append({"tree": ["E", ["R", {"s": ["26", "s", "plain"]}, ["G", "b", "s", {"t": ["3e", "b", "plain"]}, [], [["S", "s"], ["S", "t"]], "list"]]]})
    cs.append({"tree": ["R", None, ["T", "61", "s"]]})
    cs.append({"tree": ["S", "s"]})
    cs.append({"tree": ["G", "\xff", "b", None, [], [], "list"]})
    cs.append({"tree": ["G", "br", "b", None, [["a b", "s", ["T", "61", "s"]]], [], "list"]})
    # large content (seeded change C28-2 was missed without it): ']]>' / '-->' at every alignment against BUFFER_SIZE
    cs += list(_boundary_cases([("cdata", "]]>"), ("comment", "-->")], (1, 2)))
    # the witnesses of seeded/C28-2/demo.py: ']]><script>…' beginning 2 / 1 bytes before 64 KiB and 128 KiB
    for k in (1, 2):
        for back in (2, 1):
            cs.append({"tree": ["G", "div", "s", None, [], [["D", _big_content(
                None, "cdata", k=k, cluster="]]><script>alert(1)</script><![CDATA[", back=back, unit=b"a", tail=100, second=False), "s"]],
                "list"]})
    for place, s in [("cdata", b"]]>"), ("cdata", b"a]]>b"), ("comment", b"-->"), ("comment", b"a--!>b"), ("attr-cdata", b'"]]>'),
                     ("later-cdata", b"]]>")]:
        for bs in (1, 2, 3):
            cs.append({"tree": _single(place, s), "bs": bs})
    # white-box mutation audit (harness/mutants/C28): witnesses of the mutants that survived the first run
    cs.append({"tree": _single("attr", b'http://h/?a=1&lt=2<">')})                       # m04: URL-shaped attribute value
    cs.append({"tree": _single("attr", b'x://"<&>')})
    cs.append({"tree": ["G", "div", "s", None, [], [["G", "script", "s", None, [], [["T", b'</script><img src=x onerror=a>'.hex(), "s"]], "list"]], "list"]})  # m08
    cs.append({"tree": ["G", "style", "b", None, [], [["T", b"a<b/>&".hex(), "b"]], "list"]})
    cs.append({"tree": ["G", "svg", "s", None, [["xmlns:x", "s", ["T", b'u"><script>'.hex(), "s"]]], [], "list"]})   # m15
    cs.append({"tree": ["G", "p", "s", None, [["xmlns", "b", ["T", b'&<">'.hex(), "b"]]], [["T", "78", "s"]], "list"]})
    for o in (60, 62, 38, 34):                                                              # m11: CharRef of a markup character
        cs.append({"tree": _x_single("text", o, "a", "b")})
        cs.append({"tree": _x_single("attr-tag", o)})
    cs.append({"tree": _x_single("attr", 34)})
    cs.append({"tree": _x_single("text", 233)})
    # m12: a render() that flattens another document in the middle of this one
    cs.append({"tree": ["G", "div", "s", None, [["id", "s", ["T", "2278", "s"]]],
                        [["T", "6265666f7265", "s"], ["N", ["G", "i", "s", None, [], [["T", "73696465", "s"]], "list"],
                                                      ["G", "b", "s", None, [], [["T", "3c696e6e65723e", "s"]], "list"]],
                         ["T", "6166746572", "s"]], "list"]})
    cs.append({"tree": ["L", "list", [["T", "3c", "s"], ["F", "later", ["N", ["T", "26", "s"], ["T", "3e", "s"]]], ["T", "22", "s"]]], "inter": 1})
    return cs


def generate(rng, tier):
    L = 3 if tier == "quick" else 5
    for place in ("comment", "cdata"):
        for s in _all_strings(L):
            yield {"tree": _single(place, s)}
    for place in ("text", "attr", "slot", "attr-tag"):
        for s in _all_strings(2 if tier == "quick" else 3):
            yield {"tree": _single(place, s)}
    n = 1500 if tier == "quick" else 30000
    for i in range(n):
        yield {"tree": _tree(rng, bad=(i % 6 == 0))}
    # large content / buffer boundaries (real BUFFER_SIZE), then the same class at small scale
    # classes added by the white-box mutation audit: keyed shapes / special names, CharRef, re-entrant and interleaved flattening
    if tier == "quick":
        yield from _keyed_cases(rng, 300)
        yield from _charref_cases(rng, 200)
        yield from _reentrant_cases(rng, 240)
        yield from _interleaved_cases(rng, 150)
    else:
        yield from _keyed_cases(rng, 4000)
        yield from _charref_cases(rng, 3000)
        yield from _reentrant_cases(rng, 3000)
        yield from _interleaved_cases(rng, 2000)
    if tier == "quick":
        yield from _boundary_cases([("cdata", "]]]>"), ("comment", "--!>"), ("text", "&"), ("attr", '"')], (1,))
        yield from _big_cases(rng, 110, 60, 60)
        yield from _scaled_cases(rng, 3, 600)
    else:
        yield from _boundary_cases([(p, c) for p in ("cdata", "comment", "text", "attr") for c in CLUSTERS[p][1:6]], (1, 2))
        yield from _big_cases(rng, 500, 300, 300)
        yield from _scaled_cases(rng, 4, 12000)


def search(rng, tier, disagreeing):
    for place in ("comment", "cdata", "text", "attr", "slot", "attr-tag"):
        for s in _all_strings(4):
            yield {"tree": _single(place, s)}
    for i in range(4000):
        yield {"tree": _tree(rng, bad=False)}
    yield from _keyed_cases(rng, 600)
    yield from _charref_cases(rng, 300)
    yield from _reentrant_cases(rng, 300)
    yield from _interleaved_cases(rng, 200)
    yield from _boundary_cases([(p, c) for p in ("cdata", "comment", "text", "attr") for c in CLUSTERS[p][1:3]], (1,))
    yield from _big_cases(rng, 60, 30, 30)
    yield from _scaled_cases(rng, 3, 1500)


def _strings(n, acc):
    k = n[0]
    if k in ("T", "C", "D"):
        acc.append(cb(n[1]))
    elif k == "G":
        for v in (n[3] or {}).values():
            acc.append(cb(v[0]))
        for an, ak, av in n[4]:
            _strings(av, acc)
        for c in n[5]:
            _strings(c, acc)
    elif k == "SD":
        _strings(n[2], acc)
    elif k == "R":
        for v in (n[1] or {}).values():
            acc.append(cb(v[0]))
        _strings(n[2], acc)
    elif k == "L":
        for c in n[2]:
            _strings(c, acc)
    elif k == "F":
        _strings(n[2], acc)
    elif k == "E":
        _strings(n[1], acc)
    elif k == "N":
        _strings(n[2], acc)
    return acc


def tag(c, out):
    ks = "".join(sorted(kinds(c["tree"], set())))
    allb = b"\x00".join(_strings(c["tree"], []))
    feats = "".join(f for f, pat in (("<", b"<"), (">", b">"), ("&", b"&"), ('"', b'"'), ("D", b"--"), ("B", b"--!>"), ("]", b"]]>"),
                                      ("c", b"\x01")) if pat in allb)
    vx, vh = names_valid(c["tree"])
    res = "raise" if out.startswith("!") else "ok"
    # size class: which buffer size is in effect, is some string longer than it, does a hostile multi-byte sequence
    # straddle a multiple of it
    bs = c.get("bs") or BS
    strs = _strings(c["tree"], [])
    size = ("r" if "bs" not in c else "b%d" % bs) + ("L" if any(len(x) > bs for x in strs) else "") + \
        ("A" if sum(len(x) for x in strs) > bs else "") + ("X" if any(_straddles(x, bs) for x in strs) else "")
    extra = ("i" if c.get("inter") else "") + ("u" if b"://" in allb else "") + \
        ("n" if _special_names(c["tree"]) else "")
    return f"{ks}|{feats}|{int(vx)}{int(vh)}|{res}|{size}|{extra}"


def _special_names(n):
    k = n[0]
    if k == "G":
        if n[1] in SPECIAL_TAGS or any(a[0] in SPECIAL_ATTRS for a in n[4]):
            return True
        return any(_special_names(a[2]) for a in n[4]) or any(_special_names(c) for c in n[5])
    if k in ("SD", "R", "F", "N"):
        return _special_names(n[2])
    if k == "E":
        return _special_names(n[1])
    if k == "L":
        return any(_special_names(c) for c in n[2])
    return False


_MULTI = (b"]]>", b"-->", b"--!>", b"<!--", b"--", b"->", b"&amp;", b"&lt;", b"&gt;", b"\r\n")


def _straddles(x, bs):
    """does one of the multi-byte hostile sequences lie across a multiple of `bs` in x"""
    for m in range(bs, len(x), bs):
        w = x[max(0, m - 3):m + 3]
        off = m - max(0, m - 3)
        for seq in _MULTI:
            j = w.find(seq)
            while j >= 0:
                if j < off < j + len(seq):
                    return True
                j = w.find(seq, j + 1)
        if m // bs > 64:
            break
    return False


def shrink(c):
    t = c["tree"]
    extra = {k: v for k, v in c.items() if k != "tree"}

    def variants(n):
        k = n[0]
        if k in ("T", "C", "D"):
            segs = _segs(n[1])
            if len(segs) > 1 or any(cnt > 1 for _, cnt in segs) or sum(len(b) * cnt for b, cnt in segs) > 64:
                # large content: shrink segment-wise (drop / halve / decrement a run, delete bytes of a literal)
                for i, (b, cnt) in enumerate(segs):
                    yield [k, _enc(segs[:i] + segs[i + 1:]), n[2]]
                    if cnt > 1:
                        for c2 in (cnt // 2, cnt - BS, cnt - 1):
                            if 0 < c2 < cnt:
                                yield [k, _enc(segs[:i] + [(b, c2)] + segs[i + 1:]), n[2]]
                    elif len(b) <= 64:
                        for j in range(len(b)):
                            yield [k, _enc(segs[:i] + [(b[:j] + b[j + 1:], 1)] + segs[i + 1:]), n[2]]
                return
            b = cb(n[1])
            for i in range(len(b)):
                yield [k, (b[:i] + b[i + 1:]).hex(), n[2]]
        elif k == "G":
            for c_ in n[5]:
                yield c_
            for a in n[4]:
                yield a[2]
            for i in range(len(n[5])):
                yield n[:5] + [n[5][:i] + n[5][i + 1:], n[6]]
                for v in variants(n[5][i]):
                    yield n[:5] + [n[5][:i] + [v] + n[5][i + 1:], n[6]]
            for i in range(len(n[4])):
                yield n[:4] + [n[4][:i] + n[4][i + 1:]] + n[5:]
                for v in variants(n[4][i][2]):
                    yield n[:4] + [n[4][:i] + [[n[4][i][0], n[4][i][1], v]] + n[4][i + 1:]] + n[5:]
            if n[3]:
                yield n[:3] + [None] + n[4:]
        elif k in ("SD", "R", "F"):
            yield n[2]
            for v in variants(n[2]):
                yield n[:2] + [v]
        elif k == "E":
            yield n[1]
            for v in variants(n[1]):
                yield ["E", v]
        elif k == "N":
            yield n[2]
            yield ["E", n[2]]
            if n[1] != ["T", "78", "s"]:
                yield ["N", ["T", "78", "s"], n[2]]
            for v in variants(n[2]):
                yield ["N", n[1], v]
        elif k == "L":
            for i in range(len(n[2])):
                yield n[2][i]
                yield [n[0], n[1], n[2][:i] + n[2][i + 1:]]
                for v in variants(n[2][i]):
                    yield [n[0], n[1], n[2][:i] + [v] + n[2][i + 1:]]
    if "inter" in extra:
        yield {k: v for k, v in c.items() if k != "inter"}
    for v in variants(t):
        yield dict(extra, tree=v)
