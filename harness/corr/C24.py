"""C24 — HTTP client request serialisation: real Request.writeTo on a StringTransport vs the Lean model,
the emitted bytes read back by h11 (implementation side) and by the Lean RFC 9112 reference parser
(model side), and the property oracle on the real code."""
import re

import h11

from twisted.internet.abstract import FileDescriptor
from twisted.internet.defer import Deferred
from twisted.internet.testing import StringTransport
from twisted.web._newclient import BadHeaders, ExcessWrite, Request, WrongBodyLength
from twisted.web.http_headers import Headers
from twisted.web.iweb import UNKNOWN_LENGTH
from twisted.logger import Logger

# "Producer is buggy" / "Buggy state machine" reports of combine() are logged, not raised; keep them off stderr
Request._log = Logger(namespace="twisted.web._newclient.Request", observer=lambda event: None)

HEADLINE = "TwistedProps.C24.serialises_to_one_request_chunked / _known_length / _no_body / invalid_method_or_target_refused_before_any_write / invalid_refused_whatever_the_history"
RULE = ("requests from a grammar: method (RFC tokens incl. every tchar class, the whole IANA method registry, case variants "
        "of PUT/POST/..., random tokens up to 256 bytes; invalid: empty, and ONE disallowed byte or a CRLF injection at the "
        "start / inside / end of any valid method), target (origin, absolute, authority and asterisk form, odd VCHAR strings, "
        "random VCHAR strings, lengths up to 8193; invalid: the same injection into any of them); a deterministic sweep puts "
        "EVERY disallowed byte value at three positions of rotating valid methods and targets, once in the constructor and "
        "once assigned to .method/.uri afterwards; header sets through the real Headers class (Host once / missing / twice "
        "/ empty list, mixed-case names, registered field names incl. hop-by-hop / Expect / Upgrade / TE / Trailer, random "
        "token names, repeated equal values, values up to 8193 bytes, valid and hostile values: CR/LF, NUL, VT, DEL, "
        "leading/trailing blanks, obs-text, framing fields); persistent True / False / argument left out; Request(...) or "
        "Request._construct(...); transport = StringTransport or the real abstract.FileDescriptor over a sink; optionally "
        "the Request object has an earlier life (built with other headers / persistent, .method/.uri assigned valid or "
        "invalid values, written once or twice to other transports with or without a body, then headers replaced or "
        "changed in place and every attribute set to its final value); body absent / UNKNOWN_LENGTH / known length with a "
        "scripted producer (writes of 0,1,9,10,15,16,17,255,256,4095,4096 bytes, 2^k-1 / 2^k / 2^k+1 for k=13..17 "
        "(deterministically, one chunked and one known-length body each; in the quick tier those above 32 KiB + 1 are "
        "oracle-only and 128 KiB is thorough-only) and log-uniform sizes up to 128 KiB with position-identifying content, "
        "runs of up to 100 small writes, CRLF and '0\\r\\n\\r\\n' payloads, startProducing returning anywhere in the "
        "script, Deferred fired before or after it returns, success / failure / never, too many / too few bytes, writes "
        "after the end); distinct = (refusal class, body kind, outcome, sync/async finish, empty write?, write-size "
        "classes, header value classes, persistent / default, transport, constructor, rewritten?, parse class)")
ASSUMES = [
    "the transport is fresh (no producer registered before writeTo) and is a StringTransport or abstract.FileDescriptor "
    "(the base class of the socket transports; its buffer is drained at the end)",
    "header sets are Headers objects (names canonicalised and values passed through _sanitizeLinearWhitespace by that class, "
    "which is outside the model); 'valid header set' = exactly one Host value, field values of field-vchar/SP/HTAB without "
    "leading or trailing blanks, and no Content-Length / Transfer-Encoding field supplied by the caller (the Request writes "
    "the framing field itself; a caller-supplied one is emitted in addition and is outside the statement's preconditions)",
    "a body producer is a script of consumer.write calls and at most one firing of the Deferred it returned; a valid body of "
    "known length L writes exactly L bytes and then succeeds; bodyProducer.length is UNKNOWN_LENGTH or a non-negative int",
    "stopProducing() of the producer returns normally",
    "the model's Request is its four attributes (method, uri, headers, persistent): a case with an earlier life of the object "
    "is compared with the model run on the final attribute values (TwistedProps.C24.written_bytes_depend_on_current_"
    "attributes_only), i.e. the tie checks that the implementation keeps no other state",
]
TRUSTED = ["h11 0.16 as the independent HTTP/1.1 reader on the implementation side (plus a strictness filter: field values "
           "outside field-vchar/SP/HTAB count as malformed, as in RFC 9110 §5.5)",
           "twisted.web.http_headers.Headers (used to build the header store handed to both sides)",
           "twisted.internet.abstract.FileDescriptor as the second transport"]
MANIFEST = {
    "text": "Lean theorems (TwistedProps/C24.lean) for every valid method token, request-target, header store and body script: "
            "the bytes written by the model of Request.writeTo are read by an RFC 9112 reference parser (written from the "
            "grammar, in Lean) as exactly one request with that method, target, field lines and body, framed by Content-Length "
            "(known length, PUT/POST without body) or chunked coding (unknown length), for all write sizes and for "
            "startProducing returning before or after the producer finishes; an invalid method or target (at construction, "
            "assigned later, or on a request object that was assigned to and written any number of times before) is refused "
            "with nothing written. Model tied to _newclient.py by differential runs on a StringTransport and on the real "
            "FileDescriptor transport base class, through both constructors, with fresh and re-used request objects; the "
            "real bytes are additionally read with h11.",
    "note": "trusts Lean kernel, the hand-written model of Request/ChunkedEncoder/LengthEnforcingConsumer (differentially tied), "
            "h11 as second reader, Headers for name canonicalisation / value sanitising; the largest bodies (sweep sizes above "
            "32 KiB + 1, random bodies above 70 kB) are model-compared in the thorough tier only (oracle-only in the quick tier)",
    "technique": "Lean 4 proof (writer model + reference parser, round-trip by induction over header lines and chunks, "
                 "decimal/hex numeral round-trip) + differential tie + h11 oracle; white-box mutation audit "
                 "(harness/mutants/C24)",
    "design_ref": "DESIGN.md §7 C24",
}

TOKEN = re.compile(rb"\A[!#$%&'*+\-.^_`|~0-9A-Za-z]+\Z")
VCHARS = re.compile(rb"\A[\x21-\x7e]+\Z")
FIELDVAL = re.compile(rb"\A(?:[\x21-\x7e\x80-\xff](?:[\x21-\x7e\x80-\xff \t]*[\x21-\x7e\x80-\xff])?)?\Z")
FIELDBYTES = re.compile(rb"\A[\x21-\x7e\x80-\xff \t]*\Z")
FRAMING = (b"content-length", b"transfer-encoding")


def hx(b):
    return b.hex() if b else "-"


def unhx(s):
    return b"" if s == "-" else bytes.fromhex(s)


class ProducerError(Exception):
    pass


class ScriptedProducer:
    """Plays a script of consumer.write / Deferred firings; `ret` is where startProducing returns."""

    def __init__(self, length, script):
        self.length = length
        self.script = list(script)
        self.pos = 0
        self.stops = 0
        self.excess = 0
        self.d = Deferred()

    def _play(self, untilRet):
        while self.pos < len(self.script):
            ev = self.script[self.pos]
            self.pos += 1
            if ev[0] == "ret":
                if untilRet:
                    return
                continue
            if ev[0] == "w":
                try:
                    self.consumer.write(unhx(ev[1]))
                except ExcessWrite:
                    self.excess += 1
            elif ev[0] == "ok":
                self.d.callback(None)
            elif ev[0] == "err":
                self.d.errback(ProducerError())

    def startProducing(self, consumer):
        self.consumer = consumer
        self._play(True)
        return self.d

    def stopProducing(self):
        self.stops += 1

    def pauseProducing(self):
        pass

    def resumeProducing(self):
        pass


class _NoReactor:
    def addWriter(self, w):
        pass

    def removeWriter(self, w):
        pass

    addReader = removeReader = addWriter


class FDTransport(FileDescriptor):
    """Twisted's own buffering transport base class (abstract.FileDescriptor: the write / writeSequence / producer code of
    every socket transport) over a sink instead of a socket.  Unlike StringTransport its writeSequence walks its argument
    more than once and checks every element, so a one-shot iterable or a non-bytes element handed to it loses the data."""

    def __init__(self):
        FileDescriptor.__init__(self, _NoReactor())
        self.connected = 1
        self._sink = []

    def writeSomeData(self, data):
        self._sink.append(bytes(data))
        return len(data)

    def value(self):
        for _ in range(100000):
            if not (len(self.dataBuffer) - self.offset or self._tempDataBuffer):
                break
            self.doWrite()
        return b"".join(self._sink)


def _transport(kind):
    return FDTransport() if kind == "fd" else StringTransport()


def _apply_headers(h, spec):
    for how, name, vals in spec:
        if how == "set":
            h.setRawHeaders(unhx(name), [unhx(v) for v in vals])
        else:
            for v in vals:
                h.addRawHeader(unhx(name), unhx(v))
    return h


def _headers(c):
    return _apply_headers(Headers(), c["h"])


def stored(c):
    return [(n, list(vs)) for n, vs in _headers(c).getAllRawHeaders()]


def model_line(c):
    if c.get("oo"):      # oracle-only: bodies too large for the quick tier's model budget (the thorough tier model-compares them)
        return None
    st = stored(c)
    hs = ";".join(hx(n) + ":" + (",".join(hx(v) for v in vs) if vs else "~") for n, vs in st) if st else "~"
    b = "none" if c["b"] is None else "u" if c["b"] == "u" else str(c["b"])
    sc = ",".join("w" + hx(unhx(e[1])) if e[0] == "w" else e[0] for e in c["s"]) if c["s"] else "~"
    return " ".join(["req", c["m"], c["u"], c["m2"] if c["m2"] is not None else "~",
                     c["u2"] if c["u2"] is not None else "~", "1" if c["p"] else "0", hs, b, sc])   # p None: argument left out (= False)


def h11_parse(data):
    """The bytes as one HTTP/1.1 request, read by h11 (canonical text shared with the Lean driver)."""
    if not data:
        return "incomplete"
    conn = h11.Connection(h11.SERVER, max_incomplete_event_size=1 << 30)
    conn.receive_data(data)
    req, body, done, err, more = None, [], False, False, False
    try:
        while True:
            ev = conn.next_event()
            if ev is h11.NEED_DATA:
                break
            if ev is h11.PAUSED:
                more = True
                break
            if isinstance(ev, h11.Request):
                req = ev
            elif isinstance(ev, h11.Data):
                body.append(bytes(ev.data))
            elif isinstance(ev, h11.EndOfMessage):
                done = True
                if ev.headers:
                    return "bad"
            else:
                return "bad"
    except h11.RemoteProtocolError:
        err = True
    if req is None:
        return "bad" if err else "incomplete"
    hs = [(bytes(n), bytes(v)) for n, v in req.headers]
    if req.http_version != b"1.1" or any(not FIELDBYTES.match(v) for _, v in hs):
        return "bad"
    if not done:
        return "bad" if err else "incomplete"
    # (h11 also pauses after a complete CONNECT / Upgrade request with nothing left over: that is not "trailing")
    if err or conn.trailing_data[0]:
        return "trailing"
    names = [n for n, _ in hs]
    if b"transfer-encoding" in names:
        fr = "chunked"
    elif b"content-length" in names:
        fr = "cl" + str(int(dict(hs)[b"content-length"]))
    else:
        fr = "none"
    return "ok:%s:%s:%s:%s:%s" % (hx(bytes(req.method)), hx(bytes(req.target)),
                                  ",".join(hx(n) + "=" + hx(v) for n, v in hs) if hs else "~", fr, hx(b"".join(body)))


def _has_framing(c):
    return any(n.lower() in FRAMING for n, _ in stored(c))


def _make(c, method, uri, headers, prod, persistent):
    """Request(...) or Request._construct(...) (the constructor twisted.web.client.Agent uses); persistent None = left out."""
    kw = {} if persistent is None else {"persistent": persistent}
    if c.get("ctor", "init") == "construct":
        return Request._construct(method, uri, headers, prod, **kw)
    return Request(method, uri, headers, prod, **kw)


def _prelude(c, r, pre):
    """An earlier life of the same Request object: written once or twice to other transports (as the connection pool does
    when it retries a request on a fresh connection) with other attribute values, which are then changed to the final ones.
    Nothing of it may show in the measured writeTo."""
    if pre.get("m") is not None:
        r.method = unhx(pre["m"])
    if pre.get("u") is not None:
        r.uri = unhx(pre["u"])
    for _ in range(pre.get("n", 1)):
        if pre.get("b") is not None:
            n = pre["b"] if pre["b"] != "u" else 3
            r.bodyProducer = ScriptedProducer(UNKNOWN_LENGTH if pre["b"] == "u" else n, [W(b"x" * n), ["ok"], ["ret"]])
        try:
            r.writeTo(_transport(c.get("t", "s")))
        except (ValueError, BadHeaders):
            pass
    # now the final attribute values
    r.method = unhx(c["m"])
    r.uri = unhx(c["u"])
    if pre.get("inplace"):
        for name, _ in list(r.headers.getAllRawHeaders()):
            r.headers.removeHeader(name)
        _apply_headers(r.headers, c["h"])
    else:
        r.headers = _headers(c)
    r.persistent = bool(c["p"])


def run_impl(c):
    t = _transport(c.get("t", "s"))
    prod = None if c["b"] is None else ScriptedProducer(UNKNOWN_LENGTH if c["b"] == "u" else c["b"], c["s"])
    res = []
    pre = c.get("pre")
    try:
        if pre is None:
            r = _make(c, unhx(c["m"]), unhx(c["u"]), _headers(c), prod, c["p"])
        else:
            r = _make(c, unhx(c["m"]), unhx(c["u"]), _apply_headers(Headers(), pre["h"]), None, pre.get("p"))
            _prelude(c, r, pre)
            r.bodyProducer = prod
        if c["m2"] is not None:
            r.method = unhx(c["m2"])
        if c["u2"] is not None:
            r.uri = unhx(c["u2"])
        d = r.writeTo(t)
    except (ValueError, BadHeaders) as e:
        return "res=raised:%s reg=%d stops=%d excess=%d out=%s parse=%s" % (
            "BadHeaders" if isinstance(e, BadHeaders) else "ValueError", int(t.producer is not None),
            prod.stops if prod else 0, prod.excess if prod else 0, hx(t.value()), h11_parse(t.value()))

    def eb(f):
        res.append("fail:WrongBodyLength" if f.check(WrongBodyLength) else
                   "fail:ProducerError" if f.check(ProducerError) else "fail:" + f.type.__name__)

    d.addCallbacks(lambda r: res.append("ok" if r is None else "ok:" + repr(r)), eb)
    if prod is not None:
        prod._play(False)
    out = t.value()
    return "res=%s reg=%d stops=%d excess=%d out=%s parse=%s" % (
        res[0] if res else "pending", int(t.producer is not None), prod.stops if prod else 0,
        prod.excess if prod else 0, hx(out), "skip" if _has_framing(c) else h11_parse(out))


# ----------------------------------------------------------------------------------------
# the property on the implementation, independent of the model

def _fields(line):
    return dict(f.split("=", 1) for f in line.split(" "))


def _effective(script):
    """Events in the order their effects happen: a Deferred fired before `ret` acts at `ret`."""
    pre, post, seen = [], [], False
    for e in script:
        if e[0] == "ret":
            seen = True
        elif seen:
            post.append(e)
        else:
            pre.append(e)
    return [e for e in pre if e[0] == "w"] + [e for e in pre if e[0] != "w"] + post


def _expected_headers(c):
    """name (lower) -> values, in the caller's terms, without using Headers."""
    d = {}
    for how, name, vals in c["h"]:
        k = unhx(name).lower()
        if how == "set":
            d[k] = [unhx(v) for v in vals]
        else:
            d.setdefault(k, []).extend(unhx(v) for v in vals)
    return d


def classify(c):
    m = unhx(c["m2"]) if c["m2"] is not None else unhx(c["m"])
    u = unhx(c["u2"]) if c["u2"] is not None else unhx(c["u"])
    info = {"m": m, "u": u}
    info["refuse"] = not (TOKEN.match(unhx(c["m"])) and VCHARS.match(unhx(c["u"])) and TOKEN.match(m) and VCHARS.match(u))
    hd = _expected_headers(c)
    info["hd"] = hd
    info["host1"] = len(hd.get(b"host", [])) == 1
    info["values_ok"] = all(FIELDVAL.match(v) for vs in hd.values() for v in vs)
    info["framing"] = any(k in FRAMING for k in hd)
    info["headers_ok"] = info["host1"] and info["values_ok"] and not info["framing"]
    if c["b"] is None:
        info["body"] = "valid"
        info["data"] = b""
    else:
        eff = _effective(c["s"])
        fires = [i for i, e in enumerate(eff) if e[0] in ("ok", "err")]
        writes_before = b"".join(unhx(e[1]) for e in (eff[:fires[0]] if fires else eff) if e[0] == "w")
        info["data"] = writes_before
        info["empty_write"] = any(e[0] == "w" and e[1] == "-" for e in (eff[:fires[0]] if fires else eff))
        lenok = c["b"] == "u" or len(writes_before) == c["b"]
        # every prefix of the writes must stay within the declared length
        if c["b"] != "u":
            tot = 0
            for e in (eff[:fires[0]] if fires else eff):
                tot += len(unhx(e[1]))
                if tot > c["b"]:
                    lenok = None
        if not fires:
            info["body"] = "pending" if lenok is not None else "misbehaved"
        elif fires[0] != len(eff) - 1 or lenok is None:
            info["body"] = "misbehaved"
        elif eff[fires[0]][0] == "err":
            info["body"] = "failed"
        else:
            info["body"] = "valid" if lenok else "misbehaved"
    return info


def oracle(c, out):
    if out.startswith("!"):
        return {"key": "raises", "detail": out}
    f = _fields(out)
    info = classify(c)
    raw = unhx(f["out"])
    if info["refuse"]:
        if not f["res"].startswith("raised:"):
            return {"key": "invalid-not-refused", "detail": f"method {info['m']!r} target {info['u']!r}: {f['res']}, wrote {raw!r}"}
        if raw:
            return {"key": "written-before-refusal", "detail": f"{raw!r}"}
        return None
    if f["res"].startswith("raised:"):
        if raw:
            return {"key": "written-before-refusal", "detail": f"{f['res']} after {raw!r}"}
        if info["host1"]:
            return {"key": "valid-refused", "detail": f"{f['res']} for method {info['m']!r} target {info['u']!r}"}
        return None
    if not info["headers_ok"]:
        return None
    if info["body"] == "misbehaved":
        # whatever a producer of declared length L does, no more than L body bytes may follow the head
        # (TwistedProps.C24.content_length_never_exceeded): the bytes never read as a message plus left-overs
        if isinstance(c["b"], int) and f["parse"] == "trailing":
            return {"key": "content-length-overrun", "detail": f"declared {c['b']}: {raw[-80:]!r}"}
        return None
    ekey = "empty-write-ends-chunked-body" if c["b"] == "u" and info.get("empty_write") else None
    if info["body"] in ("pending", "failed"):
        # the message must not read as complete while its body is unfinished / has failed
        complete = f["parse"].startswith("ok:") or f["parse"] == "trailing"
        if c["b"] == "u" and complete:
            return {"key": ekey or "unfinished-body-complete", "detail": f"body {info['body']} but the bytes read as {f['parse'][:60]}: {raw!r}"}
        if c["b"] != "u" and info["body"] == "pending" and len(info["data"]) < c["b"] and complete:
            return {"key": "unfinished-body-complete", "detail": f"{raw!r}"}
        return None
    # valid request: exactly one message with these parts
    if f["res"] != "ok":
        return {"key": ekey or "valid-not-ok", "detail": f"writeTo result {f['res']}"}
    p = f["parse"]
    if not p.startswith("ok:"):
        return {"key": ekey or "not-one-request", "detail": f"h11 reads {raw[:200]!r} as {p}"}
    _, pm, pu, ph, pfr, pbody = p.split(":")
    exp_fr = ("chunked" if c["b"] == "u" else "cl%d" % c["b"] if c["b"] is not None
              else "cl0" if info["m"] in (b"PUT", b"POST") else "none")
    exp_h = {k: list(v) for k, v in info["hd"].items() if v}
    if not c["p"]:
        exp_h[b"connection"] = [b"close"] + exp_h.get(b"connection", [])
    if exp_fr == "chunked":
        exp_h[b"transfer-encoding"] = [b"chunked"]
    elif exp_fr != "none":
        exp_h[b"content-length"] = [exp_fr[2:].encode()]
    got_h = {}
    if ph != "~":
        for item in ph.split(","):
            n, v = item.split("=")
            got_h.setdefault(unhx(n), []).append(unhx(v))
    if unhx(pm) != info["m"] or unhx(pu) != info["u"]:
        return {"key": "request-line", "detail": f"{unhx(pm)!r} {unhx(pu)!r}"}
    if got_h != exp_h:
        return {"key": "headers", "detail": f"read {got_h!r} expected {exp_h!r}"}
    if pfr != exp_fr:
        return {"key": "framing", "detail": f"{pfr} expected {exp_fr}"}
    if unhx(pbody) != info["data"]:
        return {"key": ekey or "body", "detail": f"read {unhx(pbody)[:80]!r} expected {info['data'][:80]!r}"}
    return None


# ----------------------------------------------------------------------------------------
# cases

def W(b):
    return ["w", hx(b)]


def _hspec(h):
    return [[how, hx(n), [hx(v) for v in vs]] for how, n, vs in h]


def case(m=b"GET", u=b"/", m2=None, u2=None, h=None, p=False, b=None, s=(), t="s", ctor="init", pre=None):
    """p: True / False / None (= the `persistent` argument left out); t: transport kind ("s" StringTransport, "fd" the
    real abstract.FileDescriptor over a sink); ctor: "init" Request(...) / "construct" Request._construct(...);
    pre: an earlier life of the same Request object (see _prelude) or None."""
    c = {"m": hx(m), "u": hx(u), "m2": None if m2 is None else hx(m2), "u2": None if u2 is None else hx(u2),
         "h": _hspec(h if h is not None else [("set", b"host", [b"example.com"])]),
         "p": p, "b": b, "s": [list(e) for e in s]}
    if t != "s":
        c["t"] = t
    if ctor != "init":
        c["ctor"] = ctor
    if pre is not None:
        c["pre"] = pre
    return c


def prelude(h=None, p=False, m=None, u=None, n=1, b=None, inplace=False):
    return {"h": _hspec(h if h is not None else [("set", b"host", [b"first.example"])]), "p": p,
            "m": None if m is None else hx(m), "u": None if u is None else hx(u), "n": n, "b": b, "inplace": inplace}


def _ramp(n, start=0):
    """n bytes in which every position is recognisable (a dropped, repeated or moved piece changes the content)"""
    out, i = [], start
    size = 0
    while size < n:
        piece = b"%x." % i
        out.append(piece)
        size += len(piece)
        i += 1
    return b"".join(out)[:n]


def corpus():
    H = [("set", b"host", [b"example.com"])]
    return [
        case(),
        case(b"GET\n", b"/"), case(b"GET", b"/path\n"), case(b"GET\r", b"/"), case(b"GET", b"/path\x7f"),   # trailing invalid byte
        case(b"POST", b"/x?y=1", h=H + [("set", b"x-a", [b"1", b"two words"])], b="u", s=[W(b"abc"), ["ret"], W(b"defgh" * 4), ["ok"]]),
        # an empty write in a body of unknown length
        case(b"POST", b"/x", b="u", s=[W(b"abc"), W(b""), W(b"def"), ["ret"], ["ok"]]),
        case(b"POST", b"/x", b="u", s=[["ret"], W(b""), ]),
        case(b"PUT", b"/x", b=5, s=[W(b"ab"), ["ok"], W(b"cde"), ["ret"]]),
        case(b"PUT", b"/x", b=5, s=[["ret"], W(b"ab"), W(b"cdef"), ["ok"]]),
        case(b"PUT", b"/x", b=5, s=[W(b"abcdef"), ["ok"], ["ret"]]),
        case(b"PUT", b"/x", b=5, s=[W(b"ab"), ["ret"], ["ok"]]),
        case(b"PUT", b"/x", b=0, s=[["ret"], ["ok"]]),
        case(b"PUT", b"/x", p=True),
        case(b"GET", b"/x", b="u", s=[W(b"a"), ["ret"], ["err"], W(b"b")]),
        case(b"G ET", b"/"), case(b"GET", b"/ HTTP/1.1\r\nX: y"), case(b"", b"/"), case(b"GET", b""),
        case(b"GET", b"/", m2=b"GET\r\n"), case(b"GET", b"/", u2=b"/a b", b="u", s=[W(b"x"), ["ret"]]),
        case(h=[]), case(h=[("set", b"host", [b"a", b"b"])]), case(h=[("set", b"HOST", [])]),
        case(h=H + [("set", b"x", [b"a\r\nInjected: 1", b"\x00", b" pad ", b"\x80\xff"])]),
        case(b"POST", h=H + [("set", b"content-length", [b"7"])], b=3, s=[W(b"abc"), ["ret"], ["ok"]]),
        # --- classes added by the white-box mutation audit (harness/mutants/C24)
        # a delimiter inside a method (a `+-.` range in a character class lets `,` through)
        case(b"G,T"), case(b"GET,"), case(m2=b",GET"),
        # an invalid byte in a target of absolute / authority / asterisk form
        case(u=b"http://example.com/a b"), case(u=b"https://example.com/\r\nX: y"), case(u2=b"http://example.com/\x00"),
        case(u=b"example.com:443\n"), case(u=b"*\t"),
        # the same Request object written before (a retry on a fresh connection), attributes changed in between
        case(u=b"/second", pre=prelude(u=b"/first")),
        case(u=b"/second", h=H + [("add", b"authorization", [b"x"])], pre=prelude(h=H, inplace=True)),
        case(u=b"/ok", u2=b"/bad uri", pre=prelude()),
        case(m=b"POST", p=True, pre=prelude(m=b"GET", p=False, n=2)),
        case(b"PUT", b"/x", b=3, s=[W(b"abc"), ["ret"], ["ok"]], pre=prelude(b=3)),
        case(b"PUT", b"/x", b="u", s=[W(b"abc"), ["ret"], ["ok"]], pre=prelude(b="u", h=[])),
        # a transport with the real FileDescriptor.writeSequence (walks its argument twice)
        case(t="fd"), case(b"POST", t="fd", b="u", s=[W(b"abc"), ["ret"], W(b""), W(b"de"), ["ok"]]),
        case(b"POST", t="fd", b=70000, s=[W(_ramp(70000)), ["ret"], ["ok"]]),
        # write sizes around powers of two above 4096
        case(b"POST", b="u", s=[W(_ramp(16385)), ["ret"], ["ok"]]), case(b"POST", b="u", s=[["ret"], W(_ramp(65536)), W(_ramp(5, 9)), ["ok"]]),
        case(b"POST", b="u", s=[W(_ramp(32769)), W(_ramp(8192, 77)), ["ok"], ["ret"]]),
        # registered field names with a meaning for connections / messages
        case(b"POST", h=H + [("set", b"expect", [b"100-continue"])], b=3, s=[W(b"abc"), ["ret"], ["ok"]]),
        case(h=H + [("set", b"upgrade", [b"h2c"]), ("set", b"connection", [b"upgrade"]), ("set", b"te", [b"trailers"]),
                    ("set", b"trailer", [b"x-a"]), ("set", b"keep-alive", [b"timeout=5"]), ("set", b"proxy-connection", [b"keep-alive"])]),
        # registered methods with special semantics, with and without a body
        case(b"TRACE", b=3, s=[W(b"abc"), ["ret"], ["ok"]]), case(b"CONNECT", b"example.com:443", b="u", s=[W(b"abc"), ["ret"], ["ok"]]),
        case(b"HEAD", b=0, s=[["ok"], ["ret"]]), case(b"post"), case(b"Put"), case(b"PATCH"), case(b"CONNECT", b"example.com:443"),
        # the `persistent` argument left out; the private constructor used by Agent
        case(p=None), case(p=None, ctor="construct"), case(p=True, ctor="construct"), case(p=False, ctor="construct"),
        # long method / target / field value
        case(b"M" * 300, b"/" + b"a" * 8192, h=H + [("set", b"x-long", [b"v" * 8193, b"w" * 999])]),
        case(u=b"/" + _ramp(8192)),
    ]


METHODS_OK = [b"GET", b"POST", b"PUT", b"HEAD", b"DELETE", b"OPTIONS", b"PATCH", b"M-SEARCH", b"get", b"!#$%&'*+-.^_`|~", b"A1", b"x"]
# the IANA method registry (every method a special case could be keyed on) and case variants of the common ones
METHODS_REG = [b"GET", b"HEAD", b"POST", b"PUT", b"DELETE", b"CONNECT", b"OPTIONS", b"TRACE", b"PATCH", b"ACL", b"BASELINE-CONTROL",
               b"BIND", b"CHECKIN", b"CHECKOUT", b"COPY", b"LABEL", b"LINK", b"LOCK", b"MERGE", b"MKACTIVITY", b"MKCALENDAR", b"MKCOL",
               b"MKREDIRECTREF", b"MKWORKSPACE", b"MOVE", b"ORDERPATCH", b"PRI", b"PROPFIND", b"PROPPATCH", b"QUERY", b"REBIND",
               b"REPORT", b"SEARCH", b"UNBIND", b"UNCHECKOUT", b"UNLINK", b"UNLOCK", b"UPDATE", b"UPDATEREDIRECTREF",
               b"VERSION-CONTROL", b"PURGE", b"NOTIFY", b"SUBSCRIBE", b"UNSUBSCRIBE",
               b"post", b"put", b"Post", b"Put", b"pOST", b"PUt", b"head", b"trace", b"Trace", b"connect", b"patch", b"POSTS", b"PUTS", b"XPUT"]
METHODS_BAD = [b"", b"GET ", b" GET", b"G ET", b"GET\r\n", b"GET\r\nX: y", b"G\nET", b"G\tET", b"GET\x00", b"GET\x7f", b"G\x80T", b"\xff"] + \
    [b"G" + bytes([d]) + b"T" for d in b'"(),/:;<=>?@[\\]{}']
URIS_OK = [b"/", b"/a/b?c=d&e=f", b"*", b"http://example.com/x", b"/%20%0d%0a", b"/~!@#$%^&*()_+{}|:\"<>?`-=[]\\;',.", b"x", b"/" + b"a" * 300]
# every form of request-target (origin, absolute, authority, asterisk) and odd but valid VCHAR strings
URIS_FORMS = [b"https://example.com/", b"http://user:pw@example.com:8080/a/b;c?d=e#f", b"HTTP://EXAMPLE.COM", b"http://[::1]:80/",
              b"ftp://example.com/x", b"example.com:443", b"[::1]:8443", b"//example.com/x", b"/?", b"?", b"#", b"%", b"/a#frag",
              b"/../..//./x", b"/%00%ff", b"://", b"/a://b", b"HTTP/1.1", b"/x?HTTP/1.1", b"!", b"~"]
URIS_BAD = [b"", b"/a b", b"/ HTTP/1.1\r\nHost: evil\r\n\r\n", b"/a\r\n", b"/a\nb", b"/a\rb", b"/\t", b"/\x00", b"/\x7f", b"/\x80", b"/\xff", b" /", b"/ "]
# every byte that is not allowed, at the start, in the middle and at the END of an otherwise valid method / target
# (a trailing LF alone is what a `$`-anchored regex lets through: seeded change C24-1)
_TCHAR = set(b"!#$%&'*+-.^_`|~0123456789ABCDEFGHIJKLMNOPQRSTUVWXYZabcdefghijklmnopqrstuvwxyz")
_TCHARS = bytes(sorted(_TCHAR))
_NOT_TCHAR = [d for d in range(256) if d not in _TCHAR]
_NOT_VCHAR = [d for d in range(256) if not 0x21 <= d <= 0x7e]
METHODS_BAD += [w for d in _NOT_TCHAR for w in (b"GET" + bytes([d]), bytes([d]) + b"GET", b"GE" + bytes([d]) + b"T")]
URIS_BAD += [w for d in _NOT_VCHAR for w in (b"/path" + bytes([d]), bytes([d]) + b"/path", b"/pa" + bytes([d]) + b"th")]
NAMES = [b"x-a", b"X-A", b"accept", b"Accept-Encoding", b"te", b"etag", b"Content-Type", b"cOOkie", b"connection", b"user-agent", b"x.y_z!", b"a"]
# registered field names, above all those with a meaning for the connection or the message framing that a writer might
# treat specially (hop-by-hop, expectations, conditionals, content description)
NAMES_REG = [b"Expect", b"TE", b"Trailer", b"Upgrade", b"Keep-Alive", b"Proxy-Connection", b"Proxy-Authorization", b"Proxy-Authenticate",
             b"Authorization", b"Cookie", b"Cookie2", b"Range", b"If-Match", b"If-None-Match", b"If-Modified-Since", b"If-Unmodified-Since",
             b"If-Range", b"Content-Encoding", b"Content-Type", b"Content-MD5", b"Content-Language", b"Content-Location", b"Content-Range",
             b"Content-Disposition", b"DNT", b"Date", b"Via", b"Warning", b"Pragma", b"Cache-Control", b"Origin", b"Referer", b"Max-Forwards",
             b"From", b"Accept", b"Accept-Charset", b"Accept-Language", b"Accept-Ranges", b"X-Forwarded-For", b"Forwarded", b"HTTP2-Settings",
             b"Sec-WebSocket-Key", b"Sec-WebSocket-Version", b"X-XSS-Protection", b"WWW-Authenticate", b"Age", b"Server", b"Location",
             b"Set-Cookie", b"Link", b"Priority", b"Early-Data", b"Idempotency-Key", b"MIME-Version", b"Close", b"Allow", b"Vary",
             b"X-Content-Length", b"Content-Lengthx", b"Hostname", b"X-Host", b"Transfer-Encodings"]
VALS_OK = [b"1", b"a b", b"a\tb", b"", b"\x80\xff", b"text/html; q=0.5", b"x" * 300, b"close", b"keep-alive", b"a:b", b"\"q\"", b"0"]
VALS_REG = [b"100-continue", b"trailers", b"h2c", b"websocket", b"upgrade", b"Upgrade, HTTP2-Settings", b"TE, close", b"chunked", b"gzip, chunked",
            b"identity", b"timeout=5, max=100", b"bytes=0-499", b"Basic QWxhZGRpbjpvcGVuIHNlc2FtZQ==", b"a=b; c=d", b"*", b"W/\"xyzzy\"",
            b"Sun, 06 Nov 1994 08:49:37 GMT", b"HTTP/1.1", b"GET / HTTP/1.1", b"x, x", b",", b"x" * 998, b"x" * 999]
VALS_BAD = [b" lead", b"trail ", b"\ttab\t", b"a\r\nX: y", b"a\nb", b"a\rb", b"\r\n", b"a\r\n", b"a\x00b", b"a\x0bb", b"a\x0cb", b"a\x7fb", b"\x01", b" "]
SIZES = [0, 1, 2, 9, 10, 15, 16, 17, 255, 256, 4095, 4096]
# 2^k - 1, 2^k, 2^k + 1 above 4096: where a writer that splits, coalesces or bounds what it is given has its boundaries
BIG_SIZES = [n + d for n in (8192, 16384, 32768, 65536, 131072) for d in (-1, 0, 1)]
LENGTHS = [1, 2, 3, 7, 8, 16, 17, 32, 64, 255, 256, 1023, 1024]
LONG_LENGTHS = [4095, 4096, 4097, 8191, 8192, 8193]      # rare: the Lean reference parser is quadratic in the length of a line
PAYLOAD = [b"\r\n", b"0\r\n\r\n", b"\x00", b"\xff", b"a", b"GET / HTTP/1.1\r\n\r\n"]
_RESERVED = (b"host",) + FRAMING


def _data(rng, n):
    if n == 0:
        return b""
    if n > 4096:
        return _ramp(n, rng.randrange(1000))
    if rng.random() < 0.3:
        s = rng.choice(PAYLOAD)
        return (s * (n // len(s) + 1))[:n]
    if n > 64:
        return bytes([rng.randrange(256)]) * n
    return bytes(rng.randrange(256) for _ in range(n))


def _rand_token(rng, n):
    return bytes(rng.choice(_TCHARS) for _ in range(n))


def _rand_vchars(rng, n):
    if n > 4096:
        return b"/" + _ramp(n - 1, rng.randrange(1000))
    return bytes(rng.randrange(0x21, 0x7f) for _ in range(n))


def _inject(rng, base, bad):
    """an otherwise valid value with ONE disallowed byte (or a CRLF injection) somewhere: start, inside, end"""
    r = rng.random()
    d = (bytes([rng.choice(b" \t\r\n\x00\x7f\x80\xff\x0b\x0c\x85\xa0")]) if r < 0.6 else bytes([rng.choice(bad)]) if r < 0.9
         else rng.choice([b"\r\n", b"\r\nX: y", b" HTTP/1.1\r\n\r\n", b"\n\n"]))
    k = rng.choice([0, len(base), rng.randrange(len(base) + 1)])
    return base[:k] + d + base[k:]


def _gen_method(rng, ok):
    r = rng.random()
    base = (rng.choice(METHODS_OK) if r < 0.55 else rng.choice(METHODS_REG) if r < 0.88 else
            _rand_token(rng, rng.choice(LENGTHS[:11])))      # up to 256 bytes
    if ok:
        return base
    return rng.choice(METHODS_BAD) if rng.random() < 0.5 else _inject(rng, base, _NOT_TCHAR)


def _gen_uri(rng, ok):
    r = rng.random()
    base = (rng.choice(URIS_OK) if r < 0.5 else rng.choice(URIS_FORMS) if r < 0.8 else
            _rand_vchars(rng, rng.choice(LENGTHS)) if r < 0.992 else _rand_vchars(rng, rng.choice(LONG_LENGTHS)))
    if ok:
        return base
    return rng.choice(URIS_BAD) if rng.random() < 0.4 else _inject(rng, base, _NOT_VCHAR)


def _gen_name(rng):
    r = rng.random()
    if r < 0.45:
        return rng.choice(NAMES)
    if r < 0.85:
        n = rng.choice(NAMES_REG)
        return rng.choice([n, n.lower(), n.upper()])
    while True:
        n = _rand_token(rng, rng.choice([1, 2, 3, 5, 8, 13, 40]))
        if n.lower() not in _RESERVED:
            return n


def _gen_value(rng):
    r = rng.random()
    if r < 0.5:
        return rng.choice(VALS_OK)
    if r < 0.82:
        return rng.choice(VALS_REG)
    if r < 0.83:
        return b"v" * rng.choice([1000, 4096, 8191, 8192, 8193])
    return rng.choice(VALS_BAD)


def _gen_headers(rng):
    r = rng.random()
    if r < 0.82:
        h = [("set", rng.choice([b"host", b"Host", b"HOST"]), [rng.choice([b"example.com", b"h:8080", b"[::1]", b""])])]
    elif r < 0.88:
        h = []
    elif r < 0.94:
        h = [("set", b"host", [b"a", b"b"])]
    elif r < 0.97:
        h = [("set", b"host", [])]
    else:
        h = [("add", b"host", [b"a"]), ("add", b"HoSt", [b"b"])]
    for _ in range(rng.choice([0, 0, 1, 1, 2, 3, 5])):
        name = _gen_name(rng)
        if rng.random() < 0.04:
            name = rng.choice([b"content-length", b"Transfer-Encoding", b"CONTENT-LENGTH"])
        vals = [_gen_value(rng) for _ in range(rng.choice([1, 1, 1, 2, 3, 0]))]
        if len(vals) > 1 and rng.random() < 0.3:
            vals[-1] = vals[0]          # the same value twice under one name
        h.append((rng.choice(["set", "set", "add"]), name, vals))
    if rng.random() < 0.3:
        rng.shuffle(h)
    return h


def _gen_script(rng, body, tier):
    n = rng.choice([0, 1, 1, 2, 3, 4, 6])
    many = rng.random() < 0.03
    if many:                        # long runs of small writes
        n = rng.choice([12, 33, 100])

    def size():
        q = rng.random()
        if many:
            return rng.randrange(0, 20)
        if q < (0.006 if tier == "quick" else 0.002):
            return rng.choice(BIG_SIZES[:3] * 4 + BIG_SIZES[3:6] * 4 + BIG_SIZES[6:9] * 3 + BIG_SIZES[9:12] * 2 + BIG_SIZES[12:])
        if q < (0.008 if tier == "quick" else 0.003):
            return int(4097 * (32 ** rng.random()))     # log-uniform 4 KiB .. 128 KiB
        return rng.choice(SIZES) if q < 0.72 else rng.randrange(0, 40)

    writes = [_data(rng, size()) for _ in range(n)]
    r = rng.random()
    if r < 0.62:
        ev = [W(w) for w in writes] + [["ok"]]
    elif r < 0.72:
        ev = [W(w) for w in writes]
    elif r < 0.82:
        ev = [W(w) for w in writes] + [["err"]]
    else:       # activity after the end
        k = rng.randrange(len(writes) + 1)
        ev = [W(w) for w in writes[:k]] + [[rng.choice(["ok", "err"])]] + [W(w) for w in writes[k:]]
    length = sum(len(unhx(e[1])) for e in ev if e[0] == "w")
    if body == "u":
        blen = "u"
    else:
        q = rng.random()
        blen = length if q < 0.7 else max(0, length + rng.choice([-1, 1, -17, 5, 1000])) if q < 0.95 else rng.choice([0, 10**12])
    ev.insert(rng.randrange(len(ev) + 1), ["ret"])
    return blen, ev


def _gen_prelude(rng):
    r = rng.random()
    return prelude(h=_gen_headers(rng) if rng.random() < 0.5 else None, p=rng.choice([True, False, None]),
                   m=None if rng.random() < 0.6 else _gen_method(rng, rng.random() < 0.7),
                   u=None if rng.random() < 0.4 else _gen_uri(rng, rng.random() < 0.7),
                   n=rng.choice([1, 1, 2]), b=None if r < 0.7 else "u" if r < 0.85 else rng.choice([0, 3, 17]),
                   inplace=rng.random() < 0.5)


def _gen(rng, tier):
    m = _gen_method(rng, rng.random() < 0.9)
    u = _gen_uri(rng, rng.random() < 0.9)
    m2 = u2 = None
    if rng.random() < 0.12:
        m2 = _gen_method(rng, rng.random() < 0.4)
    if rng.random() < 0.12:
        u2 = _gen_uri(rng, rng.random() < 0.4)
    kind = rng.choice([None, "u", "u", "k", "k"])
    b, s = None, []
    if kind is not None:
        b, s = _gen_script(rng, kind, tier)
    pre = _gen_prelude(rng) if rng.random() < 0.2 else None
    p = rng.choice([True, True, True, False, False, False, None]) if pre is None else rng.random() < 0.5
    c = case(m, u, m2, u2, _gen_headers(rng), p, b, s, t="fd" if rng.random() < 0.35 else "s",
             ctor="construct" if rng.random() < 0.4 else "init", pre=pre)
    if tier == "quick" and sum(len(e[1]) for e in s if e[0] == "w") > 2 * 70000:
        c["oo"] = 1
    return c


def _sweep(rng):
    """Deterministic part of the quick tier: EVERY byte value that is not allowed, at the start, inside and at the end of
    an otherwise valid method and target (the bases rotate through all the lists, so absolute-form targets and uncommon
    methods get their turn) - once given to the constructor and once assigned to .method / .uri afterwards."""
    mbases = METHODS_OK + METHODS_REG
    ubases = URIS_OK[:-1] + URIS_FORMS
    i = 0
    for later in (False, True):
        for d in _NOT_TCHAR:
            for pos in (0, 1, 2):
                base = mbases[i % len(mbases)]
                i += 1
                k = 0 if pos == 0 else len(base) if pos == 2 else rng.randrange(len(base) + 1)
                w = base[:k] + bytes([d]) + base[k:]
                yield case(m=b"GET" if later else w, m2=w if later else None, p=bool(i & 1), ctor="construct" if i & 2 else "init")
        for d in _NOT_VCHAR:
            for pos in (0, 1, 2):
                base = ubases[i % len(ubases)]
                i += 1
                k = 0 if pos == 0 else len(base) if pos == 2 else rng.randrange(len(base) + 1)
                w = base[:k] + bytes([d]) + base[k:]
                yield case(u=b"/" if later else w, u2=w if later else None, p=bool(i & 1), t="fd" if i & 2 else "s")


def _sweep_sizes(rng, tier):
    """Deterministic: one body of unknown and one of known length for every size 2^k - 1, 2^k, 2^k + 1 (k = 13..17), as a
    single write followed by a short one, every position recognisable.  In the quick tier those above 32 KiB + 1 are judged
    by the oracle only and 128 KiB is left to the thorough tier (cost of the model run)."""
    H = [("set", b"host", [b"example.com"])]
    for i, n in enumerate(BIG_SIZES):
        if tier == "quick" and n > 65537:
            continue
        for kind in ("u", "k"):
            big, tail = _ramp(n, rng.randrange(1000)), _ramp(rng.choice([1, 5, 17]), 7)
            ev = [W(big), W(tail), ["ok"]]
            ev.insert(rng.randrange(len(ev) + 1), ["ret"])
            c = case(rng.choice([b"POST", b"PUT", b"PATCH"]), b"/upload", h=H, p=bool(i & 1), b="u" if kind == "u" else n + len(tail), s=ev,
                     t="fd" if rng.random() < 0.5 else "s")
            if tier == "quick" and n > 32769:
                c["oo"] = 1
            yield c


def generate(rng, tier):
    yield from _sweep(rng)
    yield from _sweep_sizes(rng, tier)
    n = 2500 if tier == "quick" else 60000
    for _ in range(n):
        yield _gen(rng, tier)


def _szclass(n):
    return "0" if n == 0 else "1-9" if n < 10 else "10-15" if n < 16 else "16-255" if n < 256 else "256-4095" if n < 4096 else "4096+"


def tag(c, out):
    if out.startswith("!"):
        return out
    f = _fields(out)
    info = classify(c)
    parts = [f["res"], "body=" + ("none" if c["b"] is None else "u" if c["b"] == "u" else "k"), info["body"]]
    if c["b"] is not None:
        names = [e[0] for e in c["s"]]
        fire = [i for i, e in enumerate(names) if e in ("ok", "err")]
        parts.append("sync" if fire and fire[0] < names.index("ret") else "async" if fire else "nofire")
        lens = [len(unhx(e[1])) for e in c["s"] if e[0] == "w"]
        parts.append("sz=" + ("e" if 0 in lens else "") + ("s" if any(0 < n < 16 for n in lens) else "")
                     + ("m" if any(16 <= n < 4096 for n in lens) else "") + ("l" if any(4096 <= n < 8191 for n in lens) else "")
                     + ("L" if any(n >= 8191 for n in lens) else "") + ("+" if len(lens) > 6 else ""))
    parts.append("p" if c["p"] else "np" if c["p"] is not None else "p-default")
    if c.get("t", "s") != "s":
        parts.append("t=" + c["t"])
    if c.get("ctor", "init") != "init":
        parts.append("construct")
    if c.get("pre") is not None:
        parts.append("rewritten")
    parts.append("host1" if info["host1"] else "hostX")
    parts.append("vals" if info["values_ok"] else "badvals")
    if info["framing"]:
        parts.append("userframing")
    if c["m2"] is not None or c["u2"] is not None:
        parts.append("mutated")
    parts.append("parse=" + f["parse"].split(":")[0])
    return ",".join(parts)


def shrink(c):
    s = c["s"]
    if c.get("pre") is not None:
        yield {k: v for k, v in c.items() if k != "pre"}
        pre = c["pre"]
        for k, v in (("n", 1), ("b", None), ("m", None), ("u", None), ("inplace", False)):
            if pre.get(k) != v:
                yield dict(c, pre=dict(pre, **{k: v}))
    if c.get("t", "s") != "s":
        yield {k: v for k, v in c.items() if k != "t"}
    if c.get("ctor", "init") != "init":
        yield {k: v for k, v in c.items() if k != "ctor"}
    if c["p"] is None:
        yield dict(c, p=False)
    for i, e in enumerate(s):
        if e[0] != "ret":
            yield dict(c, s=s[:i] + s[i + 1:])
    for i, e in enumerate(s):
        if e[0] == "w" and e[1] != "-":
            d = unhx(e[1])
            for d2 in (d[: len(d) // 2], d[1:], b"a" * len(d)):
                if d2 != d:
                    yield dict(c, s=s[:i] + [W(d2)] + s[i + 1:])
    h = c["h"]
    for i in range(len(h)):
        yield dict(c, h=h[:i] + h[i + 1:])
    for i, (how, n, vs) in enumerate(h):
        for j in range(len(vs)):
            yield dict(c, h=h[:i] + [[how, n, vs[:j] + vs[j + 1:]]] + h[i + 1:])
    if c["m2"] is not None:
        yield dict(c, m2=None)
    if c["u2"] is not None:
        yield dict(c, u2=None)
    if not c["p"]:
        yield dict(c, p=True)
    if isinstance(c["b"], int) and c["b"] > 0:
        yield dict(c, b=c["b"] // 2)
        yield dict(c, b=c["b"] - 1)


def search(rng, tier, disagreeing):
    """Around a disagreement: every position of `ret`, every single write replaced by an empty one / split in two."""
    for c in disagreeing[:20]:
        s = [e for e in c["s"] if e[0] != "ret"]
        if c["b"] is None:
            continue
        for k in range(len(s) + 1):
            yield dict(c, s=s[:k] + [["ret"]] + s[k:])
        for i, e in enumerate(c["s"]):
            if e[0] == "w":
                d = unhx(e[1])
                yield dict(c, s=c["s"][:i] + [W(b"")] + c["s"][i + 1:])
                yield dict(c, s=c["s"][:i] + [W(d[: len(d) // 2]), W(d[len(d) // 2:])] + c["s"][i + 1:])
    for _ in range(2000):
        yield _gen(rng, tier)
