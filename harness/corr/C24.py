"""C24 — HTTP client request serialisation: real Request.writeTo on a StringTransport vs the Lean model,
the emitted bytes read back by h11 (implementation side) and by the Lean RFC 9112 reference parser
(model side), and the property oracle on the real code."""
import re

import h11

from twisted.internet.defer import Deferred
from twisted.internet.testing import StringTransport
from twisted.web._newclient import BadHeaders, ExcessWrite, Request, WrongBodyLength
from twisted.web.http_headers import Headers
from twisted.web.iweb import UNKNOWN_LENGTH
from twisted.logger import Logger

# "Producer is buggy" / "Buggy state machine" reports of combine() are logged, not raised; keep them off stderr
Request._log = Logger(namespace="twisted.web._newclient.Request", observer=lambda event: None)

HEADLINE = "TwistedProps.C24.serialises_to_one_request_chunked / _known_length / _no_body / invalid_method_or_target_refused_before_any_write"
RULE = ("requests from a grammar: method (RFC tokens incl. every tchar class; invalid: empty, SP, CR/LF, each delimiter, "
        "DEL, NUL, 8-bit), target (VCHAR strings; invalid: empty, SP, HTAB, CR/LF, NUL, DEL, 8-bit), optional overwrite of "
        ".method/.uri after construction, header sets through the real Headers class (Host once / missing / twice / empty "
        "list, mixed-case names, valid and hostile values: CR/LF, NUL, VT, DEL, leading/trailing blanks, obs-text, framing "
        "fields), persistent or not, body absent / UNKNOWN_LENGTH / known length with a scripted producer (writes of 0,1,"
        "9,10,15,16,17,255,256,4095,4096,65536 bytes incl. CRLF and '0\\r\\n\\r\\n' payloads, startProducing returning "
        "anywhere in the script, Deferred fired before or after it returns, success / failure / never, too many / too few "
        "bytes, writes after the end); distinct = (refusal class, body kind, outcome, sync/async finish, empty write?, "
        "write-size classes (empty / <16 / <4096 / larger), header value classes, persistent, parse class)")
ASSUMES = [
    "the transport is a fresh StringTransport (no producer registered before writeTo; write/writeSequence append)",
    "header sets are Headers objects (names canonicalised and values passed through _sanitizeLinearWhitespace by that class, "
    "which is outside the model); 'valid header set' = exactly one Host value, field values of field-vchar/SP/HTAB without "
    "leading or trailing blanks, and no Content-Length / Transfer-Encoding field supplied by the caller (the Request writes "
    "the framing field itself; a caller-supplied one is emitted in addition and is outside the statement's preconditions)",
    "a body producer is a script of consumer.write calls and at most one firing of the Deferred it returned; a valid body of "
    "known length L writes exactly L bytes and then succeeds; bodyProducer.length is UNKNOWN_LENGTH or a non-negative int",
    "stopProducing() of the producer returns normally",
]
TRUSTED = ["h11 0.16 as the independent HTTP/1.1 reader on the implementation side (plus a strictness filter: field values "
           "outside field-vchar/SP/HTAB count as malformed, as in RFC 9110 §5.5)",
           "twisted.web.http_headers.Headers (used to build the header store handed to both sides)"]
MANIFEST = {
    "text": "Lean theorems (TwistedProps/C24.lean) for every valid method token, request-target, header store and body script: "
            "the bytes written by the model of Request.writeTo are read by an RFC 9112 reference parser (written from the "
            "grammar, in Lean) as exactly one request with that method, target, field lines and body, framed by Content-Length "
            "(known length, PUT/POST without body) or chunked coding (unknown length), for all write sizes and for "
            "startProducing returning before or after the producer finishes; an invalid method or target (at construction or "
            "assigned later) is refused with nothing written. Model tied to _newclient.py by differential runs on a "
            "StringTransport; the real bytes are additionally read with h11.",
    "note": "trusts Lean kernel, the hand-written model of Request/ChunkedEncoder/LengthEnforcingConsumer (differentially tied), "
            "h11 as second reader, Headers for name canonicalisation / value sanitising",
    "technique": "Lean 4 proof (writer model + reference parser, round-trip by induction over header lines and chunks, "
                 "decimal/hex numeral round-trip) + differential tie + h11 oracle",
    "design_ref": "DESIGN.md §7 C24",
}

TOKEN = re.compile(rb"\A[!#$%&'*+\-.^_`|~0-9A-Za-z]+\Z")
VCHARS = re.compile(rb"\A[\x21-\x7e]+\Z")
FIELDVAL = re.compile(rb"\A(?:[\x21-\x7e\x80-\xff](?:[\x21-\x7e\x80-\xff \t]*[\x21-\x7e\x80-\xff])?)?\Z")
FIELDBYTES = re.compile(rb"\A[\x21-\x7e\x80-\xff \t]*\Z")
FRAMING = (b"content-length", b"transfer-encoding")


def hx(b):
    return b.hex() if b else "-"


def unhx(s):
    return b"" if s == "-" else bytes.fromhex(s)


class ProducerError(Exception):
    pass


class ScriptedProducer:
    """Plays a script of consumer.write / Deferred firings; `ret` is where startProducing returns."""

    def __init__(self, length, script):
        self.length = length
        self.script = list(script)
        self.pos = 0
        self.stops = 0
        self.excess = 0
        self.d = Deferred()

    def _play(self, untilRet):
        while self.pos < len(self.script):
            ev = self.script[self.pos]
            self.pos += 1
            if ev[0] == "ret":
                if untilRet:
                    return
                continue
            if ev[0] == "w":
                try:
                    self.consumer.write(unhx(ev[1]))
                except ExcessWrite:
                    self.excess += 1
            elif ev[0] == "ok":
                self.d.callback(None)
            elif ev[0] == "err":
                self.d.errback(ProducerError())

    def startProducing(self, consumer):
        self.consumer = consumer
        self._play(True)
        return self.d

    def stopProducing(self):
        self.stops += 1

    def pauseProducing(self):
        pass

    def resumeProducing(self):
        pass


def _headers(c):
    h = Headers()
    for how, name, vals in c["h"]:
        if how == "set":
            h.setRawHeaders(unhx(name), [unhx(v) for v in vals])
        else:
            for v in vals:
                h.addRawHeader(unhx(name), unhx(v))
    return h


def stored(c):
    return [(n, list(vs)) for n, vs in _headers(c).getAllRawHeaders()]


def model_line(c):
    st = stored(c)
    hs = ";".join(hx(n) + ":" + (",".join(hx(v) for v in vs) if vs else "~") for n, vs in st) if st else "~"
    b = "none" if c["b"] is None else "u" if c["b"] == "u" else str(c["b"])
    sc = ",".join("w" + hx(unhx(e[1])) if e[0] == "w" else e[0] for e in c["s"]) if c["s"] else "~"
    return " ".join(["req", c["m"], c["u"], c["m2"] if c["m2"] is not None else "~",
                     c["u2"] if c["u2"] is not None else "~", "1" if c["p"] else "0", hs, b, sc])


def h11_parse(data):
    """The bytes as one HTTP/1.1 request, read by h11 (canonical text shared with the Lean driver)."""
    if not data:
        return "incomplete"
    conn = h11.Connection(h11.SERVER, max_incomplete_event_size=1 << 30)
    conn.receive_data(data)
    req, body, done, err, more = None, [], False, False, False
    try:
        while True:
            ev = conn.next_event()
            if ev is h11.NEED_DATA:
                break
            if ev is h11.PAUSED:
                more = True
                break
            if isinstance(ev, h11.Request):
                req = ev
            elif isinstance(ev, h11.Data):
                body.append(bytes(ev.data))
            elif isinstance(ev, h11.EndOfMessage):
                done = True
                if ev.headers:
                    return "bad"
            else:
                return "bad"
    except h11.RemoteProtocolError:
        err = True
    if req is None:
        return "bad" if err else "incomplete"
    hs = [(bytes(n), bytes(v)) for n, v in req.headers]
    if req.http_version != b"1.1" or any(not FIELDBYTES.match(v) for _, v in hs):
        return "bad"
    if not done:
        return "bad" if err else "incomplete"
    if err or more or conn.trailing_data[0]:
        return "trailing"
    names = [n for n, _ in hs]
    if b"transfer-encoding" in names:
        fr = "chunked"
    elif b"content-length" in names:
        fr = "cl" + str(int(dict(hs)[b"content-length"]))
    else:
        fr = "none"
    return "ok:%s:%s:%s:%s:%s" % (hx(bytes(req.method)), hx(bytes(req.target)),
                                  ",".join(hx(n) + "=" + hx(v) for n, v in hs) if hs else "~", fr, hx(b"".join(body)))


def _has_framing(c):
    return any(n.lower() in FRAMING for n, _ in stored(c))


def run_impl(c):
    t = StringTransport()
    prod = None if c["b"] is None else ScriptedProducer(UNKNOWN_LENGTH if c["b"] == "u" else c["b"], c["s"])
    res = []
    try:
        r = Request(unhx(c["m"]), unhx(c["u"]), _headers(c), prod, persistent=c["p"])
        if c["m2"] is not None:
            r.method = unhx(c["m2"])
        if c["u2"] is not None:
            r.uri = unhx(c["u2"])
        d = r.writeTo(t)
    except (ValueError, BadHeaders) as e:
        return "res=raised:%s reg=%d stops=%d excess=%d out=%s parse=%s" % (
            "BadHeaders" if isinstance(e, BadHeaders) else "ValueError", int(t.producer is not None),
            prod.stops if prod else 0, prod.excess if prod else 0, hx(t.value()), h11_parse(t.value()))

    def eb(f):
        res.append("fail:WrongBodyLength" if f.check(WrongBodyLength) else
                   "fail:ProducerError" if f.check(ProducerError) else "fail:" + f.type.__name__)

    d.addCallbacks(lambda r: res.append("ok" if r is None else "ok:" + repr(r)), eb)
    if prod is not None:
        prod._play(False)
    out = t.value()
    return "res=%s reg=%d stops=%d excess=%d out=%s parse=%s" % (
        res[0] if res else "pending", int(t.producer is not None), prod.stops if prod else 0,
        prod.excess if prod else 0, hx(out), "skip" if _has_framing(c) else h11_parse(out))


# ----------------------------------------------------------------------------------------
# the property on the implementation, independent of the model

def _fields(line):
    return dict(f.split("=", 1) for f in line.split(" "))


def _effective(script):
    """Events in the order their effects happen: a Deferred fired before `ret` acts at `ret`."""
    pre, post, seen = [], [], False
    for e in script:
        if e[0] == "ret":
            seen = True
        elif seen:
            post.append(e)
        else:
            pre.append(e)
    return [e for e in pre if e[0] == "w"] + [e for e in pre if e[0] != "w"] + post


def _expected_headers(c):
    """name (lower) -> values, in the caller's terms, without using Headers."""
    d = {}
    for how, name, vals in c["h"]:
        k = unhx(name).lower()
        if how == "set":
            d[k] = [unhx(v) for v in vals]
        else:
            d.setdefault(k, []).extend(unhx(v) for v in vals)
    return d


def classify(c):
    m = unhx(c["m2"]) if c["m2"] is not None else unhx(c["m"])
    u = unhx(c["u2"]) if c["u2"] is not None else unhx(c["u"])
    info = {"m": m, "u": u}
    info["refuse"] = not (TOKEN.match(unhx(c["m"])) and VCHARS.match(unhx(c["u"])) and TOKEN.match(m) and VCHARS.match(u))
    hd = _expected_headers(c)
    info["hd"] = hd
    info["host1"] = len(hd.get(b"host", [])) == 1
    info["values_ok"] = all(FIELDVAL.match(v) for vs in hd.values() for v in vs)
    info["framing"] = any(k in FRAMING for k in hd)
    info["headers_ok"] = info["host1"] and info["values_ok"] and not info["framing"]
    if c["b"] is None:
        info["body"] = "valid"
        info["data"] = b""
    else:
        eff = _effective(c["s"])
        fires = [i for i, e in enumerate(eff) if e[0] in ("ok", "err")]
        writes_before = b"".join(unhx(e[1]) for e in (eff[:fires[0]] if fires else eff) if e[0] == "w")
        info["data"] = writes_before
        info["empty_write"] = any(e[0] == "w" and e[1] == "-" for e in (eff[:fires[0]] if fires else eff))
        lenok = c["b"] == "u" or len(writes_before) == c["b"]
        # every prefix of the writes must stay within the declared length
        if c["b"] != "u":
            tot = 0
            for e in (eff[:fires[0]] if fires else eff):
                tot += len(unhx(e[1]))
                if tot > c["b"]:
                    lenok = None
        if not fires:
            info["body"] = "pending" if lenok is not None else "misbehaved"
        elif fires[0] != len(eff) - 1 or lenok is None:
            info["body"] = "misbehaved"
        elif eff[fires[0]][0] == "err":
            info["body"] = "failed"
        else:
            info["body"] = "valid" if lenok else "misbehaved"
    return info


def oracle(c, out):
    if out.startswith("!"):
        return {"key": "raises", "detail": out}
    f = _fields(out)
    info = classify(c)
    raw = unhx(f["out"])
    if info["refuse"]:
        if not f["res"].startswith("raised:"):
            return {"key": "invalid-not-refused", "detail": f"method {info['m']!r} target {info['u']!r}: {f['res']}, wrote {raw!r}"}
        if raw:
            return {"key": "written-before-refusal", "detail": f"{raw!r}"}
        return None
    if f["res"].startswith("raised:"):
        if raw:
            return {"key": "written-before-refusal", "detail": f"{f['res']} after {raw!r}"}
        if info["host1"]:
            return {"key": "valid-refused", "detail": f"{f['res']} for method {info['m']!r} target {info['u']!r}"}
        return None
    if not info["headers_ok"]:
        return None
    if info["body"] == "misbehaved":
        # whatever a producer of declared length L does, no more than L body bytes may follow the head
        # (TwistedProps.C24.content_length_never_exceeded): the bytes never read as a message plus left-overs
        if isinstance(c["b"], int) and f["parse"] == "trailing":
            return {"key": "content-length-overrun", "detail": f"declared {c['b']}: {raw[-80:]!r}"}
        return None
    ekey = "empty-write-ends-chunked-body" if c["b"] == "u" and info.get("empty_write") else None
    if info["body"] in ("pending", "failed"):
        # the message must not read as complete while its body is unfinished / has failed
        complete = f["parse"].startswith("ok:") or f["parse"] == "trailing"
        if c["b"] == "u" and complete:
            return {"key": ekey or "unfinished-body-complete", "detail": f"body {info['body']} but the bytes read as {f['parse'][:60]}: {raw!r}"}
        if c["b"] != "u" and info["body"] == "pending" and len(info["data"]) < c["b"] and complete:
            return {"key": "unfinished-body-complete", "detail": f"{raw!r}"}
        return None
    # valid request: exactly one message with these parts
    if f["res"] != "ok":
        return {"key": ekey or "valid-not-ok", "detail": f"writeTo result {f['res']}"}
    p = f["parse"]
    if not p.startswith("ok:"):
        return {"key": ekey or "not-one-request", "detail": f"h11 reads {raw[:200]!r} as {p}"}
    _, pm, pu, ph, pfr, pbody = p.split(":")
    exp_fr = ("chunked" if c["b"] == "u" else "cl%d" % c["b"] if c["b"] is not None
              else "cl0" if info["m"] in (b"PUT", b"POST") else "none")
    exp_h = {k: list(v) for k, v in info["hd"].items() if v}
    if not c["p"]:
        exp_h[b"connection"] = [b"close"] + exp_h.get(b"connection", [])
    if exp_fr == "chunked":
        exp_h[b"transfer-encoding"] = [b"chunked"]
    elif exp_fr != "none":
        exp_h[b"content-length"] = [exp_fr[2:].encode()]
    got_h = {}
    if ph != "~":
        for item in ph.split(","):
            n, v = item.split("=")
            got_h.setdefault(unhx(n), []).append(unhx(v))
    if unhx(pm) != info["m"] or unhx(pu) != info["u"]:
        return {"key": "request-line", "detail": f"{unhx(pm)!r} {unhx(pu)!r}"}
    if got_h != exp_h:
        return {"key": "headers", "detail": f"read {got_h!r} expected {exp_h!r}"}
    if pfr != exp_fr:
        return {"key": "framing", "detail": f"{pfr} expected {exp_fr}"}
    if unhx(pbody) != info["data"]:
        return {"key": ekey or "body", "detail": f"read {unhx(pbody)[:80]!r} expected {info['data'][:80]!r}"}
    return None


# ----------------------------------------------------------------------------------------
# cases

def W(b):
    return ["w", hx(b)]


def case(m=b"GET", u=b"/", m2=None, u2=None, h=None, p=False, b=None, s=()):
    return {"m": hx(m), "u": hx(u), "m2": None if m2 is None else hx(m2), "u2": None if u2 is None else hx(u2),
            "h": [[how, hx(n), [hx(v) for v in vs]] for how, n, vs in (h if h is not None else [("set", b"host", [b"example.com"])])],
            "p": p, "b": b, "s": [list(e) for e in s]}


def corpus():
    H = [("set", b"host", [b"example.com"])]
    return [
        case(),
        case(b"GET\n", b"/"), case(b"GET", b"/path\n"), case(b"GET\r", b"/"), case(b"GET", b"/path\x7f"),   # trailing invalid byte
        case(b"POST", b"/x?y=1", h=H + [("set", b"x-a", [b"1", b"two words"])], b="u", s=[W(b"abc"), ["ret"], W(b"defgh" * 4), ["ok"]]),
        # an empty write in a body of unknown length
        case(b"POST", b"/x", b="u", s=[W(b"abc"), W(b""), W(b"def"), ["ret"], ["ok"]]),
        case(b"POST", b"/x", b="u", s=[["ret"], W(b""), ]),
        case(b"PUT", b"/x", b=5, s=[W(b"ab"), ["ok"], W(b"cde"), ["ret"]]),
        case(b"PUT", b"/x", b=5, s=[["ret"], W(b"ab"), W(b"cdef"), ["ok"]]),
        case(b"PUT", b"/x", b=5, s=[W(b"abcdef"), ["ok"], ["ret"]]),
        case(b"PUT", b"/x", b=5, s=[W(b"ab"), ["ret"], ["ok"]]),
        case(b"PUT", b"/x", b=0, s=[["ret"], ["ok"]]),
        case(b"PUT", b"/x", p=True),
        case(b"GET", b"/x", b="u", s=[W(b"a"), ["ret"], ["err"], W(b"b")]),
        case(b"G ET", b"/"), case(b"GET", b"/ HTTP/1.1\r\nX: y"), case(b"", b"/"), case(b"GET", b""),
        case(b"GET", b"/", m2=b"GET\r\n"), case(b"GET", b"/", u2=b"/a b", b="u", s=[W(b"x"), ["ret"]]),
        case(h=[]), case(h=[("set", b"host", [b"a", b"b"])]), case(h=[("set", b"HOST", [])]),
        case(h=H + [("set", b"x", [b"a\r\nInjected: 1", b"\x00", b" pad ", b"\x80\xff"])]),
        case(b"POST", h=H + [("set", b"content-length", [b"7"])], b=3, s=[W(b"abc"), ["ret"], ["ok"]]),
    ]


METHODS_OK = [b"GET", b"POST", b"PUT", b"HEAD", b"DELETE", b"OPTIONS", b"PATCH", b"M-SEARCH", b"get", b"!#$%&'*+-.^_`|~", b"A1", b"x"]
METHODS_BAD = [b"", b"GET ", b" GET", b"G ET", b"GET\r\n", b"GET\r\nX: y", b"G\nET", b"G\tET", b"GET\x00", b"GET\x7f", b"G\x80T", b"\xff"] + \
    [b"G" + bytes([d]) + b"T" for d in b'"(),/:;<=>?@[\\]{}']
URIS_OK = [b"/", b"/a/b?c=d&e=f", b"*", b"http://example.com/x", b"/%20%0d%0a", b"/~!@#$%^&*()_+{}|:\"<>?`-=[]\\;',.", b"x", b"/" + b"a" * 300]
URIS_BAD = [b"", b"/a b", b"/ HTTP/1.1\r\nHost: evil\r\n\r\n", b"/a\r\n", b"/a\nb", b"/a\rb", b"/\t", b"/\x00", b"/\x7f", b"/\x80", b"/\xff", b" /", b"/ "]
# every byte that is not allowed, at the start, in the middle and at the END of an otherwise valid method / target
# (a trailing LF alone is what a `$`-anchored regex lets through: seeded change C24-1)
_TCHAR = set(b"!#$%&'*+-.^_`|~0123456789ABCDEFGHIJKLMNOPQRSTUVWXYZabcdefghijklmnopqrstuvwxyz")
METHODS_BAD += [w for d in range(256) if d not in _TCHAR
                for w in (b"GET" + bytes([d]), bytes([d]) + b"GET", b"GE" + bytes([d]) + b"T")]
URIS_BAD += [w for d in range(256) if not 0x21 <= d <= 0x7e
             for w in (b"/path" + bytes([d]), bytes([d]) + b"/path", b"/pa" + bytes([d]) + b"th")]
NAMES = [b"x-a", b"X-A", b"accept", b"Accept-Encoding", b"te", b"etag", b"Content-Type", b"cOOkie", b"connection", b"user-agent", b"x.y_z!", b"a"]
VALS_OK = [b"1", b"a b", b"a\tb", b"", b"\x80\xff", b"text/html; q=0.5", b"x" * 300, b"close", b"keep-alive", b"a:b", b"\"q\"", b"0"]
VALS_BAD = [b" lead", b"trail ", b"\ttab\t", b"a\r\nX: y", b"a\nb", b"a\rb", b"\r\n", b"a\r\n", b"a\x00b", b"a\x0bb", b"a\x0cb", b"a\x7fb", b"\x01", b" "]
SIZES = [0, 1, 2, 9, 10, 15, 16, 17, 255, 256, 4095, 4096]
PAYLOAD = [b"\r\n", b"0\r\n\r\n", b"\x00", b"\xff", b"a", b"GET / HTTP/1.1\r\n\r\n"]


def _data(rng, n):
    if n == 0:
        return b""
    if rng.random() < 0.3:
        s = rng.choice(PAYLOAD)
        return (s * (n // len(s) + 1))[:n]
    if n > 64:
        return bytes([rng.randrange(256)]) * n
    return bytes(rng.randrange(256) for _ in range(n))


def _gen_headers(rng):
    r = rng.random()
    if r < 0.82:
        h = [("set", rng.choice([b"host", b"Host", b"HOST"]), [rng.choice([b"example.com", b"h:8080", b"[::1]", b""])])]
    elif r < 0.88:
        h = []
    elif r < 0.94:
        h = [("set", b"host", [b"a", b"b"])]
    elif r < 0.97:
        h = [("set", b"host", [])]
    else:
        h = [("add", b"host", [b"a"]), ("add", b"HoSt", [b"b"])]
    for _ in range(rng.choice([0, 0, 1, 1, 2, 3, 5])):
        name = rng.choice(NAMES)
        if rng.random() < 0.04:
            name = rng.choice([b"content-length", b"Transfer-Encoding", b"CONTENT-LENGTH"])
        vals = [rng.choice(VALS_OK) if rng.random() < 0.85 else rng.choice(VALS_BAD) for _ in range(rng.choice([1, 1, 1, 2, 3, 0]))]
        h.append((rng.choice(["set", "set", "add"]), name, vals))
    if rng.random() < 0.3:
        rng.shuffle(h)
    return h


def _gen_script(rng, body, tier):
    sizes = SIZES + ([65536] if tier == "thorough" and rng.random() < 0.1 else [])
    n = rng.choice([0, 1, 1, 2, 3, 4, 6])
    writes = [_data(rng, rng.choice(sizes) if rng.random() < 0.7 else rng.randrange(0, 40)) for _ in range(n)]
    r = rng.random()
    if r < 0.62:
        ev = [W(w) for w in writes] + [["ok"]]
    elif r < 0.72:
        ev = [W(w) for w in writes]
    elif r < 0.82:
        ev = [W(w) for w in writes] + [["err"]]
    else:       # activity after the end
        k = rng.randrange(len(writes) + 1)
        ev = [W(w) for w in writes[:k]] + [[rng.choice(["ok", "err"])]] + [W(w) for w in writes[k:]]
    length = sum(len(unhx(e[1])) for e in ev if e[0] == "w")
    if body == "u":
        blen = "u"
    else:
        q = rng.random()
        blen = length if q < 0.7 else max(0, length + rng.choice([-1, 1, -17, 5, 1000])) if q < 0.95 else rng.choice([0, 10**12])
    ev.insert(rng.randrange(len(ev) + 1), ["ret"])
    return blen, ev


def _gen(rng, tier):
    m = rng.choice(METHODS_OK) if rng.random() < 0.9 else rng.choice(METHODS_BAD)
    u = rng.choice(URIS_OK) if rng.random() < 0.9 else rng.choice(URIS_BAD)
    m2 = u2 = None
    if rng.random() < 0.12:
        m2 = rng.choice(METHODS_OK) if rng.random() < 0.4 else rng.choice(METHODS_BAD)
    if rng.random() < 0.12:
        u2 = rng.choice(URIS_OK) if rng.random() < 0.4 else rng.choice(URIS_BAD)
    kind = rng.choice([None, "u", "u", "k", "k"])
    b, s = None, []
    if kind is not None:
        b, s = _gen_script(rng, kind, tier)
    return case(m, u, m2, u2, _gen_headers(rng), rng.random() < 0.5, b, s)


def generate(rng, tier):
    n = 2500 if tier == "quick" else 60000
    for _ in range(n):
        yield _gen(rng, tier)


def _szclass(n):
    return "0" if n == 0 else "1-9" if n < 10 else "10-15" if n < 16 else "16-255" if n < 256 else "256-4095" if n < 4096 else "4096+"


def tag(c, out):
    if out.startswith("!"):
        return out
    f = _fields(out)
    info = classify(c)
    parts = [f["res"], "body=" + ("none" if c["b"] is None else "u" if c["b"] == "u" else "k"), info["body"]]
    if c["b"] is not None:
        names = [e[0] for e in c["s"]]
        fire = [i for i, e in enumerate(names) if e in ("ok", "err")]
        parts.append("sync" if fire and fire[0] < names.index("ret") else "async" if fire else "nofire")
        lens = [len(unhx(e[1])) for e in c["s"] if e[0] == "w"]
        parts.append("sz=" + ("e" if 0 in lens else "") + ("s" if any(0 < n < 16 for n in lens) else "")
                     + ("m" if any(16 <= n < 4096 for n in lens) else "") + ("l" if any(n >= 4096 for n in lens) else ""))
    parts.append("p" if c["p"] else "np")
    parts.append("host1" if info["host1"] else "hostX")
    parts.append("vals" if info["values_ok"] else "badvals")
    if info["framing"]:
        parts.append("userframing")
    if c["m2"] is not None or c["u2"] is not None:
        parts.append("mutated")
    parts.append("parse=" + f["parse"].split(":")[0])
    return ",".join(parts)


def shrink(c):
    s = c["s"]
    for i, e in enumerate(s):
        if e[0] != "ret":
            yield dict(c, s=s[:i] + s[i + 1:])
    for i, e in enumerate(s):
        if e[0] == "w" and e[1] != "-":
            d = unhx(e[1])
            for d2 in (d[: len(d) // 2], d[1:], b"a" * len(d)):
                if d2 != d:
                    yield dict(c, s=s[:i] + [W(d2)] + s[i + 1:])
    h = c["h"]
    for i in range(len(h)):
        yield dict(c, h=h[:i] + h[i + 1:])
    for i, (how, n, vs) in enumerate(h):
        for j in range(len(vs)):
            yield dict(c, h=h[:i] + [[how, n, vs[:j] + vs[j + 1:]]] + h[i + 1:])
    if c["m2"] is not None:
        yield dict(c, m2=None)
    if c["u2"] is not None:
        yield dict(c, u2=None)
    if not c["p"]:
        yield dict(c, p=True)
    if isinstance(c["b"], int) and c["b"] > 0:
        yield dict(c, b=c["b"] // 2)
        yield dict(c, b=c["b"] - 1)


def search(rng, tier, disagreeing):
    """Around a disagreement: every position of `ret`, every single write replaced by an empty one / split in two."""
    for c in disagreeing[:20]:
        s = [e for e in c["s"] if e[0] != "ret"]
        if c["b"] is None:
            continue
        for k in range(len(s) + 1):
            yield dict(c, s=s[:k] + [["ret"]] + s[k:])
        for i, e in enumerate(c["s"]):
            if e[0] == "w":
                d = unhx(e[1])
                yield dict(c, s=c["s"][:i] + [W(b"")] + c["s"][i + 1:])
                yield dict(c, s=c["s"][:i] + [W(d[: len(d) // 2]), W(d[len(d) // 2:])] + c["s"][i + 1:])
    for _ in range(2000):
        yield _gen(rng, tier)
