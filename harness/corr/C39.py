"""C39 — telnet option negotiation always converges.

Two real `twisted.conch.telnet.Telnet` instances joined by two FIFO channels whose delivery the case
schedules (one negotiation command at a time, whole or byte by byte), requests made through the public
`will/wont/do/dont` API, policy hooks answering from a fixed per-endpoint set — against the Lean model
(TwistedModel/Telnet/Negotiate.lean), event by event; plus the property oracle evaluated on the real
objects alone (drains the channels, then checks Deferreds, message counts and agreement)."""
import json
import random

from twisted.conch import telnet
from twisted.internet.testing import StringTransport

HEADLINE = "TwistedProps.C39.negotiation_converges"
RULE = ("a case = policies (which options each endpoint's enableLocal/enableRemote accept) + a history of ops: "
        "requests `q<side>:<WILL|WONT|DO|DONT>:<opt>` through the public API and deliveries `d<side>` of the oldest "
        "command in flight to that side; generated (a) exhaustively with state hashing over the real objects "
        "(1 option: up to 3 requests quick / 6 thorough; 2 options: 2 / 4), every policy combination, one case per "
        "distinct reachable (options, channels, requests-left) state, (b) scenario templates (simultaneous and crossing "
        "requests, request during a pending reply, re-request after refusal), (c) random histories of 5..60 ops over "
        "up to 4 options biased to enabled requests, ~15% with a `do` the endpoint's own policy refuses (the proof's "
        "hypothesis, tie only), (d) oracle-only histories where requests are issued from inside Deferred callbacks; "
        "distinct = set of per-op event shapes (ids/options erased) occurring in the history")
ASSUMES = [
    "each endpoint's enableLocal/enableRemote answer is a fixed predicate on the option and accepts every option the "
    "endpoint itself requests with will()/do() (the property's precondition; the theorems need it for do() only)",
    "each direction is a FIFO byte stream carrying only negotiation commands (application data: C38)",
    "Deferred callbacks added by the application do not raise",
]
TRUSTED = [
    "twisted.internet.testing.StringTransport as the byte sink of each endpoint",
    "Telnet.dataReceived turns IAC <cmd> <opt> into commandReceived(cmd, opt) for any segmentation (C38)",
    "Deferred fires its callbacks synchronously, once (C01-C05); modelled as a cell",
]
MANIFEST = {
    "text": "Lean theorems (TwistedProps/C39.lean) over every history of will/wont/do/dont requests by either endpoint and "
            "every interleaving of deliveries on the two FIFO channels, any number of options: no handler raises (the two "
            "`assert False` cells and the enableRemote assertion are unreachable), every request's Deferred fires at most "
            "once always and exactly once when the channels are empty, at most 2 commands are ever sent per request (per "
            "option and in total) so delivery terminates, and with empty channels both sides agree on every option in both "
            "directions with no negotiation pending. Proved by projecting the system onto per-(option, direction) links, a "
            "40-state inductive invariant of a link checked by kernel `decide`, and a refinement lemma per step. Model tied "
            "to telnet.py by differential runs on real Telnet pairs, exhaustive over small histories with state hashing.",
    "note": "trusts Lean kernel, the hand-written model of Telnet.will/wont/do/dont and the 16 handlers (differentially "
            "tied), StringTransport, the Deferred-as-cell abstraction",
    "technique": "Lean 4 proof (per-link finite invariant by decide + refinement/projection induction) + differential tie",
    "design_ref": "DESIGN.md §7.6 C39",
}

CMDS = {"WILL": telnet.WILL, "WONT": telnet.WONT, "DO": telnet.DO, "DONT": telnet.DONT}
NAMES = {v: k for k, v in CMDS.items()}
SIDES = ("A", "B")
OPTS = [1, 3, 31, 34, 0, 254]


# ---------------------------------------------------------------------------------------
# the real code

class _Wire(StringTransport):
    """Byte sink of one endpoint: what is written becomes commands in flight to the peer."""

    def __init__(self, side, log, queue):
        StringTransport.__init__(self)
        self.side, self.log, self.queue = side, log, queue
        self.pending = b""

    def write(self, data):
        StringTransport.write(self, data)
        self.pending += data
        while len(self.pending) >= 3:
            m, self.pending = self.pending[:3], self.pending[3:]
            assert m[:1] == telnet.IAC and m[1:2] in NAMES, m
            self.log.append(f"{self.side}.sent.{NAMES[m[1:2]]}.{m[2]}")
            self.queue.append(m)


class _EP(telnet.Telnet):
    """Real Telnet; only the four policy hooks are supplied (they are the subclass API)."""

    def __init__(self, side, log, local, remote):
        telnet.Telnet.__init__(self)
        self.side, self.log, self.local, self.remote = side, log, set(local), set(remote)

    def enableLocal(self, option):
        self.log.append(f"{self.side}.hook.enableLocal.{option[0]}")
        return option[0] in self.local

    def enableRemote(self, option):
        self.log.append(f"{self.side}.hook.enableRemote.{option[0]}")
        return option[0] in self.remote

    def disableLocal(self, option):
        self.log.append(f"{self.side}.hook.disableLocal.{option[0]}")

    def disableRemote(self, option):
        self.log.append(f"{self.side}.hook.disableRemote.{option[0]}")


class World:
    def __init__(self, case):
        self.log = []
        self.inbox = {"A": [], "B": []}
        self.ep = {}
        self.nreq = 0
        self.fired = {}           # request id -> list of results
        self.req_opt = {}         # request id -> option
        self.sent_total = 0
        self.bytewise = bool(case.get("bytewise"))
        for side, l, r in (("A", case["la"], case["ra"]), ("B", case["lb"], case["rb"])):
            e = _EP(side, self.log, l, r)
            peer = "B" if side == "A" else "A"
            e.makeConnection(_Wire(side, self.log, self.inbox[peer]))
            self.ep[side] = e

    def request(self, side, cmd, opt, then=()):
        rid = self.nreq
        self.nreq += 1
        self.req_opt[rid] = opt
        self.fired[rid] = []
        e = self.ep[side]
        d = getattr(e, cmd.lower())(bytes([opt]))
        d._verif_id = rid

        def cb(res, rid=rid, side=side):
            name = "ok" if res is True else (res.type.__name__ if hasattr(res, "type") else repr(res))
            self.fired[rid].append(name)
            self.log.append(f"{side}.fired.{rid}.{name}")
            for (s2, c2, o2) in then:
                self.request(s2, c2, o2)
        d.addBoth(cb)

    def deliver(self, side):
        q = self.inbox[side]
        if not q:
            return False
        m = q.pop(0)
        try:
            if self.bytewise:
                for i in range(3):
                    self.ep[side].dataReceived(m[i:i + 1])
            else:
                self.ep[side].dataReceived(m)
        except (AssertionError, AttributeError, NotImplementedError) as e:
            self.log.append(f"{side}.raised.{type(e).__name__}")
        return True

    def do(self, op):
        if op[0] == "d":
            self.deliver(op[1])
        else:
            q, c, o = op.split(":")
            self.request(q[1], c, int(o))

    def persp(self, p):
        s = p.state + ("*" if p.negotiating else "")
        if p.onResult is not None:
            s += f"#{p.onResult._verif_id}"
        return s

    def state(self, side, o):
        st = self.ep[side].options.get(bytes([o]))
        if st is None:
            return "us=no:him=no"
        return f"us={self.persp(st.us)}:him={self.persp(st.him)}"

    def key(self, options):
        """hashable abstract state (ids erased) for the exhaustive exploration"""
        def er(s):
            return s.split("#")[0]
        return (tuple(er(self.state(s, o)) for s in SIDES for o in options),
                tuple(bytes(b"".join(self.inbox[s])) for s in SIDES))


def _options(case):
    return sorted({int(op.split(":")[2]) for op in case["ops"] if op[0] == "q"})


def _msgs(q):
    return ",".join(f"{NAMES[m[1:2]]}.{m[2]}" for m in q) if q else "-"


def run_impl(case):
    if case.get("then"):
        return "oracle-only"
    w = World(case)
    out = []
    for op in case["ops"]:
        del w.log[:]
        w.do(op)
        out.append(",".join(w.log) if w.log else "-")
    states = [f"{s}{o}:{w.state(s, o)}" for s in SIDES for o in _options(case)]
    return (("|".join(out) if out else "-") + " final " + (";".join(states) if states else "-")
            + f" toA={_msgs(w.inbox['A'])} toB={_msgs(w.inbox['B'])} n={w.nreq}")


def model_line(case):
    if case.get("then"):
        return None

    def ls(x):
        return ",".join(str(i) for i in x) if x else "-"
    return " ".join(["run", ls(case["la"]), ls(case["ra"]), ls(case["lb"]), ls(case["rb"])] + list(case["ops"]))


# ---------------------------------------------------------------------------------------
# the property on the implementation (independent of the model)

def _wf(case):
    """the statement's precondition: policies accept the options the endpoint itself requests"""
    pol = {"A": (set(case["la"]), set(case["ra"])), "B": (set(case["lb"]), set(case["rb"]))}
    reqs = [op.split(":") for op in case["ops"] if op[0] == "q"]
    for lst in (case.get("then") or {}).values():
        reqs += [["q" + s, c, str(o)] for (s, c, o) in lst]
    for q, c, o in reqs:
        if c == "WILL" and int(o) not in pol[q[1]][0]:
            return False
        if c == "DO" and int(o) not in pol[q[1]][1]:
            return False
    return True


def oracle(case, out):
    if not _wf(case):
        return None
    w = World(case)
    then = case.get("then") or {}
    log_all = []
    nq = 0
    for op in case["ops"]:
        del w.log[:]
        if op[0] == "q":
            q, c, o = op.split(":")
            w.request(q[1], c, int(o), then=[tuple(t) for t in then.get(str(nq), [])])
            nq += 1
        else:
            w.do(op)
        log_all += w.log
        for rid, res in w.fired.items():
            if len(res) > 1:
                return {"key": "deferred-fired-twice", "detail": f"request {rid} fired {res} after {op}"}
    # drain: any interleaving must terminate; take one drawn from the case itself
    rng = random.Random(json.dumps(case, sort_keys=True))
    deliveries = 0
    while w.inbox["A"] or w.inbox["B"]:
        side = rng.choice([s for s in SIDES if w.inbox[s]])
        del w.log[:]
        w.deliver(side)
        log_all += w.log
        deliveries += 1
        if deliveries > 2 * w.nreq + 8:
            return {"key": "message-loop", "detail": f"{deliveries} deliveries after the history for {w.nreq} requests; "
                    f"still in flight toA={_msgs(w.inbox['A'])} toB={_msgs(w.inbox['B'])}"}
    raised = [e for e in log_all if ".raised." in e]
    if raised:
        return {"key": "handler-raised:" + raised[0].split(".")[-1], "detail": f"{raised[0]} (events {log_all[-6:]})"}
    for rid, res in w.fired.items():
        if len(res) != 1:
            return {"key": "deferred-fired-twice" if res else "deferred-never-fired",
                    "detail": f"request {rid} (option {w.req_opt[rid]}) fired {res} with both channels empty"}
    options = sorted(set(w.req_opt.values()))
    for o in options:
        sent = sum(1 for e in log_all if ".sent." in e and e.endswith(f".{o}"))
        nreq = sum(1 for v in w.req_opt.values() if v == o)
        if sent > 2 * nreq:
            return {"key": "message-loop", "detail": f"{sent} commands sent about option {o} for {nreq} requests"}
        a, b = w.state("A", o), w.state("B", o)
        au, ah = a.split(":")
        bu, bh = b.split(":")
        if "*" in a or "*" in b or "#" in a or "#" in b:
            return {"key": "negotiation-pending-at-quiescence", "detail": f"option {o}: A {a} B {b} with both channels empty"}
        if au[3:] != bh[4:] or ah[4:] != bu[3:]:
            return {"key": "disagreement-at-quiescence", "detail": f"option {o}: A {a} B {b} with both channels empty"}
    return None


# ---------------------------------------------------------------------------------------
# cases

def _case(la, ra, lb, rb, ops, **kw):
    c = {"la": sorted(la), "ra": sorted(ra), "lb": sorted(lb), "rb": sorted(rb), "ops": list(ops)}
    c.update(kw)
    return c


def corpus():
    al = [1, 3]
    return [
        # simultaneous will / do, both orders of delivery
        _case(al, al, al, al, ["qA:WILL:1", "qB:DO:1", "dA", "dB"]),
        _case(al, al, al, al, ["qA:WILL:1", "qB:DO:1", "dB", "dA"]),
        # refusal
        _case(al, al, [], [], ["qA:WILL:1", "dB", "dA", "qA:DO:3", "dB", "dA"]),
        # simultaneous wont / dont on an enabled option
        _case(al, al, al, al, ["qA:WILL:1", "dB", "dA", "qA:WONT:1", "qB:DONT:1", "dA", "dB"]),
        # accept, then dont before the DO is delivered: DO and DONT queue up
        _case(al, al, al, al, ["qA:WILL:1", "dB", "qB:DONT:1", "dA", "dA", "dB"]),
        # disable acknowledged, re-enable queued behind the WONT
        _case(al, al, al, al, ["qA:WILL:1", "dB", "dA", "qA:WONT:1", "qB:DONT:1", "dA", "qA:WILL:1", "dB", "dB", "dA"]),
        # the three immediate failures
        _case(al, al, al, al, ["qA:WILL:1", "qA:WILL:1", "qA:DO:1", "qA:WONT:3", "qA:DONT:3", "dB", "dA", "qA:WILL:1"]),
        # both directions, two options, interleaved
        _case(al, al, al, al, ["qA:WILL:1", "qB:WILL:1", "qA:DO:3", "qB:DO:3", "dA", "dB", "dB", "dA", "dA", "dB", "dA", "dB"]),
        # hypothesis class: do() of an option the endpoint's own enableRemote refuses (tie only)
        _case([1], [], [1], [], ["qA:DO:1", "dB", "dA"]),
        _case([], [], [], [], ["qA:WILL:1", "qB:DO:1", "dB", "dA", "qB:DONT:1", "dA", "dB"], bytewise=1),
        # will() of an option the endpoint's own enableLocal refuses
        _case([], [1], [], [1], ["qA:WILL:1", "dB", "dA", "qB:DONT:1", "dA", "dB"]),
        # requests from inside callbacks (oracle only)
        _case(al, al, al, al, ["qA:WILL:1", "dB", "dA"], then={"0": [["A", "WONT", 1], ["A", "DO", 3]]}),
    ]


def _explore(policies, options, max_req, limit):
    """every distinct reachable (options, channels, requests-left) state of the REAL pair, one history each"""
    reqs = [f"q{s}:{c}:{o}" for s in SIDES for c in CMDS for o in options]
    for (la, ra, lb, rb) in policies:
        base = _case(la, ra, lb, rb, [])
        seen = set()
        frontier = [[]]
        while frontier:
            nxt = []
            for path in frontier:
                for op in reqs + ["dA", "dB"]:
                    used = sum(1 for p in path if p[0] == "q")
                    if op[0] == "q":
                        if used >= max_req:
                            continue
                        q, c, o = op.split(":")
                        if c == "DO" and int(o) not in (ra if q[1] == "A" else rb):
                            continue
                    w = World(base)
                    for p in path:
                        w.do(p)
                    if op[0] == "d" and not w.inbox[op[1]]:
                        continue
                    w.do(op)
                    k = (w.key(options), used + (op[0] == "q"))
                    if k in seen:
                        continue
                    seen.add(k)
                    newp = path + [op]
                    nxt.append(newp)
                    yield _case(la, ra, lb, rb, newp)
                    limit -= 1
                    if limit <= 0:
                        return
            frontier = nxt


def _subsets(options):
    out = [[]]
    for o in options:
        out += [s + [o] for s in out]
    return out


def _random_case(rng, wf=True):
    k = rng.choice([1, 1, 2, 2, 3, 4])
    options = rng.sample(OPTS, k)
    pol = [[o for o in options if rng.random() < 0.65] for _ in range(4)]
    la, ra, lb, rb = pol
    n = rng.choice([5, 8, 12, 20, 30, 60])
    w = World(_case(la, ra, lb, rb, []))
    ops = []
    for _ in range(n):
        r = rng.random()
        busy = [s for s in SIDES if w.inbox[s]]
        if r < 0.5 and busy:
            op = "d" + rng.choice(busy)
        else:
            s = rng.choice(SIDES)
            o = rng.choice(options)
            c = rng.choice(["WILL", "DO", "WILL", "DO", "WONT", "DONT"])
            st = w.ep[s].options.get(bytes([o]))
            if st is not None and rng.random() < 0.7:      # bias to requests that are not rejected outright
                if c in ("WILL", "WONT"):
                    c = "WONT" if st.us.state == "yes" else "WILL"
                else:
                    c = "DONT" if st.him.state == "yes" else "DO"
            if wf:
                if c == "WILL" and o not in (la if s == "A" else lb):
                    (la if s == "A" else lb).append(o)
                    w.ep[s].local.add(o)
                if c == "DO" and o not in (ra if s == "A" else rb):
                    (ra if s == "A" else rb).append(o)
                    w.ep[s].remote.add(o)
            op = f"q{s}:{c}:{o}"
        w.do(op)
        ops.append(op)
    if rng.random() < 0.5:
        while w.inbox["A"] or w.inbox["B"]:
            s = rng.choice([s for s in SIDES if w.inbox[s]])
            w.do("d" + s)
            ops.append("d" + s)
    c = _case(la, ra, lb, rb, ops)
    if rng.random() < 0.2:
        c["bytewise"] = 1
    return c


def _reentrant_case(rng):
    c = _random_case(rng, wf=True)
    c.pop("bytewise", None)
    nreq = sum(1 for op in c["ops"] if op[0] == "q")
    options = _options(c) or [1]
    then = {}
    for i in range(nreq):
        if rng.random() < 0.4:
            lst = []
            for _ in range(rng.choice([1, 1, 2])):
                s, o, cmd = rng.choice(SIDES), rng.choice(options), rng.choice(list(CMDS))
                if cmd == "WILL" and o not in c["l" + s.lower()]:
                    cmd = "WONT"
                if cmd == "DO" and o not in c["r" + s.lower()]:
                    cmd = "DONT"
                lst.append([s, cmd, o])
            then[str(i)] = lst
    if not then:
        then = {"0": [["A", "WONT", options[0]]]}
    c["then"] = then
    return c


def generate(rng, tier):
    quick = tier == "quick"
    one = [1]
    pol1 = [(l1, r1, l2, r2) for l1 in ([], one) for r1 in ([], one) for l2 in ([], one) for r2 in ([], one)]
    yield from _explore(pol1, [1], 3 if quick else 6, 1500 if quick else 60000)
    two = [1, 3]
    pol2 = [(two, two, two, two), ([1], two, two, [3]), (two, [1], [3], two)] if quick else \
        [(a, b, c, d) for a in _subsets(two) for b in ([1], two) for c in ([3], two) for d in _subsets(two)]
    yield from _explore(pol2, two, 2 if quick else 4, 600 if quick else 40000)
    n = 900 if quick else 30000
    for i in range(n):
        r = rng.random()
        if r < 0.75:
            yield _random_case(rng, wf=True)
        elif r < 0.9:
            yield _random_case(rng, wf=False)
        else:
            yield _reentrant_case(rng)


def search(rng, tier, disagreeing):
    """property-directed: the neighbourhood of each disagreement (every prefix, every completion by deliveries),
    then a deeper exhaustive exploration of the real pair"""
    for c in disagreeing[:20]:
        for i in range(len(c["ops"]) + 1):
            for tail in ([], ["dA", "dB"] * 4, ["dB", "dA"] * 4):
                yield dict(c, ops=c["ops"][:i] + tail)
    one = [1]
    pol1 = [(l1, r1, l2, r2) for l1 in ([], one) for r1 in ([], one) for l2 in ([], one) for r2 in ([], one)]
    yield from _explore(pol1, [1], 5, 20000)
    for i in range(3000):
        yield _random_case(rng, wf=True)


def shrink(c):
    ops = c["ops"]
    if c.get("then"):
        return
    for i in range(len(ops)):
        yield dict(c, ops=ops[:i] + ops[i + 1:])
    for i in range(len(ops) - 1, 0, -1):
        yield dict(c, ops=ops[:i])
    if c.get("bytewise"):
        yield {k: v for k, v in c.items() if k != "bytewise"}


def tag(c, out):
    if out == "oracle-only":
        return "reentrant"
    body = out.split(" final ")[0]
    shapes = set()
    for opev in body.split("|"):
        sig = []
        for e in opev.split(","):
            p = e.split(".")
            if len(p) >= 3:
                sig.append(p[1] + "." + (p[3] if p[1] == "fired" else p[2]))
        shapes.add("+".join(sig))
    return " ".join(sorted(shapes))


def nontrivial(c, out):
    return len(c["ops"]) >= 2
