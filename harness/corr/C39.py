"""C39 — telnet option negotiation always converges.

Two real `twisted.conch.telnet` endpoints (a `Telnet` subclass, or a `TelnetTransport` wrapping a `TelnetProtocol`)
joined by two FIFO byte channels whose delivery the case schedules (a command at a time, byte by byte, or as
arbitrary byte segments that ignore command boundaries; or synchronously, inside the request call), requests made
through the public `will/wont/do/dont` API, policy hooks answering from a fixed per-endpoint set (as bools or as
truthy / falsy values) — against the Lean model (TwistedModel/Telnet/Negotiate.lean + NegotiateSeg.lean), op by op;
plus the property oracle evaluated on the real objects alone (drains the channels, then checks Deferreds, message
counts and agreement)."""
import json
import random

from twisted.conch import telnet
from twisted.internet.testing import StringTransport

HEADLINE = "TwistedProps.C39.negotiation_converges"
RULE = ("a case = policies (which options each endpoint's enableLocal/enableRemote accept) + endpoint flags (`ep`: Telnet "
        "subclass or TelnetTransport+protocol; `ret`: hooks answer with bools, 1/0, [opt]/None or 'yes'/''; `bytewise`) + a "
        "history of ops: requests `q<side>:<WILL|WONT|DO|DONT>:<opt>` through the public API, the same on a synchronous "
        "transport `s<side>:…` (a write pumps both directions until nothing is in flight, before the request returns), "
        "deliveries `d<side>` of the (rest of the) oldest command in flight to that side, segments `b<side>:<n>` = the next n "
        "bytes in flight as ONE dataReceived call (fragments, several commands, cuts anywhere); generated (a) exhaustively "
        "with state hashing over the real objects (1 option: up to 3 requests quick / 6 thorough; 2 options: 2 / 4), every "
        "policy combination, one case per distinct reachable (options, channels, requests-left) state, each then dressed "
        "round-robin with the flags / option bytes 255, 240, 250, 251, 13, 10, 0, 127, 128 … / coalesced deliveries, (b) "
        "scenario templates (an option refused k times in a row, enable/disable cycles, crossing requests on coalescing and "
        "synchronous transports, a request repeated from its own callback), (c) sweeps over 49..256 distinct options, (d) "
        "random histories of 5..90 ops over up to 4 of 20 option bytes biased to enabled requests, half with byte "
        "segments, 40% with synchronous requests, ~12% with a `do` the endpoint's own policy refuses (the proof's "
        "hypothesis, tie only), (e) oracle-only histories where requests are issued from inside Deferred callbacks (aimed "
        "at the completing request's own option); distinct = flags + set of per-op event shapes (ids/options erased)")
ASSUMES = [
    "each endpoint's enableLocal/enableRemote answer is a fixed predicate on the option (any truthy value accepts) and "
    "accepts every option the endpoint itself requests with will()/do() (the property's precondition; the theorems need it "
    "for do() only); the hooks do not themselves issue requests about the option and direction they are deciding",
    "each direction is a FIFO byte stream carrying only negotiation commands (application data: C38), cut into segments "
    "arbitrarily; a synchronous transport pumps until quiescent and is not re-entered (no dataReceived inside the same "
    "endpoint's dataReceived)",
    "Deferred callbacks added by the application do not raise",
]
TRUSTED = [
    "twisted.internet.testing.StringTransport as the byte sink of each endpoint",
    "Telnet.dataReceived turns IAC <cmd> <opt> into commandReceived(cmd, opt) for any segmentation (C38) — now also "
    "exercised here: segments of 1..12 bytes across command boundaries are compared with the model's deliveries",
    "Deferred fires its callbacks synchronously, once (C01-C05); modelled as a cell",
]
MANIFEST = {
    "text": "Lean theorems (TwistedProps/C39.lean) over every history of will/wont/do/dont requests by either endpoint and "
            "every interleaving of deliveries on the two FIFO channels, any number of options: no handler raises (the two "
            "`assert False` cells and the enableRemote assertion are unreachable), every request's Deferred fires at most "
            "once always and exactly once when the channels are empty, at most 2 commands are ever sent per request (per "
            "option and in total) so delivery terminates, and with empty channels both sides agree on every option in both "
            "directions with no negotiation pending. Proved by projecting the system onto per-(option, direction) links, a "
            "40-state inductive invariant of a link checked by kernel `decide`, and a refinement lemma per step. Extended "
            "histories — byte segments that ignore command boundaries, requests on a synchronous transport — unfold to "
            "command-level histories with the same requests (`mrun_is_run`, `mrun_requests`), so the same conclusions hold "
            "for them (`negotiation_converges_segmented`), and a synchronous request returns with both channels empty "
            "(`synchronous_request_quiesces`). Model tied to telnet.py by differential runs on real Telnet / TelnetTransport "
            "pairs, exhaustive over small histories with state hashing, over 20 option bytes incl. 255 (IAC), up to 256 "
            "options per connection, truthy/falsy policy answers.",
    "note": "trusts Lean kernel, the hand-written model of Telnet.will/wont/do/dont and the 16 handlers (differentially "
            "tied), the unfolding of segments / synchronous pumps into deliveries (differentially tied), StringTransport, "
            "the Deferred-as-cell abstraction",
    "technique": "Lean 4 proof (per-link finite invariant by decide + refinement/projection induction) + differential tie",
    "design_ref": "DESIGN.md §7.6 C39",
}

CMDS = {"WILL": telnet.WILL, "WONT": telnet.WONT, "DO": telnet.DO, "DONT": telnet.DONT}
NAMES = {v: k for k, v in CMDS.items()}
SIDES = ("A", "B")
# option bytes: ordinary ones + the values that mean something else on the wire or to the parser
# (255 = IAC, 240 = SE, 250 = SB, 251..254 = WILL..DONT, 13/10/0 = CR LF NUL, 241 = NOP, 127/128 = sign boundary)
OPTS = [1, 3, 31, 34, 0, 254, 255, 13, 240, 250, 251, 253, 10, 241, 127, 128, 252, 24, 39, 200]
# what an accepting / refusing policy hook returns, by the case's `ret` style (0 = plain bool)
_ACCEPT = {1: lambda o: 1, 2: lambda o: [o], 3: lambda o: "yes"}
_REFUSE = {1: lambda o: 0, 2: lambda o: None, 3: lambda o: ""}


# ---------------------------------------------------------------------------------------
# the real code

class _Wire(StringTransport):
    """Byte sink of one endpoint: what is written becomes commands in flight to the peer.  When the world is
    in a synchronous request (`s` op) a write pumps the channels before it returns, like an in-memory pipe."""

    def __init__(self, world, side, queue):
        StringTransport.__init__(self)
        self.world, self.side, self.log, self.queue = world, side, world.log, queue
        self.pending = b""

    def write(self, data):
        StringTransport.write(self, data)
        self.pending += data
        while len(self.pending) >= 3:
            m, self.pending = self.pending[:3], self.pending[3:]
            if m[:1] != telnet.IAC or m[1:2] not in NAMES:
                # not a negotiation command: the stream is out of frame (never on the unchanged code)
                self.log.append(f"{self.side}.raised.WireFormat")
                self.pending = b""
                break
            self.log.append(f"{self.side}.sent.{NAMES[m[1:2]]}.{m[2]}")
            self.queue.append(m)
        if self.world.syncing:
            self.world.pump()


class _Hooks:
    """the four policy hooks (the subclass API): answer from a fixed per-endpoint set, in the case's return style"""

    def _answer(self, yes, o):
        if not self.ret:
            return yes
        return (_ACCEPT if yes else _REFUSE)[self.ret](o)

    def enableLocal(self, option):
        self.log.append(f"{self.side}.hook.enableLocal.{option[0]}")
        return self._answer(option[0] in self.local, option[0])

    def enableRemote(self, option):
        self.log.append(f"{self.side}.hook.enableRemote.{option[0]}")
        return self._answer(option[0] in self.remote, option[0])

    def disableLocal(self, option):
        self.log.append(f"{self.side}.hook.disableLocal.{option[0]}")

    def disableRemote(self, option):
        self.log.append(f"{self.side}.hook.disableRemote.{option[0]}")


class _EP(_Hooks, telnet.Telnet):
    """Real Telnet; only the four policy hooks are supplied."""

    def __init__(self, side, log, local, remote, ret):
        telnet.Telnet.__init__(self)
        self.side, self.log, self.local, self.remote, self.ret = side, log, local, remote, ret


class _Proto(_Hooks, telnet.TelnetProtocol):
    """The application protocol a real TelnetTransport delegates the policy hooks to."""

    def __init__(self, side, log, local, remote, ret):
        self.side, self.log, self.local, self.remote, self.ret = side, log, local, remote, ret


class World:
    def __init__(self, case):
        self.log = []
        self.inbox = {"A": [], "B": []}
        self.part = {"A": 0, "B": 0}     # bytes of the oldest command in flight already received by that side
        self.ep = {}
        self.pol = {}                     # side -> (local set, remote set), shared with the hooks
        self.nreq = 0
        self.fired = {}           # request id -> list of results
        self.req_opt = {}         # request id -> option
        self.bytewise = bool(case.get("bytewise"))
        self.syncing = False
        self.busy = False
        ret = int(case.get("ret") or 0)
        for side, l, r in (("A", case["la"], case["ra"]), ("B", case["lb"], case["rb"])):
            self.pol[side] = (set(l), set(r))
            if case.get("ep") == "tt":
                e = telnet.TelnetTransport(_Proto, side, self.log, self.pol[side][0], self.pol[side][1], ret)
            else:
                e = _EP(side, self.log, self.pol[side][0], self.pol[side][1], ret)
            peer = "B" if side == "A" else "A"
            e.makeConnection(_Wire(self, side, self.inbox[peer]))
            self.ep[side] = e

    def request(self, side, cmd, opt, then=(), sync=False):
        rid = self.nreq
        self.nreq += 1
        self.req_opt[rid] = opt
        self.fired[rid] = []
        e = self.ep[side]
        was, self.syncing = self.syncing, self.syncing or sync
        try:
            d = getattr(e, cmd.lower())(bytes([opt]))
        finally:
            self.syncing = was
        d._verif_id = rid

        def cb(res, rid=rid, side=side):
            name = "ok" if res is True else (res.type.__name__ if hasattr(res, "type") else repr(res))
            self.fired[rid].append(name)
            self.log.append(f"{side}.fired.{rid}.{name}")
            for (s2, c2, o2) in then:
                self.request(s2, c2, o2)      # synchronous too iff issued inside a synchronous request
        d.addBoth(cb)

    def feed(self, side, data):
        try:
            if self.bytewise:
                for i in range(len(data)):
                    self.ep[side].dataReceived(data[i:i + 1])
            else:
                self.ep[side].dataReceived(data)
        except (AssertionError, AttributeError, NotImplementedError, IndexError, KeyError, TypeError, ValueError) as e:
            self.log.append(f"{side}.raised.{type(e).__name__}")

    def deliver(self, side):
        """the rest of the oldest command in flight to `side`, in one segment"""
        q = self.inbox[side]
        if not q:
            return False
        m = q.pop(0)
        data, self.part[side] = m[self.part[side]:], 0
        self.feed(side, data)
        return True

    def chunk(self, side, n):
        """the next n bytes in flight to `side` (fewer if fewer are in flight) as ONE segment, whatever
        command boundaries they cross"""
        q = self.inbox[side]
        data = b"".join(q)[self.part[side]:][:n]
        if not data:
            return False
        k, self.part[side] = divmod(self.part[side] + len(data), 3)
        del q[:k]
        self.feed(side, data)
        return True

    def pump(self):
        """synchronous transport: deliver until both channels are empty (not re-entered)"""
        if self.busy:
            return
        self.busy = True
        n = 0
        try:
            while self.inbox["A"] or self.inbox["B"]:
                for s in SIDES:
                    if self.inbox[s]:
                        self.deliver(s)
                        n += 1
                if n > 4 * self.nreq + 16:
                    self.log.append("A.raised.PumpLoop")
                    break
        finally:
            self.busy = False

    def do(self, op, then=()):
        if op[0] == "d":
            self.deliver(op[1])
        elif op[0] == "b":
            self.chunk(op[1], int(op.split(":")[1]))
        else:
            q, c, o = op.split(":")
            self.request(q[1], c, int(o), then=then, sync=(q[0] == "s"))

    def persp(self, p):
        s = p.state + ("*" if p.negotiating else "")
        if p.onResult is not None:
            s += f"#{p.onResult._verif_id}"
        return s

    def state(self, side, o):
        st = self.ep[side].options.get(bytes([o]))
        if st is None:
            return "us=no:him=no"
        return f"us={self.persp(st.us)}:him={self.persp(st.him)}"

    def key(self, options):
        """hashable abstract state (ids erased) for the exhaustive exploration"""
        def er(s):
            return s.split("#")[0]
        return (tuple(er(self.state(s, o)) for s in SIDES for o in options),
                tuple(bytes(b"".join(self.inbox[s])) for s in SIDES))


def _isreq(op):
    return op[0] in "qs"


def _options(case):
    return sorted({int(op.split(":")[2]) for op in case["ops"] if _isreq(op)})


def _msgs(q):
    return ",".join(f"{NAMES[m[1:2]]}.{m[2]}" for m in q) if q else "-"


def run_impl(case):
    if case.get("then"):
        return "oracle-only"
    w = World(case)
    out = []
    for op in case["ops"]:
        del w.log[:]
        w.do(op)
        out.append(",".join(w.log) if w.log else "-")
    states = [f"{s}{o}:{w.state(s, o)}" for s in SIDES for o in _options(case)]
    return (("|".join(out) if out else "-") + " final " + (";".join(states) if states else "-")
            + f" toA={_msgs(w.inbox['A'])} toB={_msgs(w.inbox['B'])} n={w.nreq} part={w.part['A']},{w.part['B']}")


def model_line(case):
    if case.get("then"):
        return None

    def ls(x):
        return ",".join(str(i) for i in x) if x else "-"
    return " ".join(["run", ls(case["la"]), ls(case["ra"]), ls(case["lb"]), ls(case["rb"])] + list(case["ops"]))


def _canon(case, out):
    """On a synchronous transport the Deferred of a request can fire before will()/do() has returned it, i.e. before
    anybody could attach a callback: the harness then sees its result when it attaches its own, after the call.  The
    position of that one event inside the group of an `s` op is an artefact of the harness, so it is moved to the
    end of the group on both sides (its presence and result are compared)."""
    if " final " not in out:
        return out
    body, rest = out.split(" final ", 1)
    groups = body.split("|")
    if len(groups) != len(case["ops"]):
        return out
    rid = 0
    for i, op in enumerate(case["ops"]):
        if op[0] == "s":
            evs = groups[i].split(",")
            own = [e for e in evs if e.split(".")[1:3] == ["fired", str(rid)]]
            groups[i] = ",".join([e for e in evs if e not in own] + own)
        if _isreq(op):
            rid += 1
    return "|".join(groups) + " final " + rest


def compare(case, impl_out, model_out):
    return _canon(case, impl_out) == _canon(case, model_out)


# ---------------------------------------------------------------------------------------
# the property on the implementation (independent of the model)

def _wf(case):
    """the statement's precondition: policies accept the options the endpoint itself requests"""
    pol = {"A": (set(case["la"]), set(case["ra"])), "B": (set(case["lb"]), set(case["rb"]))}
    reqs = [op.split(":") for op in case["ops"] if _isreq(op)]
    for lst in (case.get("then") or {}).values():
        reqs += [["q" + s, c, str(o)] for (s, c, o) in lst]
    for q, c, o in reqs:
        if c == "WILL" and int(o) not in pol[q[1]][0]:
            return False
        if c == "DO" and int(o) not in pol[q[1]][1]:
            return False
    return True


def oracle(case, out):
    if not _wf(case):
        return None
    w = World(case)
    then = case.get("then") or {}
    log_all = []
    nq = 0
    for op in case["ops"]:
        del w.log[:]
        if _isreq(op):
            w.do(op, then=[tuple(t) for t in then.get(str(nq), [])])
            nq += 1
        else:
            w.do(op)
        log_all += w.log
        for rid, res in w.fired.items():
            if len(res) > 1:
                return {"key": "deferred-fired-twice", "detail": f"request {rid} fired {res} after {op}"}
    # drain: any interleaving and segmentation must terminate; take one drawn from the case itself
    rng = random.Random(json.dumps(case, sort_keys=True))
    chunky = rng.random() < 0.5
    deliveries = 0
    while w.inbox["A"] or w.inbox["B"]:
        side = rng.choice([s for s in SIDES if w.inbox[s]])
        del w.log[:]
        if chunky and rng.random() < 0.5:
            w.chunk(side, rng.choice([1, 2, 4, 5, 6, 9]))
        else:
            w.deliver(side)
        log_all += w.log
        deliveries += 1
        if deliveries > 3 * (2 * w.nreq + 8):
            return {"key": "message-loop", "detail": f"{deliveries} deliveries after the history for {w.nreq} requests; "
                    f"still in flight toA={_msgs(w.inbox['A'])} toB={_msgs(w.inbox['B'])}"}
    raised = [e for e in log_all if ".raised." in e]
    if raised:
        return {"key": "handler-raised:" + raised[0].split(".")[-1], "detail": f"{raised[0]} (events {log_all[-6:]})"}
    for s in SIDES:
        if w.ep[s].transport.pending:
            return {"key": "handler-raised:WireFormat", "detail": f"{s} wrote a partial command {w.ep[s].transport.pending!r}"}
    for rid, res in w.fired.items():
        if len(res) != 1:
            return {"key": "deferred-fired-twice" if res else "deferred-never-fired",
                    "detail": f"request {rid} (option {w.req_opt[rid]}) fired {res} with both channels empty"}
    options = sorted(set(w.req_opt.values()))
    sent_by = {}
    for e in log_all:
        if ".sent." in e:
            o = int(e.rsplit(".", 1)[1])
            sent_by[o] = sent_by.get(o, 0) + 1
    nreq_by = {}
    for v in w.req_opt.values():
        nreq_by[v] = nreq_by.get(v, 0) + 1
    for o in sorted(set(sent_by) - set(options)):
        return {"key": "message-loop", "detail": f"{sent_by[o]} commands sent about option {o} that nobody requested"}
    for o in options:
        sent, nreq = sent_by.get(o, 0), nreq_by[o]
        if sent > 2 * nreq:
            return {"key": "message-loop", "detail": f"{sent} commands sent about option {o} for {nreq} requests"}
        a, b = w.state("A", o), w.state("B", o)
        au, ah = a.split(":")
        bu, bh = b.split(":")
        if "*" in a or "*" in b or "#" in a or "#" in b:
            return {"key": "negotiation-pending-at-quiescence", "detail": f"option {o}: A {a} B {b} with both channels empty"}
        if au[3:] != bh[4:] or ah[4:] != bu[3:]:
            return {"key": "disagreement-at-quiescence", "detail": f"option {o}: A {a} B {b} with both channels empty"}
    return None


# ---------------------------------------------------------------------------------------
# cases

def _case(la, ra, lb, rb, ops, **kw):
    c = {"la": sorted(la), "ra": sorted(ra), "lb": sorted(lb), "rb": sorted(rb), "ops": list(ops)}
    c.update(kw)
    return c


def _remap(c, mp):
    """the same history about other option bytes"""
    def f(op):
        if _isreq(op):
            q, cmd, o = op.split(":")
            return f"{q}:{cmd}:{mp.get(int(o), int(o))}"
        return op
    d = dict(c, ops=[f(op) for op in c["ops"]])
    for k in ("la", "ra", "lb", "rb"):
        d[k] = sorted(mp.get(o, o) for o in c[k])
    if c.get("then"):
        d["then"] = {k: [[s_, cmd, mp.get(o, o)] for (s_, cmd, o) in v] for k, v in c["then"].items()}
    return d


_PALETTES = [{1: 255, 3: 13}, {1: 240, 3: 255}, {1: 251, 3: 250}, {1: 10, 3: 254}, {1: 128, 3: 127}, {1: 255, 3: 0}]


def _dress(c, i):
    """spread the legal-but-unusual endpoint kinds over cases whose history was found on plain endpoints: option
    bytes that mean something else on the wire, policy hooks answering with truthy / falsy non-bools,
    TelnetTransport + protocol endpoints, byte-wise delivery, deliveries coalesced into one segment"""
    k = i % 8
    if k in (1, 5):
        c = _remap(c, _PALETTES[(i // 8) % len(_PALETTES)])
    if k in (2, 5, 7):
        c = dict(c, ret=1 + (i // 8) % 3)
    if k in (3, 5):
        c = dict(c, ep="tt")
    if k == 4 and _wf(c):
        c = _coalesce(c)
    if k == 6:
        c = dict(c, bytewise=1)
    return c


def _coalesce(c):
    """consecutive deliveries to one side become one segment (same commands, one dataReceived call)"""
    ops, out = c["ops"], []
    for op in ops:
        if op[0] == "d" and out and out[-1][0] in "db" and out[-1][1] == op[1]:
            prev = out.pop()
            n = 3 if prev[0] == "d" else int(prev.split(":")[1])
            out.append(f"b{op[1]}:{n + 3}")
        else:
            out.append(op)
    return dict(c, ops=out)


def corpus():
    al = [1, 3]
    return [
        # simultaneous will / do, both orders of delivery
        _case(al, al, al, al, ["qA:WILL:1", "qB:DO:1", "dA", "dB"]),
        _case(al, al, al, al, ["qA:WILL:1", "qB:DO:1", "dB", "dA"]),
        # refusal
        _case(al, al, [], [], ["qA:WILL:1", "dB", "dA", "qA:DO:3", "dB", "dA"]),
        # simultaneous wont / dont on an enabled option
        _case(al, al, al, al, ["qA:WILL:1", "dB", "dA", "qA:WONT:1", "qB:DONT:1", "dA", "dB"]),
        # accept, then dont before the DO is delivered: DO and DONT queue up
        _case(al, al, al, al, ["qA:WILL:1", "dB", "qB:DONT:1", "dA", "dA", "dB"]),
        # disable acknowledged, re-enable queued behind the WONT
        _case(al, al, al, al, ["qA:WILL:1", "dB", "dA", "qA:WONT:1", "qB:DONT:1", "dA", "qA:WILL:1", "dB", "dB", "dA"]),
        # the three immediate failures
        _case(al, al, al, al, ["qA:WILL:1", "qA:WILL:1", "qA:DO:1", "qA:WONT:3", "qA:DONT:3", "dB", "dA", "qA:WILL:1"]),
        # both directions, two options, interleaved
        _case(al, al, al, al, ["qA:WILL:1", "qB:WILL:1", "qA:DO:3", "qB:DO:3", "dA", "dB", "dB", "dA", "dA", "dB", "dA", "dB"]),
        # hypothesis class: do() of an option the endpoint's own enableRemote refuses (tie only)
        _case([1], [], [1], [], ["qA:DO:1", "dB", "dA"]),
        _case([], [], [], [], ["qA:WILL:1", "qB:DO:1", "dB", "dA", "qB:DONT:1", "dA", "dB"], bytewise=1),
        # will() of an option the endpoint's own enableLocal refuses
        _case([], [1], [], [1], ["qA:WILL:1", "dB", "dA", "qB:DONT:1", "dA", "dB"]),
        # requests from inside callbacks (oracle only)
        _case(al, al, al, al, ["qA:WILL:1", "dB", "dA"], then={"0": [["A", "WONT", 1], ["A", "DO", 3]]}),
        # --- classes added by the mutation audit (harness/mutants/C39) ---
        # option 255 (IAC) and friends as option bytes
        _case([255, 1], [255, 1], [255, 1], [255, 1], ["qA:WILL:255", "dB", "dA", "qA:DO:1", "dB", "dA", "qB:DONT:255", "dA", "dB"]),
        _case([240, 13], [250], [250], [240, 13], ["qA:WILL:240", "qB:WILL:250", "qA:WILL:13", "bB:9", "bA:3", "dA", "dA", "dB"], bytewise=1),
        # policy hooks answering with truthy / falsy values that are not bools; crossing do / will
        _case(al, al, al, al, ["qA:DO:1", "qB:WILL:1", "dA", "dB", "qB:DO:3", "dA", "dB"], ret=1),
        _case(al, al, [], [], ["qA:DO:1", "qA:WILL:3", "dB", "dB", "dA", "dA"], ret=2),
        # TelnetTransport + protocol endpoints whose protocol accepts different options locally and remotely
        _case([], [1], [1], [], ["qA:DO:1", "dB", "dA", "qB:WONT:1", "dA", "dB"], ep="tt"),
        _case([3], [1], [1], [3], ["qA:DO:1", "qB:DO:3", "dA", "dB", "dA", "dB"], ep="tt", ret=3),
        # several commands in one segment, segments cut inside commands
        _case(al, al, al, al, ["qA:WILL:1", "qA:DO:3", "bB:6", "bA:6"]),
        _case(al, al, al, al, ["qA:WILL:1", "qA:DO:3", "bB:4", "qB:WILL:3", "bB:1", "bA:7", "bB:1", "bA:2", "dB", "dB"]),
        # synchronous transport: the peer's answer arrives before will()/do() returns
        _case(al, al, al, al, ["sA:WILL:1", "sB:DO:3", "sA:WONT:1", "sB:DONT:3"]),
        _case(al, al, [], [], ["sA:WILL:1", "sA:DO:3", "qB:WILL:1", "sB:DO:1", "dA"]),
        _case(al, al, al, al, ["sA:WILL:1"], then={"0": [["A", "WONT", 1], ["B", "DONT", 1]]}),
        # the same request repeated from its own callback / errback
        _case(al, al, al, al, ["qA:WILL:1", "dB", "dA"], then={"0": [["A", "WILL", 1]]}),
        _case(al, al, [], [], ["qA:DO:1", "dB", "dA", "dB", "dA"], then={"0": [["A", "DO", 1]]}),
        # an option refused again and again
        _case([1], [1], [], [], ["qA:WILL:1", "dB", "dA"] * 6 + ["qA:DO:1", "dB", "dA"] * 6),
        # more options than anybody registered
        _sweep(random.Random(39), 64),
    ]


def _explore(policies, options, max_req, limit):
    """every distinct reachable (options, channels, requests-left) state of the REAL pair, one history each"""
    reqs = [f"q{s}:{c}:{o}" for s in SIDES for c in CMDS for o in options]
    for (la, ra, lb, rb) in policies:
        base = _case(la, ra, lb, rb, [])
        seen = set()
        frontier = [[]]
        while frontier:
            nxt = []
            for path in frontier:
                for op in reqs + ["dA", "dB"]:
                    used = sum(1 for p in path if p[0] == "q")
                    if op[0] == "q":
                        if used >= max_req:
                            continue
                        q, c, o = op.split(":")
                        if c == "DO" and int(o) not in (ra if q[1] == "A" else rb):
                            continue
                    w = World(base)
                    for p in path:
                        w.do(p)
                    if op[0] == "d" and not w.inbox[op[1]]:
                        continue
                    w.do(op)
                    k = (w.key(options), used + (op[0] == "q"))
                    if k in seen:
                        continue
                    seen.add(k)
                    newp = path + [op]
                    nxt.append(newp)
                    yield _case(la, ra, lb, rb, newp)
                    limit -= 1
                    if limit <= 0:
                        return
            frontier = nxt


def _subsets(options):
    out = [[]]
    for o in options:
        out += [s + [o] for s in out]
    return out


def _random_case(rng, wf=True, options=None, n=None, segs=None, sync=None):
    if options is None:
        options = rng.sample(OPTS, rng.choice([1, 1, 2, 2, 3, 4]))
    pol = [[o for o in options if rng.random() < 0.65] for _ in range(4)]
    la, ra, lb, rb = pol
    if n is None:
        n = rng.choice([5, 8, 12, 20, 30, 60])
    if segs is None:
        segs = wf and rng.random() < 0.5     # byte segments that ignore command boundaries
    if sync is None:
        sync = rng.choice([0, 0, 0, 0.3, 1])    # share of requests made on a synchronous transport
    w = World(_case(la, ra, lb, rb, []))
    ops = []
    for _ in range(n):
        r = rng.random()
        busy = [s for s in SIDES if w.inbox[s]]
        if r < 0.5 and busy:
            s = rng.choice(busy)
            if segs and rng.random() < 0.6:
                op = f"b{s}:{rng.choice([1, 1, 2, 3, 4, 5, 6, 6, 7, 9, 12])}"
            else:
                op = "d" + s
        else:
            s = rng.choice(SIDES)
            o = rng.choice(options)
            c = rng.choice(["WILL", "DO", "WILL", "DO", "WONT", "DONT"])
            st = w.ep[s].options.get(bytes([o]))
            if st is not None and rng.random() < 0.7:      # bias to requests that are not rejected outright
                if c in ("WILL", "WONT"):
                    c = "WONT" if st.us.state == "yes" else "WILL"
                else:
                    c = "DONT" if st.him.state == "yes" else "DO"
            if wf:
                if c == "WILL" and o not in (la if s == "A" else lb):
                    (la if s == "A" else lb).append(o)
                    w.pol[s][0].add(o)
                if c == "DO" and o not in (ra if s == "A" else rb):
                    (ra if s == "A" else rb).append(o)
                    w.pol[s][1].add(o)
            op = f"{'s' if rng.random() < sync else 'q'}{s}:{c}:{o}"
        w.do(op)
        ops.append(op)
    if rng.random() < 0.5:
        left = 2 * w.nreq + 8          # (generators must terminate on a tree that loops)
        while (w.inbox["A"] or w.inbox["B"]) and left > 0:
            s = rng.choice([s for s in SIDES if w.inbox[s]])
            w.do("d" + s)
            ops.append("d" + s)
            left -= 1
    c = _case(la, ra, lb, rb, ops)
    if rng.random() < 0.2:
        c["bytewise"] = 1
    if rng.random() < 0.4:
        c["ret"] = rng.choice([1, 2, 3])
    if rng.random() < 0.3:
        c["ep"] = "tt"
    return c


def _sweep(rng, k):
    """a history about k distinct options (k up to 256): one enable request each by either side, answered; then a
    second round of disables / re-requests on a sample; deliveries interleaved"""
    options = rng.sample(range(256), k)
    la, ra, lb, rb = ([o for o in options if rng.random() < 0.8] for _ in range(4))
    w = World(_case(la, ra, lb, rb, []))
    ops = []

    def some_deliveries(p):
        while (w.inbox["A"] or w.inbox["B"]) and rng.random() < p and len(ops) < 12 * k + 400:
            s = rng.choice([s for s in SIDES if w.inbox[s]])
            op = rng.choice(["d" + s, "d" + s, f"b{s}:6", f"b{s}:4"])
            w.do(op)
            ops.append(op)

    def req(o, enable):
        s = rng.choice(SIDES)
        c = rng.choice(["WILL", "DO"] if enable else ["WONT", "DONT", "WILL", "DO"])
        if c == "WILL" and o not in (la if s == "A" else lb):
            (la if s == "A" else lb).append(o)
            w.pol[s][0].add(o)
        if c == "DO" and o not in (ra if s == "A" else rb):
            (ra if s == "A" else rb).append(o)
            w.pol[s][1].add(o)
        op = f"q{s}:{c}:{o}"
        w.do(op)
        ops.append(op)
    for o in options:
        req(o, True)
        some_deliveries(0.7)
    some_deliveries(1.0)
    for o in rng.sample(options, min(k, 40)) + options[-6:]:
        req(o, False)
        some_deliveries(0.7)
    some_deliveries(1.0)
    return _case(la, ra, lb, rb, ops)


def _reentrant_case(rng):
    c = _random_case(rng, wf=True, segs=False, n=rng.choice([5, 8, 12, 20]))
    c.pop("bytewise", None)
    nreq = sum(1 for op in c["ops"] if _isreq(op))
    options = _options(c) or [1]
    reqs = [op.split(":") for op in c["ops"] if _isreq(op)]
    then = {}
    for i in range(nreq):
        if rng.random() < 0.4:
            lst = []
            for _ in range(rng.choice([1, 1, 2])):
                s, o, cmd = rng.choice(SIDES), rng.choice(options), rng.choice(list(CMDS))
                r = rng.random()
                if r < 0.35:          # about the option and by the side of the request that is completing:
                    s, o = reqs[i][0][1], int(reqs[i][2])
                    if r < 0.15:      # … the very same request again
                        cmd = reqs[i][1]
                if cmd == "WILL" and o not in c["l" + s.lower()]:
                    cmd = "WONT"
                if cmd == "DO" and o not in c["r" + s.lower()]:
                    cmd = "DONT"
                lst.append([s, cmd, o])
            then[str(i)] = lst
    if not then:
        then = {"0": [["A", "WONT", options[0]]]}
    c["then"] = then
    return c


def _templates(rng):
    """scenario families that random histories reach only rarely"""
    al = [1, 3]
    for o in (1, 255, 13):
        for k in (2, 4, 5, 7):
            # the same option offered / asked for again after each refusal, k times, both directions
            yield _case([o], [o], [], [], ["qA:WILL:%d" % o, "dB", "dA"] * k)
            yield _case([o], [o], [], [], ["qA:DO:%d" % o, "dB", "dA"] * k + ["qA:WILL:%d" % o, "dB", "dA"] * k)
            # enabled and disabled again k times, by alternating sides
            cyc = ["qA:WILL:%d" % o, "dB", "dA", "qB:DONT:%d" % o, "dA", "dB", "qB:DO:%d" % o, "dA", "dB", "qA:WONT:%d" % o, "dB", "dA"]
            yield _case([o], [o], [o], [o], cyc * k)
    # crossing requests on a synchronous / coalescing transport
    for (x, y) in (("WILL", "DO"), ("DO", "WILL"), ("WILL", "WILL"), ("DO", "DO")):
        yield _case(al, al, al, al, [f"qA:{x}:1", f"qB:{y}:1", f"qA:{y}:3", "bB:6", "bA:9"])
        yield _case(al, al, al, al, [f"qA:{x}:1", f"sB:{y}:1", f"sA:{y}:3", f"sB:{x}:3"])
        yield _case(al, al, al, al, [f"sA:{x}:1", f"sB:{y}:1"], ret=2, ep="tt")
    # every request of a short history repeated once from its own callback
    for cmds in (("WILL", "WONT"), ("DO", "DONT"), ("WILL", "DO"), ("DO", "WILL")):
        for sync in ("q", "s"):
            ops = [f"{sync}A:{cmds[0]}:1", "dB", "dA", f"{sync}A:{cmds[1]}:1", "dB", "dA"]
            for which in (0, 1):
                yield _case(al, al, al, al, ops, then={str(which): [["A", cmds[which], 1]]})
                yield _case(al, al, [], [], ops, then={str(which): [["A", cmds[which], 1]]})


def generate(rng, tier):
    quick = tier == "quick"
    one = [1]
    pol1 = [(l1, r1, l2, r2) for l1 in ([], one) for r1 in ([], one) for l2 in ([], one) for r2 in ([], one)]
    i = 0
    for c in _explore(pol1, [1], 3 if quick else 6, 1500 if quick else 60000):
        i += 1
        yield _dress(c, i)
    two = [1, 3]
    pol2 = [(two, two, two, two), ([1], two, two, [3]), (two, [1], [3], two)] if quick else \
        [(a, b, c, d) for a in _subsets(two) for b in ([1], two) for c in ([3], two) for d in _subsets(two)]
    for c in _explore(pol2, two, 2 if quick else 4, 600 if quick else 40000):
        i += 1
        yield _dress(c, i)
    yield from _templates(rng)
    for k in ([49, 50, 64, 130, 256] if quick else [49, 50, 51, 64, 64, 100, 130, 200, 256, 256]):
        yield _sweep(rng, k)
    n = 900 if quick else 30000
    for i in range(n):
        r = rng.random()
        if r < 0.68:
            yield _random_case(rng, wf=True)
        elif r < 0.8:
            yield _random_case(rng, wf=False)
        elif r < 0.85:
            # many requests about ONE option (refusals, re-requests, disables accumulate on the same state)
            yield _random_case(rng, wf=True, options=[rng.choice(OPTS)], n=rng.choice([30, 60, 90]))
        else:
            yield _reentrant_case(rng)


def search(rng, tier, disagreeing):
    """property-directed: the neighbourhood of each disagreement (every prefix, every completion by deliveries),
    then a deeper exhaustive exploration of the real pair"""
    for c in sorted(disagreeing, key=lambda c: len(c["ops"]))[:20]:
        n = len(c["ops"])
        cuts = range(n + 1) if n <= 80 else sorted(set(rng.sample(range(n + 1), 60)) | {n})    # (long sweeps: a sample)
        for i in cuts:
            for tail in ([], ["dA", "dB"] * 4, ["dB", "dA"] * 4):
                yield dict(c, ops=c["ops"][:i] + tail)
    one = [1]
    pol1 = [(l1, r1, l2, r2) for l1 in ([], one) for r1 in ([], one) for l2 in ([], one) for r2 in ([], one)]
    yield from _explore(pol1, [1], 5, 20000)
    for i in range(3000):
        yield _random_case(rng, wf=True)


def shrink(c):
    ops = c["ops"]
    if c.get("then"):
        return
    n = len(ops)
    if n > 60:          # long histories first lose halves, quarters, … (the engine tries the first 48 candidates per round)
        k = n // 2
        while k >= 8:
            for i in range(0, n, k):
                yield dict(c, ops=ops[:i] + ops[i + k:])
            k //= 2
    for i in range(n):
        yield dict(c, ops=ops[:i] + ops[i + 1:])
    for i in range(n - 1, 0, -1):
        yield dict(c, ops=ops[:i])
    for i, op in enumerate(ops):
        if op[0] == "b":
            yield dict(c, ops=ops[:i] + ["d" + op[1]] + ops[i + 1:])
        if op[0] == "s":
            yield dict(c, ops=ops[:i] + ["q" + op[1:]] + ops[i + 1:])
    for flag in ("bytewise", "ret", "ep"):
        if c.get(flag):
            yield {k: v for k, v in c.items() if k != flag}


def tag(c, out):
    flags = "".join(f for f, on in (("R", c.get("ret")), ("T", c.get("ep")), ("Y", c.get("bytewise"))) if on)
    if out == "oracle-only":
        return "reentrant" + flags + ("S" if any(op[0] == "s" for op in c["ops"]) else "")
    body = out.split(" final ")[0]
    shapes = set()
    for op, opev in zip(c["ops"], body.split("|")):
        sig = []
        for e in opev.split(","):
            p = e.split(".")
            if len(p) >= 3:
                sig.append(p[1] + "." + (p[3] if p[1] == "fired" else p[2]))
        shapes.add((op[0] if op[0] in "bs" else "") + "+".join(sig))
    return flags + " " + " ".join(sorted(shapes))


def nontrivial(c, out):
    return len(c["ops"]) >= 2
