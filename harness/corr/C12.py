"""C12 — three-phase system events: real _ThreePhaseEvent / ReactorBase vs the Lean model, + property oracle.

A case is a flat *history* of ops that is consumed, one op at a time, by whoever is executing: the top
level while no trigger runs, otherwise the body of the trigger the event has just called (same reading as
lean/TwistedModel/Reactor/ThreePhase.lean).  ops: ab<k>/ad<k>/aa<k> addTrigger, xb<k>/xd<k>/xa<k>
removeTrigger, f fireEvent, rn/rr/rd<d> the running trigger returns None / raises / returns Deferred d
(rk/rs/rb/rg: raises KeyboardInterrupt / SystemExit / a direct BaseException subclass / GeneratorExit),
d<d> / e<d> Deferred d .callback / .errback — at top level or, when consumed by a running trigger, from inside
that trigger's body (a later before-trigger firing the Deferred an earlier one returned).

Case-level fields that do not change the model line (the model is over abstract trigger keys and Deferred
numbers) but change what the real code is given:
  reg  how key k becomes (callable, args, kwargs):  a (trig,(k,),{}) | k (trig,(),{"k":k}) | m (trig,(0,),{"k":k})
       | f (a distinct function per key,(),{}) | x (by k % 4: a,k,m,f)
  dk   string of digits, kind of Deferred d = dk[d % len(dk)]: 0 Deferred | 1 a Deferred subclass |
       2 DeferredList([inner]) | 3 gatherResults([inner])  (2,3: the trigger returns the outer one, d<d>/e<d> fire inner)
  dbg  1: run with defer.setDebugging(True)
"""
import itertools
import warnings

from twisted.internet.base import ReactorBase, _ThreePhaseEvent
from twisted.internet import defer
from twisted.internet.defer import Deferred, DeferredList, gatherResults
from twisted.logger import globalLogBeginner
from twisted.python.failure import Failure

HEADLINE = ("TwistedProps.C12.registration_order_partial / phase_order_partial / during_waits_for_all_before_deferreds / "
            "each_trigger_runs_at_most_once_partial / each_remaining_trigger_runs_once_partial / in_trigger_nothing_waits")
RULE = ("histories of add/remove/fire/return/fire-Deferred ops (<= 20 triggers, keys mostly fresh, a stream with equal "
        "re-registrations, a stream with overlapping firings), consumed by top level or by the running trigger — Deferreds "
        "are fired at top level AND from inside trigger bodies (a later before-trigger firing what an earlier one returned); "
        "plus every firing order of n<=4 (thorough: 5) Deferred-returning before-triggers and every split of n<=3 (4) of them "
        "into fired-inside-the-next-before-trigger / fired-later-in-every-order; registrations are (callable,args,kwargs) "
        "triples of five shapes (positional key, kwargs-only key, equal args + kwargs key, one function per key, mixed); "
        "returned Deferreds are Deferred, a subclass, DeferredList or gatherResults objects; raising triggers raise "
        "RuntimeError, KeyboardInterrupt, SystemExit, GeneratorExit or a direct BaseException subclass; a share runs with "
        "Deferred debugging on; driven through _ThreePhaseEvent directly and through ReactorBase.add/remove/fireSystemEvent; "
        "distinct = (mode, reg shape, token kinds seen, #firings, waited?, overlap?, dup?, non-plain Deferred?, "
        "BaseException?, in-trigger firing?)")
ASSUMES = [
    "no nested firing: fireEvent() is not called from inside a trigger, and once firings have overlapped Deferreds are not "
    "fired from inside a trigger either (both ignored by model and harness alike); without overlap, Deferreds ARE fired "
    "from inside triggers (model: fireDIn, theorem in_trigger_nothing_waits)",
    "theorems assume registrations are pairwise distinct as (callable,args,kwargs) — equal re-registrations are run on the "
    "real code by the oracle (finding equal-registrations)",
    "gate theorem assumes fireEvent() is not re-entered while an earlier firing still waits for its Deferreds "
    "(overlapping firings are still tied to the model; the oracle then checks run-at-most-once only)",
    "a raising trigger raises synchronously from its body; the exception is any BaseException (RuntimeError, "
    "KeyboardInterrupt, SystemExit, GeneratorExit, a direct BaseException subclass)",
    "the model is over abstract keys / Deferred numbers: registration shape, Deferred class and Deferred debugging are "
    "invisible to it (that the code treats them alike is exactly what the tie checks)",
]
TRUSTED = ["flat-history encoding of trigger bodies (harness/corr/C12.py _Run) — the same reading as the model's Ctl"]
MANIFEST = {
    "text": "Lean theorems (TwistedProps/C12.lean) over ALL histories of add/remove/fire/trigger-return/Deferred-fire ops, "
            "by one inductive invariant of the model of _ThreePhaseEvent: each registered trigger runs at most once and never "
            "after its removal; a trigger runs only when every earlier registration of its phase has run or been removed; "
            "during/after triggers run only after every before-trigger registered before the firing has run (and after-triggers "
            "after every such during-trigger); no during/after trigger runs before every Deferred returned by this firing's "
            "before-triggers has fired; when the firing is complete every trigger registered before it has run or been removed; "
            "a raising trigger is indistinguishable from a returning one; a Deferred fired from inside a trigger body only "
            "becomes fired (nothing of the event waits on it then).  Model tied to base.py by differential runs over "
            "histories with in-trigger Deferred firing, kwargs / per-function registrations, Deferred subclasses and "
            "BaseException-raising triggers.",
    "note": "trusts Lean kernel, the hand-written model of _ThreePhaseEvent (differentially tied, event-level and reactor-level), "
            "the flat-history encoding of trigger bodies; equal re-registrations are a known finding",
    "technique": "Lean 4 proof (inductive invariant over histories) + differential tie + spec-level oracle",
    "design_ref": "DESIGN.md §7 C12",
}

_captured = []
try:  # critical-level failures of raising triggers would otherwise be printed to stderr
    globalLogBeginner.beginLoggingTo([_captured.append], discardBuffer=True, redirectStandardIO=False)
except Exception:  # pragma: no cover
    pass

PH = {"b": "before", "d": "during", "a": "after"}
_MARK = "verif-trigger"


class _TriggerAbort(BaseException):
    """a direct BaseException subclass, as raised by a trigger"""


class _SubDeferred(Deferred):
    """a Deferred subclass, as returned by a before-trigger"""


RAISES = {"rr": RuntimeError, "rk": KeyboardInterrupt, "rs": SystemExit, "rb": _TriggerAbort, "rg": GeneratorExit}
REGS = "akmfx"


class _Reactor(ReactorBase):
    def installWaker(self):
        pass


_reactor = None


def _get_reactor():
    global _reactor
    if _reactor is None:
        _reactor = _Reactor()
    return _reactor


class _Run:
    """Drives the real code with one history."""

    def __init__(self, case):
        self.ops = case["ops"]
        self.mode = case.get("mode", "event")
        self.i = 0
        self.toks = []
        self.depth = 0
        self.exhausted = False
        self.overlap = False
        self.defs = {}          # d -> (outer: what the trigger returns, inner: what d<d>/e<d> fire)
        self.reg = case.get("reg", "a")
        self.dk = case.get("dk", "0") or "0"
        self.dbg = bool(case.get("dbg"))
        self.fns = {}           # k -> the function registered for key k (shape f)
        self.fnkey = {}
        self.handles = {}       # (ph,k) -> [handle, ...] not yet used by a remove
        self.lasth = {}
        if self.mode == "reactor":
            self.r = _get_reactor()
            self.r._eventTriggers.pop("verif", None)
            h = self.r.addSystemEventTrigger("during", "verif", self.trig, -1)
            self.r.removeSystemEventTrigger(h)
            self.ev = self.r._eventTriggers["verif"]
        else:
            self.ev = _ThreePhaseEvent()

    def triple(self, k):
        """the (callable, args, kwargs) registered for key k — injective in k for every shape"""
        shape = self.reg if self.reg != "x" else "akmf"[k % 4]
        if shape == "a":
            return self.trig, (k,), {}
        if shape == "k":
            return self.trig, (), {"k": k}
        if shape == "m":
            return self.trig, (0,), {"k": k}
        if k not in self.fns:
            def fn():
                return self.trig(k)
            self.fns[k] = fn
            self.fnkey[fn] = k
        return self.fns[k], (), {}

    def keyof(self, t):
        c, a, kw = t
        if "k" in kw:
            return kw["k"]
        if c in self.fnkey:
            return self.fnkey[c]
        return a[0]

    # the trigger body; which registration was called is read from what the event passed
    def trig(self, *a, **kw):
        if self.exhausted:
            return None
        k = kw["k"] if "k" in kw else (a[0] if a else "?")
        self.toks.append(f"r{k}")
        self.depth += 1
        try:
            while True:
                if self.i >= len(self.ops):
                    self.exhausted = True
                    return None
                op = self.ops[self.i]
                self.i += 1
                if op[0] == "r":
                    self.toks.append(".")
                    if op == "rn":
                        return None
                    if op in RAISES:
                        raise RAISES[op](_MARK)
                    return self.deferred(int(op[2:]))[0]
                self.common(op)
        finally:
            self.depth -= 1

    def deferred(self, d):
        if d not in self.defs:
            kind = self.dk[d % len(self.dk)]
            if kind == "1":
                inner = outer = _SubDeferred()
            elif kind == "2":
                inner = Deferred()
                outer = DeferredList([inner], consumeErrors=True)
            elif kind == "3":
                inner = Deferred()
                outer = gatherResults([inner], consumeErrors=True)
            else:
                inner = outer = Deferred()
            self.defs[d] = (outer, inner)
        return self.defs[d]

    def common(self, op):
        c = op[0]
        if c == "a":
            ph, k = PH[op[1]], int(op[2:])
            fn, fa, fkw = self.triple(k)
            if self.mode == "reactor":
                h = self.r.addSystemEventTrigger(ph, "verif", fn, *fa, **fkw)
            else:
                h = self.ev.addTrigger(ph, fn, *fa, **fkw)
            self.handles.setdefault((ph, k), []).append(h)
            self.lasth[(ph, k)] = h
            self.toks.append("+")
        elif c == "x":
            ph, k = PH[op[1]], int(op[2:])
            st = self.handles.get((ph, k))
            if st:
                h = st.pop()
            elif (ph, k) in self.lasth:
                h = self.lasth[(ph, k)]
            elif self.mode == "reactor":
                h = ("verif", (ph,) + self.triple(k))
            else:
                h = (ph,) + self.triple(k)
            with warnings.catch_warnings(record=True) as w:
                warnings.simplefilter("always")
                try:
                    if self.mode == "reactor":
                        self.r.removeSystemEventTrigger(h)
                    else:
                        self.ev.removeTrigger(h)
                    tok = "w" if any(issubclass(x.category, DeprecationWarning) for x in w) else "x"
                except ValueError:
                    tok = "V"
            self.toks.append(tok)
        elif c == "f":
            if self.depth:
                self.toks.append("-")
            else:
                self.overlap = self.overlap or self.ev.state == "BEFORE"
                self.toks.append("F")
                if self.mode == "reactor":
                    self.r.fireSystemEvent("verif")
                else:
                    self.ev.fireEvent()
        elif c in "de":
            if self.depth and self.overlap:
                self.toks.append("-")
            else:
                D = self.deferred(int(op[1:]))[1]
                if D.called:
                    self.toks.append("!")
                else:
                    self.toks.append("d")
                    if c == "d":
                        D.callback(None)
                    else:
                        D.errback(Failure(RuntimeError("deferred failed")))
                        D.addErrback(lambda f: None)
        else:
            raise ValueError("bad op " + op)

    def go(self):
        try:
            return self._go()
        except BaseException as e:
            if isinstance(e, Exception) or e.args != (_MARK,):
                raise
            return "!raised " + type(e).__name__     # a trigger's BaseException came out of the event

    def _go(self):
        was = defer.getDebugging()
        try:
            if self.dbg:
                defer.setDebugging(True)
            while self.i < len(self.ops) and not self.exhausted:
                op = self.ops[self.i]
                self.i += 1
                if op[0] == "r":
                    self.toks.append("-")
                else:
                    self.common(op)
            log = ",".join(self.toks)
            if self.exhausted:
                return log + "|incomplete"
            ks = lambda l: ";".join(str(self.keyof(t)) for t in l)
            ev = self.ev
            return (f"{log}|B={ks(ev.before)}|D={ks(ev.during)}|A={ks(ev.after)}"
                    f"|S={int(ev.state == 'BEFORE')}|O={int(self.overlap)}")
        finally:
            self.exhausted = True   # late callbacks (none expected) do nothing
            defer.setDebugging(was)
            for pair in self.defs.values():
                for D in pair:
                    if D.called:
                        D.addErrback(lambda f: None)
            if self.mode == "reactor":
                self.r._eventTriggers.pop("verif", None)
            del _captured[:]


def run_impl(c):
    return _Run(c).go()


def model_line(c):
    # to the model an errback is a firing, and every raising trigger is `raise`
    return "run " + " ".join(o.replace("e", "d", 1) if o[0] == "e" else ("rr" if o in RAISES else o) for o in c["ops"])


# ---------------------------------------------------------------------------------------------
# the property, evaluated on the implementation's log (independent of the Lean model): a
# spec-level reading in terms of *registrations* (numbered in registration order) and sets.

def _has_dup_remove(ops):
    seen = {}
    for o in ops:
        if o[0] == "a":
            seen[o[1:]] = seen.get(o[1:], 0) + 1
        elif o[0] == "x" and seen.get(o[1:], 0) >= 2:
            return True
    return False


def oracle(c, out):
    ops = c["ops"]
    dup = _has_dup_remove(ops)

    def bad(key, detail):
        dress = "".join(f" {f}={c[f]}" for f in ("mode", "reg", "dk", "dbg") if c.get(f) not in (None, 0, "event", "a", "0"))
        return {"key": "equal-registrations" if dup else key, "detail": detail + f" | ops={' '.join(ops)}{dress} | impl={out}"}

    if out.startswith("!raised"):
        return bad("exception-escaped", out)
    parts = out.split("|")
    if parts[-1] == "incomplete":
        return None
    toks = [t for t in parts[0].split(",") if t]
    regs = []                      # regid -> dict(ph, k)
    live = {"b": [], "d": [], "a": []}
    hstack, lasth = {}, {}
    fired = set()
    P = None                       # None (no firing in progress) | 0 | "wait" | 1 | 2
    fdefs = set()
    expected = None
    weak = False
    order = ["b", "d", "a"]
    j = 0

    def advance():
        nonlocal P, expected
        while True:
            if P == 0:
                if live["b"]:
                    expected = live["b"][0]
                    return
                P = "wait"
            if P == "wait":
                if fdefs <= fired:
                    P = 1
                else:
                    return
            if P in (1, 2):
                l = live[order[P]]
                if l:
                    expected = l[0]
                    return
                if P == 1:
                    P = 2
                else:
                    P = None
                    return
            if P is None:
                return

    for t in toks:
        if t[0] == "r":
            k = int(t[1:])
            if weak:
                cand = [r for ph in order for r in live[ph] if regs[r]["k"] == k]
                if not cand:
                    return bad("ran-not-registered", f"trigger {k} was called but no registration of it remains (removed or already run)")
                r = min(cand)
                live[regs[r]["ph"]].remove(r)
                continue
            if expected is None:
                if P == "wait":
                    return bad("ran-before-deferreds-fired", f"trigger {k} called while Deferreds {sorted(fdefs - fired)} returned by before-triggers are unfired")
                anylive = [r for ph in order for r in live[ph] if regs[r]["k"] == k]
                return bad("unexpected-run" if anylive else "ran-not-registered",
                           f"trigger {k} called when the spec expects no call (phase state {P})")
            e = regs[expected]
            if e["k"] != k:
                return bad("order", f"trigger {k} called, expected registration #{expected} (key {e['k']}, phase {e['ph']})")
            live[e["ph"]].remove(expected)
            expected = None
            continue
        if expected is not None and not weak:
            e = regs[expected]
            return bad("not-run", f"registration #{expected} (key {e['k']}, phase {e['ph']}) should have been called here (before op #{j})")
        if j >= len(ops):
            return bad("harness-desync", "more tokens than ops")
        op = ops[j]
        j += 1
        c0 = op[0]
        if c0 == "a":
            if t != "+":
                return bad("harness-desync", f"op {op} token {t}")
            regs.append({"ph": op[1], "k": int(op[2:])})
            rid = len(regs) - 1
            live[op[1]].append(rid)
            hstack.setdefault(op[1:], []).append(rid)
            lasth[op[1:]] = rid
        elif c0 == "x":
            st = hstack.get(op[1:])
            rid = st.pop() if st else lasth.get(op[1:])
            if rid is not None and rid in live[op[1]]:
                if t != "x":
                    return bad("remove-failed", f"removing the registered, not yet run registration #{rid} ({op}) gave {t!r}")
                live[op[1]].remove(rid)
        elif c0 == "f":
            if t == "F":
                if P is not None:
                    weak = True      # overlapping firings: outside the statement's single-firing reading
                    expected = None
                else:
                    P, fdefs = 0, set()
                    advance()
        elif c0 == "r":
            if t == "." and not weak:
                if P == 0 and op.startswith("rd"):
                    fdefs.add(int(op[2:]))
                advance()
        elif c0 in "de":
            if t == "d":
                fired.add(int(op[1:]))
                if P == "wait" and not weak:
                    advance()
    if expected is not None and not weak:
        e = regs[expected]
        return bad("not-run", f"registration #{expected} (key {e['k']}, phase {e['ph']}) was never called")
    return None


# ---------------------------------------------------------------------------------------------
# cases

def corpus():
    C = lambda s, mode="event", **kw: {"mode": mode, "ops": s.split(), **kw}
    return [
        # classes added by the white-box mutation audit (harness/mutants/C12)
        C("ab1 ad2 f rd0 aa3 d0 rn rn", dk="1"),                      # a Deferred subclass gates the during phase
        C("ab1 ab2 ad3 f rd0 rd1 d1 e0 rn", dk="23"),                 # DeferredList / gatherResults objects returned
        C("ab1 ab2 ad3 f rd0 rd1 e1 d0 rn", "reactor", dk="32"),
        C("ab1 ab2 ad3 aa4 f rk rs rn rn"),                           # BaseException out of before-triggers
        C("ab1 ad2 ad3 aa4 aa5 f rb rk rg rs rn", "reactor"),         # … out of during/after-triggers
        C("ab1 ab2 ab3 ad4 f rd0 d0 rn rn rn"),                       # before 2 fires the Deferred before 1 returned
        C("ab1 ab2 ab3 ad4 aa5 f rd0 e0 rd1 rr d1 d7 rn rn", dk="01"),  # TwistedProps.C12.demoIn
        C("ab1 ab2 ad3 f rd0 rd0 d0 rn rn"),                          # one Deferred returned twice, fired in-loop
        C("ad1 ad2 ad3 xd3 f rn rn", reg="k"),                        # registrations differing only by kwargs
        C("ab1 ab2 ab3 f xb3 rn rn", reg="m"),
        C("ad1 ad2 aa3 xd1 f rn rn", "reactor", reg="f"),             # one function per trigger, no arguments
        C("ab4 ab5 ab6 ab7 ad8 ad9 ad10 ad11 xd9 xb6 f xb7 rn rn rn rn rn", reg="x"),
        C("ab1 ab2 ad3 f rd0 rd1 d1 e0 rn", dk="1", dbg=1),
        C("ab1 ad2 aa3 f rn rn rn"),
        C("ab1 ab2 ad3 aa4 f rd0 rd1 d1 d0 rn rn"),
        C("ab1 ad2 f rd0 ab9 xd2 ad5 d0 rn rn"),
        C("ab1 ab2 ad3 f rr rr rr"),
        C("ab1 ab2 f xb1 xb2 rn ad7 aa8 ab9 rn rn rn f rn"),
        C("ad1 aa2 f aa3 ad4 rn ad5 rn rn rn f rn"),
        C("ab1 f rd0 f d0 rn"),                       # overlapping firings
        C("ab1 ab2 ad3 f rd0 rd1 ad4 f e1 rn rn d0 rn rn", "reactor"),
        C("ab1 ad2 ab1 xb1 f rn rn rn"),             # equal registrations
        C("ab1 ab2 f ab1 xb1 rn rn rn rn"),          # re-registration of a finished before-trigger, then removed
        C("ab1 ab2 ab1 xb1 f rn rn rn"),             # A B A, third removed
        C("xb5 f rn d0 d0 ab1 f"),
        C("ab1 f"),                                   # incomplete
    ]


def _padded(ops):
    n = sum(1 for o in ops if o[0] == "a")
    return ops + ["rn"] * n


def _random_case(rng, tier):
    mode = "reactor" if rng.random() < 0.3 else "event"
    style = rng.random()
    dups = style < 0.15
    overlap = 0.15 <= style < 0.3
    nextk = [1]
    known = []
    nadds = [0]
    maxadds = rng.choice([4, 8, 12, 20])

    def add():
        ph = rng.choice("bbbdda")
        if dups and known and rng.random() < 0.4:
            pk = rng.choice(known)
            if rng.random() < 0.7:
                ph = pk[0]
            k = pk[1]
        else:
            k = nextk[0]
            nextk[0] += 1
        known.append((ph, k))
        nadds[0] += 1
        return f"a{ph}{k}"

    def remove():
        if known and rng.random() < 0.9:
            ph, k = rng.choice(known)
            if rng.random() < 0.1:
                ph = rng.choice("bda")
            return f"x{ph}{k}"
        return f"x{rng.choice('bda')}{rng.randint(1, 30)}"

    def ret():
        r = rng.random()
        if r < 0.55:
            return "rn"
        if r < 0.75:
            return "rr"
        return f"rd{rng.randint(0, 4)}"

    ops = []
    if rng.random() < 0.65:
        # shaped like real use: register, fire, one body per pending trigger, Deferreds fire in any order
        pend = {"b": 0, "d": 0, "a": 0}
        dbase = [0]
        returned = []      # Deferreds returned by the before-triggers of the current firing, not yet fired in-loop
        p_in = rng.choice([0.0, 0.1, 0.3, 0.6])   # a trigger body fires a Deferred

        def body(p_def):
            for _ in range(rng.choice([0, 0, 0, 1, 1, 2])):
                if nadds[0] < maxadds and rng.random() < 0.6:
                    o = add()
                    pend[o[1]] += 1
                else:
                    o = remove()
                ops.append(o)
            if rng.random() < p_in:
                if returned and rng.random() < 0.7:
                    d = returned.pop(rng.randrange(len(returned)))
                else:
                    d = dbase[0] + rng.randint(0, 4)
                ops.append(f"{rng.choice('dde')}{d}")
            r = rng.random()
            if r < p_def:
                d = dbase[0] + rng.randint(0, 4)
                returned.append(d)
                ops.append(f"rd{d}")
            else:
                ops.append("rr" if r < p_def + 0.2 else "rn")

        for rnd in range(rng.randint(1, 3)):
            dbase[0] = 5 * rnd if rng.random() < 0.8 else 0
            for _ in range(rng.choice([1, 2, 3, 5, 8, 12])):
                if nadds[0] < maxadds and rng.random() < 0.85:
                    o = add()
                    pend[o[1]] += 1
                else:
                    o = remove()
                ops.append(o)
            if rng.random() < 0.1:
                ops.append(f"d{rng.randint(0, 4)}")
            ops.append("f")
            del returned[:]
            for _ in range(pend["b"] + rng.choice([0, 0, 1])):
                body(0.45)
            pend["b"] = 0
            del returned[:]
            ds = [dbase[0] + x for x in range(5)]
            rng.shuffle(ds)
            if rng.random() < 0.2:
                ds = ds[: rng.randint(0, 4)]
            for d in ds:
                for _ in range(rng.choice([0, 0, 0, 1, 2])):
                    r = rng.random()
                    if r < 0.4 and nadds[0] < maxadds:
                        o = add()
                        pend[o[1]] += 1
                        ops.append(o)
                    elif r < 0.8:
                        ops.append(remove())
                    elif overlap:
                        ops.append("f")
                ops.append(f"{rng.choice('dde')}{d}")
                if rng.random() < 0.5:
                    for _ in range(pend["d"] + pend["a"] + rng.choice([0, 1])):
                        body(0.1)
                    pend["d"] = pend["a"] = 0
            for _ in range(pend["d"] + pend["a"] + rng.choice([0, 0, 2])):
                body(0.1)
            pend["d"] = pend["a"] = 0
        return {"mode": mode, "ops": _padded(ops)}
    for _ in range(rng.randint(1, 3)):
        for _ in range(rng.choice([0, 1, 2, 3, 5, 8, 12])):
            if nadds[0] < maxadds and rng.random() < 0.85:
                ops.append(add())
            else:
                ops.append(remove())
        if rng.random() < 0.1:
            ops.append(f"d{rng.randint(0, 4)}")
        ops.append("f")
        for _ in range(rng.choice([0, 2, 4, 8, 16, 30])):
            r = rng.random()
            if r < 0.5:
                ops.append(ret())
            elif r < 0.72 and nadds[0] < maxadds:
                ops.append(add())
            elif r < 0.9:
                ops.append(remove())
            elif r < 0.95:
                ops.append("f")
            else:
                ops.append(f"d{rng.randint(0, 4)}")
        # let the before loop finish, then fire Deferreds in a random order mixed with top-level ops
        ops += ["rn"] * rng.choice([0, 1, 3, 8])
        ds = list(range(5))
        rng.shuffle(ds)
        if rng.random() < 0.25:
            ds = ds[: rng.randint(0, 4)]
        for d in ds:
            for _ in range(rng.choice([0, 0, 1, 2])):
                r = rng.random()
                if r < 0.35 and nadds[0] < maxadds:
                    ops.append(add())
                elif r < 0.6:
                    ops.append(remove())
                elif r < 0.9:
                    ops.append(ret())
                elif overlap:
                    ops.append("f")
            if overlap and rng.random() < 0.3:
                ops.append("f")
            ops.append(f"{rng.choice('dde')}{d}")
            for _ in range(rng.choice([0, 1, 2, 4])):
                r = rng.random()
                ops.append(ret() if r < 0.7 else (add() if nadds[0] < maxadds and r < 0.85 else remove()))
        if not overlap:
            ops += ["rn"] * (nadds[0] if rng.random() < 0.8 else rng.randint(0, 3))
    return {"mode": mode, "ops": _padded(ops)}


def _dress(c, rng):
    """choose what the abstract keys / Deferred numbers / `raise` of a history are on the real code"""
    r = rng.random()
    if r < 0.3:
        c["reg"] = "x"
    elif r < 0.65:
        c["reg"] = rng.choice("kmf")
    if rng.random() < 0.5:
        c["dk"] = "".join(rng.choice("0123") for _ in range(5))
    if rng.random() < 0.6:
        p = rng.choice([0.3, 0.6, 1.0])
        c["ops"] = [rng.choice(["rk", "rs", "rb", "rg"]) if o == "rr" and rng.random() < p else o for o in c["ops"]]
    if rng.random() < 0.03:
        c["dbg"] = 1
    return c


def _inloop_cases(nmax):
    """n before-triggers returning Deferreds 0..n-1 and one more before-trigger; every way of splitting the Deferreds
    into those fired from inside the body of the NEXT before-trigger and those fired later at top level, in every order"""
    idx = 0
    for n in range(1, nmax + 1):
        for mask in range(1, 2 ** n):
            rest = [i for i in range(n) if not mask >> i & 1]
            for perm in itertools.permutations(rest):
                ops = [f"ab{i + 1}" for i in range(n + 1)] + ["ad50", "aa60", "f"]
                for i in range(n + 1):
                    if i > 0 and mask >> (i - 1) & 1:
                        ops.append(f"{'de'[(idx + i) % 2]}{i - 1}")
                    ops.append(f"rd{i}" if i < n else "rn")
                for d in perm:
                    ops.append(f"d{d}")
                ops += ["rn", "rn"]
                idx += 1
                yield {"mode": "reactor" if idx % 3 == 0 else "event", "ops": ops,
                       "reg": REGS[idx % 5], "dk": ["0", "1", "2", "3", "0123"][idx % 5]}


def _perm_cases(nmax):
    for n in range(1, nmax + 1):
        base = [f"ab{i + 1}" for i in range(n)] + ["ad50", "aa60", "f"] + [f"rd{i}" for i in range(n)]
        for perm in itertools.permutations(range(n)):
            ops = list(base)
            for d in perm:
                ops += [f"d{d}", "rn"]
            ops += ["rn", "rn"]
            yield {"mode": "event" if (sum(perm) + n) % 3 else "reactor", "ops": ops}


def _perm_variants(nmax):
    # the same firing orders with non-plain Deferreds, other registration shapes and BaseException-raising during/after
    for i, c in enumerate(_perm_cases(nmax)):
        ops = c["ops"][:-2] + [["rk", "rs"], ["rb", "rn"], ["rn", "rg"]][i % 3]
        yield {"mode": c["mode"], "ops": ops, "reg": REGS[i % 5], "dk": ["1", "2", "3", "3210"][i % 4]}


def generate(rng, tier):
    yield from _perm_cases(4 if tier == "quick" else 5)
    yield from _perm_variants(4 if tier == "quick" else 5)
    yield from _inloop_cases(3 if tier == "quick" else 4)
    n = 5000 if tier == "quick" else 60000
    for i in range(n):
        c = _random_case(rng, tier)
        yield c if i % 4 == 0 else _dress(c, rng)     # a quarter stays in the plainest dress


def search(rng, tier, disagreeing):
    yield from _perm_cases(5)
    yield from _perm_variants(4)
    yield from _inloop_cases(4)
    for c in disagreeing[:50]:
        ops = c["ops"]
        for i in range(len(ops)):
            yield {**c, "ops": ops[:i] + ops[i + 1:]}
    for _ in range(5000):
        yield _dress(_random_case(rng, tier), rng)


def shrink(c):
    ops = c["ops"]
    mode = c.get("mode", "event")
    if mode != "event":
        yield {**c, "mode": "event"}
    for f, plain in (("dbg", 0), ("reg", "a"), ("dk", "0")):
        if c.get(f, plain) != plain:
            yield {k: v for k, v in c.items() if k != f}
    n = len(ops)
    for size in (n // 2, n // 4, 3, 2, 1):
        if size < 1:
            continue
        for i in range(0, n - size + 1, max(1, size // 2) if size > 1 else 1):
            yield {**c, "ops": ops[:i] + ops[i + size:]}
    for i, o in enumerate(ops):
        if o in RAISES or o.startswith("rd"):
            yield {**c, "ops": ops[:i] + ["rn"] + ops[i + 1:]}
        if o in RAISES and o != "rr":
            yield {**c, "ops": ops[:i] + ["rr"] + ops[i + 1:]}


def tag(c, out):
    parts = out.split("|")
    toks = parts[0].split(",") if parts[0] else []
    kinds = "".join(sorted({t[0] for t in toks}))
    nf = min(3, toks.count("F"))
    nr = sum(1 for t in toks if t[0] == "r")
    waited = any(a == "d" and b[0] == "r" for a, b in zip(toks, toks[1:]))
    ops = c["ops"]
    # a Deferred fired from inside a trigger body: a `d` token directly after `r<k>`, `+`, `x`, … of a running trigger is
    # not recoverable from tokens alone, so read it off the depth of the history instead
    depth, intrig = 0, False
    for t in toks:
        if t[0] == "r":
            depth += 1
        elif t == ".":
            depth -= 1
        elif t == "d" and depth > 0:
            intrig = True
    extra = (("sub" if set(c.get("dk", "0")) - {"0"} else "") + ("base" if any(o in RAISES and o != "rr" for o in ops) else "")
             + ("in" if intrig else "") + ("dbg" if c.get("dbg") else ""))
    return (f"{c.get('mode', 'event')}{c.get('reg', 'a')}:{kinds}:F{nf}:r{min(nr, 20) // 4}:{'wait' if waited else 'nowait'}:"
            f"{parts[-1] if parts[-1] in ('O=1', 'incomplete') else 'O=0'}:{'dup' if _has_dup_remove(ops) else ''}:{extra}")
