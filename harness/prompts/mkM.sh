#!/bin/sh
# mkM.sh <Cnn> — workspace M<nn> + prompt for a white-box mutation audit
id=$1; ws=M${id#C}
cd /verif && harness/mkwork.sh $ws >/dev/null
sed -e "s/@ID@/$id/g" -e "s/@WS@/$ws/g" /work/prompts/mut_template.txt > /work/prompts/$ws.txt
echo /work/prompts/$ws.txt
