#!/bin/sh
# mkF.sh <ws> <Cnn> <seed-dir-name> — workspace + prompt for strengthening a check after a missed seeded change
ws=$1; id=$2; sd=$3
cd /verif && harness/mkwork.sh $ws >/dev/null
python3 - $ws $id $sd <<'PY'
import sys, json
ws, pid, sd = sys.argv[1:4]
m = json.load(open(f'/verif/seeded/{sd}/meta.json'))
goal = f"""A seeded regression was MISSED by ./check {pid} (quick and thorough both exited 0 on the patched tree). The change is in
/work/{ws}/verif/seeded/{sd}/patch.diff (demo: seeded/{sd}/demo.py — exits 0 on clean code, non-zero with the patch).
  summary: {m['summary']}
  needs:   {m['needs']}
It breaks the property as stated, so the check has a blind spot: the class of inputs/histories it needs is not generated (and probably
not in the Lean model either). Close that blind spot PROPERLY, i.e. for the whole class of behaviour, not just this one patch:
 1. extend the case language / generator / corpus of harness/corr/{pid}.py so this class of inputs or histories is produced in the quick tier
    (a good share of quick cases, plus fixed corpus cases), and the oracle judges it from the property statement alone;
 2. extend the Lean model + driver so those cases are model-compared (not oracle-only) where feasible, and extend the theorems so the
    property is PROVED over the enlarged history/input space (keep every existing theorem; generalise the invariant). If the enlarged
    space cannot be fully proved in the time, keep the cases oracle-only or the new theorem `_partial`, and say exactly what is missing;
 3. confirm: `git -C /work/{ws}/repo apply /work/{ws}/verif/seeded/{sd}/patch.diff` → `VERIF_REPO=/work/{ws}/repo ./check {pid}` must print VIOLATION with a
    concrete witness in the QUICK tier; then `git -C /work/{ws}/repo checkout -- .` → the check must be green again on seeds 0,1,2,3 and thorough.
 4. think about which SIBLING blind spots of the same kind exist for this property (same idea applied to the other operations / clauses /
    exception classes / re-entrancy points) and cover them too.
Do not loosen anything. If the enlarged space exposes a genuine defect of the unpatched code, report it with the witness (do not fix silently:
follow GUIDE.md 'Defects')."""
t = open('/work/prompts/deepen_template.txt').read().replace('@GOAL@', goal).replace('@ID@', pid).replace('@WS@', ws)
open(f'/work/prompts/{ws}.txt', 'w').write(t)
print(f'/work/prompts/{ws}.txt')
PY
