#!/usr/bin/env python3
"""
py2lean — a deliberately tiny Python→Lean translator for pure integer/boolean kernels.

It reads functions from /repo's *current* source (via `ast`), and emits Lean 4
definitions into lean/Generated/<Name>.lean.  The property files then prove
`Generated.f = Model.f` (or prove the property directly over the generated
definition), so that the theorems are re-checked against what the code says now.

Supported subset (anything else raises `Unsupported`, reported as a broken tie):
  expressions : int literals, names, `self.<attr>` / `<param>.<attr>` (renamed through a
                table), + - * // % ** (Int; `**` only with a non-negative exponent
                expression typed Nat by the table), unary -, comparisons
                (== != < <= > >=, chained), and / or / not, parenthesised,
                conditional expressions, calls to functions in the rename table.
  statements  : a function body is (docstring)?, optional `try: x = self._convertOther(..)
                except TypeError: return NotImplemented` prelude (skipped: it is the
                dynamic type check, outside the integer kernel), simple assignments to
                fresh names (become `let`), `if/elif/else` whose branches end in
                `return` / `raise` (raise → `none` when the function is declared
                partial), `return <expr>`.
"""
from __future__ import annotations

import ast
import sys
import textwrap
from dataclasses import dataclass, field
from pathlib import Path


class Unsupported(Exception):
    pass


@dataclass
class FnSpec:
    """How to render one Python function as a Lean def."""
    pyname: str                      # qualified: Class.method or function
    leanname: str
    params: list[tuple[str, str]]    # Lean params (name, type) in order
    rename: dict[str, str]           # python expression source → lean term (e.g. "self._number" → "a")
    ret: str = "Int"                 # Lean return type; "Bool", "Int", "Option Int"
    calls: dict[str, str] = field(default_factory=dict)   # python call text → lean term


CMP = {ast.Lt: "<", ast.LtE: "≤", ast.Gt: ">", ast.GtE: "≥", ast.Eq: "=", ast.NotEq: "≠"}
BIN = {ast.Add: "+", ast.Sub: "-", ast.Mult: "*", ast.Mod: "%", ast.FloorDiv: "/"}


class Tr:
    def __init__(self, spec: FnSpec):
        self.spec = spec
        self.locals: set[str] = set()

    # ---- expressions -------------------------------------------------------------
    def src(self, node) -> str:
        return ast.unparse(node)

    def is_bool(self, node) -> bool:
        return isinstance(node, (ast.BoolOp, ast.Compare)) or (
            isinstance(node, ast.UnaryOp) and isinstance(node.op, ast.Not)
        ) or (self.src(node) in self.spec.calls and self.spec.calls[self.src(node)].startswith("(B)"))

    def int_expr(self, node) -> str:
        s = self.src(node)
        if s in self.spec.rename:
            return self.spec.rename[s]
        if s in self.spec.calls and not self.spec.calls[s].startswith("(B)"):
            return self.spec.calls[s]
        if isinstance(node, ast.Constant) and isinstance(node.value, int) and not isinstance(node.value, bool):
            return f"({node.value} : Int)" if node.value >= 0 else f"(-{-node.value} : Int)"
        if isinstance(node, ast.Name) and node.id in self.locals:
            return node.id
        if isinstance(node, ast.BinOp):
            if isinstance(node.op, ast.Pow):
                # base ** exponent : exponent must be a Nat-typed renamed term or a
                # `nat - literal` (Python semantics agree when the result is ≥ 0)
                base = self.int_expr(node.left)
                return f"({base} ^ {self.nat_expr(node.right)})"
            if type(node.op) in BIN:
                return f"({self.int_expr(node.left)} {BIN[type(node.op)]} {self.int_expr(node.right)})"
        if isinstance(node, ast.UnaryOp) and isinstance(node.op, ast.USub):
            return f"(-{self.int_expr(node.operand)})"
        if isinstance(node, ast.IfExp):
            return f"(if {self.bool_prop(node.test)} then {self.int_expr(node.body)} else {self.int_expr(node.orelse)})"
        raise Unsupported(f"integer expression not in subset: {s}")

    def nat_expr(self, node) -> str:
        s = self.src(node)
        key = "nat:" + s
        if key in self.spec.rename:
            return self.spec.rename[key]
        if isinstance(node, ast.Constant) and isinstance(node.value, int) and node.value >= 0:
            return str(node.value)
        if isinstance(node, ast.BinOp) and isinstance(node.op, (ast.Sub, ast.Add)):
            op = "-" if isinstance(node.op, ast.Sub) else "+"
            return f"({self.nat_expr(node.left)} {op} {self.nat_expr(node.right)})"
        raise Unsupported(f"exponent not in subset: {s}")

    def bool_expr(self, node) -> str:
        """Lean term of type Bool."""
        s = self.src(node)
        if s in self.spec.calls and self.spec.calls[s].startswith("(B)"):
            return self.spec.calls[s][3:]
        if isinstance(node, ast.BoolOp):
            op = "&&" if isinstance(node.op, ast.And) else "||"
            return "(" + f" {op} ".join(self.bool_expr(v) for v in node.values) + ")"
        if isinstance(node, ast.UnaryOp) and isinstance(node.op, ast.Not):
            return f"(!{self.bool_expr(node.operand)})"
        if isinstance(node, ast.Compare):
            parts = []
            left = node.left
            for op, right in zip(node.ops, node.comparators):
                if type(op) not in CMP:
                    raise Unsupported(f"comparison not in subset: {s}")
                parts.append(f"decide ({self.int_expr(left)} {CMP[type(op)]} {self.int_expr(right)})")
                left = right
            return "(" + " && ".join(parts) + ")"
        if isinstance(node, ast.Constant) and isinstance(node.value, bool):
            return "true" if node.value else "false"
        raise Unsupported(f"boolean expression not in subset: {s}")

    def bool_prop(self, node) -> str:
        return f"{self.bool_expr(node)} = true"

    def value(self, node) -> str:
        if self.spec.ret == "Bool":
            return self.bool_expr(node)
        if self.spec.ret == "Int":
            return self.int_expr(node)
        if self.spec.ret == "Option Int":
            return f"some {self.int_expr(self.unwrap_ctor(node))}"
        raise Unsupported(f"return type {self.spec.ret}")

    def unwrap_ctor(self, node):
        """`SerialNumber(expr, serialBits=…)` → expr (the constructor is modelled apart)."""
        if isinstance(node, ast.Call) and isinstance(node.func, ast.Name) and node.args:
            return node.args[0]
        return node

    # ---- statements ---------------------------------------------------------------
    def block(self, stmts, indent) -> str:
        pad = "  " * indent
        stmts = list(stmts)
        if not stmts:
            raise Unsupported("control reaches end of function without return")
        st = stmts[0]
        if isinstance(st, ast.Expr) and isinstance(st.value, ast.Constant) and isinstance(st.value.value, str):
            return self.block(stmts[1:], indent)
        if isinstance(st, ast.Try):
            # the `_convertOther` prelude: a dynamic type check; its bound name is
            # handled by the rename table
            ok = (
                len(st.body) == 1 and isinstance(st.body[0], ast.Assign)
                and "_convertOther" in self.src(st.body[0].value)
                and len(st.handlers) == 1 and self.src(st.handlers[0].type) == "TypeError"
                and self.src(st.handlers[0].body[0]) == "return NotImplemented"
            )
            if not ok:
                raise Unsupported("try block other than the _convertOther prelude")
            return self.block(stmts[1:], indent)
        if isinstance(st, ast.AnnAssign) and st.value is not None and isinstance(st.target, ast.Name):
            st = ast.Assign(targets=[st.target], value=st.value)
        if isinstance(st, ast.Assign) and len(st.targets) == 1 and isinstance(st.targets[0], ast.Name):
            name = st.targets[0].id
            rhs = self.int_expr(st.value)
            self.locals.add(name)
            return f"{pad}let {name} : Int := {rhs}\n" + self.block(stmts[1:], indent)
        if isinstance(st, ast.Return):
            if st.value is None:
                raise Unsupported("bare return")
            return f"{pad}{self.value(st.value)}\n"
        if isinstance(st, ast.Raise):
            if not self.spec.ret.startswith("Option"):
                raise Unsupported("raise in a total function")
            return f"{pad}none\n"
        if isinstance(st, ast.If):
            rest = stmts[1:]
            orelse = list(st.orelse) if st.orelse else rest
            if st.orelse and rest:
                raise Unsupported("statements after if/else")
            return (
                f"{pad}if {self.bool_prop(st.test)} then\n" + self.block(st.body, indent + 1)
                + f"{pad}else\n" + self.block(orelse, indent + 1)
            )
        raise Unsupported(f"statement not in subset: {self.src(st)[:80]}")

    def render(self, fn: ast.FunctionDef) -> str:
        params = " ".join(f"({n} : {t})" for n, t in self.spec.params)
        body = self.block(fn.body, 1)
        return f"def {self.spec.leanname} {params} : {self.spec.ret} :=\n{body}"


def find_function(tree: ast.Module, qual: str) -> ast.FunctionDef:
    parts = qual.split(".")
    body = tree.body
    node = None
    for p in parts:
        node = next((n for n in body if isinstance(n, (ast.ClassDef, ast.FunctionDef)) and n.name == p), None)
        if node is None:
            raise Unsupported(f"{qual}: not found in source")
        body = node.body
    if not isinstance(node, ast.FunctionDef):
        raise Unsupported(f"{qual}: not a function")
    return node


def find_init_assign(fn: ast.FunctionDef, attr: str) -> ast.expr:
    for st in ast.walk(fn):
        tgt = None
        if isinstance(st, ast.Assign) and len(st.targets) == 1:
            tgt = st.targets[0]
        elif isinstance(st, ast.AnnAssign):
            tgt = st.target
        if tgt is not None and ast.unparse(tgt) == f"self.{attr}" and st.value is not None:
            return st.value
    raise Unsupported(f"__init__ does not assign self.{attr}")


# ---------------------------------------------------------------------------------------
# Kernel: _rfc1982.SerialNumber (C34)

def gen_rfc1982(repo: Path) -> str:
    src = (repo / "src/twisted/names/_rfc1982.py").read_text()
    tree = ast.parse(src)
    out = [
        "/- GENERATED by harness/py2lean.py from src/twisted/names/_rfc1982.py — do not edit. -/",
        "namespace Generated.Rfc1982",
        "",
    ]
    init = find_function(tree, "SerialNumber.__init__")
    ren_init = {"nat:serialBits": "serialBits", "serialBits": "(serialBits : Int)", "number": "number",
                "int(number)": "number", "self._modulo": "(modulo serialBits)"}
    for attr, lean in (("_modulo", "modulo"), ("_halfRing", "halfRing"), ("_maxAdd", "maxAdd")):
        spec = FnSpec("SerialNumber.__init__", lean, [("serialBits", "Nat")], ren_init)
        expr = find_init_assign(init, attr)
        out.append(f"def {lean} (serialBits : Nat) : Int :=\n  {Tr(spec).int_expr(expr)}\n")
    spec = FnSpec("SerialNumber.__init__", "mk", [("number", "Int"), ("serialBits", "Nat")], ren_init)
    out.append(f"def mk (number : Int) (serialBits : Nat) : Int :=\n  {Tr(spec).int_expr(find_init_assign(init, '_number'))}\n")

    ren = {
        "self._number": "a", "other._number": "b", "other_sn._number": "b",
        "self._halfRing": "half", "self._maxAdd": "maxAdd", "self._modulo": "modulo",
    }
    cmp_params = [("a", "Int"), ("b", "Int"), ("half", "Int")]
    out.append(Tr(FnSpec("SerialNumber.__eq__", "eq", [("a", "Int"), ("b", "Int")], ren, "Bool")).render(
        find_function(tree, "SerialNumber.__eq__")))
    out.append(Tr(FnSpec("SerialNumber.__lt__", "lt", cmp_params, ren, "Bool")).render(
        find_function(tree, "SerialNumber.__lt__")))
    out.append(Tr(FnSpec("SerialNumber.__gt__", "gt", cmp_params, ren, "Bool")).render(
        find_function(tree, "SerialNumber.__gt__")))
    calls = {"self == other": "(B)(eq a b)", "self < other": "(B)(lt a b half)", "self > other": "(B)(gt a b half)"}
    out.append(Tr(FnSpec("SerialNumber.__le__", "le", cmp_params, ren, "Bool", calls)).render(
        find_function(tree, "SerialNumber.__le__")))
    out.append(Tr(FnSpec("SerialNumber.__ge__", "ge", cmp_params, ren, "Bool", calls)).render(
        find_function(tree, "SerialNumber.__ge__")))
    out.append(Tr(FnSpec("SerialNumber.__add__", "add",
                         [("a", "Int"), ("b", "Int"), ("maxAdd", "Int"), ("modulo", "Int")], ren, "Option Int")).render(
        find_function(tree, "SerialNumber.__add__")))
    out.append("end Generated.Rfc1982\n")
    return "\n".join(out)


KERNELS = {"Rfc1982": gen_rfc1982}


def main(argv):
    repo = Path(argv[1]) if len(argv) > 1 else Path("/repo")
    outdir = Path(argv[2]) if len(argv) > 2 else Path(__file__).resolve().parent.parent / "lean" / "Generated"
    outdir.mkdir(parents=True, exist_ok=True)
    status = 0
    for name, gen in KERNELS.items():
        target = outdir / f"{name}.lean"
        try:
            text = gen(repo)
        except (Unsupported, SyntaxError, OSError) as e:
            # Leave a file that cannot satisfy the equality theorems: the tie is broken.
            text = (f"/- GENERATED: translation FAILED: {e!s} -/\n"
                    f"namespace Generated.{name}\n"
                    f"def translationFailed : String := {ast.unparse(ast.Constant(str(e)))!s}\n".replace("'", '"')
                    + f"end Generated.{name}\n")
            print(f"py2lean: {name}: {e}", file=sys.stderr)
            status = 3
        if not target.exists() or target.read_text() != text:
            target.write_text(text)
    return status


if __name__ == "__main__":
    sys.exit(main(sys.argv))
