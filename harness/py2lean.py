#!/usr/bin/env python3
"""
py2lean — a deliberately tiny Python→Lean translator for pure integer/boolean and byte-string kernels.

It reads functions from /repo's *current* source (via `ast`), and emits Lean 4
definitions into lean/Generated/<Name>.lean.  The property files then prove
`Generated.f = Model.f` (or prove the property directly over the generated
definition), so that the theorems are re-checked against what the code says now.

Supported subset (anything else raises `Unsupported`, reported as a broken tie):
  expressions : int literals, names, `self.<attr>` / `<param>.<attr>` (renamed through a
                table), + - * // % ** (Int; `**` only with a non-negative exponent
                expression typed Nat by the table), unary -, comparisons
                (== != < <= > >=, chained), and / or / not, parenthesised,
                conditional expressions, calls to functions in the rename table.
  statements  : a function body is (docstring)?, optional `try: x = self._convertOther(..)
                except TypeError: return NotImplemented` prelude (skipped: it is the
                dynamic type check, outside the integer kernel), simple assignments to
                fresh names (become `let`), `if/elif/else` whose branches end in
                `return` / `raise` (raise → `none` when the function is declared
                partial), `return <expr>`.

Extensions used by the kernels after C34 (class `Flow`, each one opt-in through the FnSpec):
  expressions : `min(a, b)` / `max(a, b)`; `len(x)` ONLY as a parameter named in the rename
                table; `%` and `//` as `Int.fmod` / `Int.fdiv` (Python's floored semantics for
                every sign) when `floor_ops`; `int(a / b)` as `Int.tdiv a b` ONLY when the spec
                carries `exact_truediv` = the text of the exactness assumption (the quotient of
                the two floats is computed exactly enough that truncating it gives the truncated
                integer quotient), which is copied into the generated file (a zero divisor is
                NOT modelled: Lean's operations are total where Python raises ZeroDivisionError —
                the gen_ theorem files say where the caller guards it); `x is None` /
                `x is not None` ONLY for parameters whose None-ness the spec fixes (`nones`):
                the test is resolved statically and the dead branch dropped (one Lean def per
                None-pattern).
  statements  : re-assignment (`x = e`, `a = b = e`, `x += e`) in SSA form (`x_1`, `x_2`, ...);
                `if/elif/else` whose branches only assign, followed by more statements (merged:
                `let x_k := if c then .. else ..`); `assert <e> is not None` (skipped: Optional
                narrowing); tuple `return a, b` for `Int × Int`.
  string loops (class `SegLoop`, the shape of ftp.toSegments only): `if <cond>: st = [] else:
                st = param[:]`, then `for s in <param>.split("<c>")` whose body is an if/elif
                chain of `continue` / `st.pop()` (only under `if st:`) / `st.append(s)` / `raise`,
                then `return st`; conditions `s == "lit"`, `"<c>" in s`, `st` (non-empty), and /
                or / not, `<param>.startswith("lit")`.  Text is `List UInt8` (code points < 256).
                The loop becomes `List.foldlM` of the generated step function in `Option`.

Byte-string kernels (class `ByteTr`, driven by a `BSpec`; used by SshWire/C37, Banana/C44, Quote/C46, Telnet/C38,
Xtext/C41).  Every expression carries a type: nat (a Python int known to be ≥ 0: literals, len(), ord(), results of
unpack / from_bytes, + * & << >> of nats), int, bytes (`List UInt8`), str (`List Char`), byte / char (one element of a
bytes / str: the loop variable of `iterbytes(x)` / of a loop over a tuple of characters), lists of these, pairs.
Anything whose type cannot be established is `Unsupported`.
  values      : bytes and str literals; `a + b` on bytes/str (`++`); `b"lit" * n`; `len(x)`; `x[a:b]`, `x[a:]`, `x[:b]`
                with nat-typed bounds ONLY (so Python's negative-index rule never applies) as `(x.take b).drop a`;
                `x.replace(p, r)` ONLY for a one-element pattern p (literal of length 1, or a byte/char variable) as the
                fixed `pyReplace1 p r x` (a flatMap); `b"".join(r)` as `r.flatten`; `ord(x)` of a byte/char (its value), of
                a one-character literal (a constant), of a bytes value (`pyOrd`: TypeError unless one byte);
                `bytes((e,))` and `networkString(f"..{e:02X}..")` ONLY when e is statically < 256 (`ord` of a loop byte,
                `e & m` with m ≤ 255, or a variable bound to one); nat arithmetic `+ * & << >>`, `// %` by a positive
                literal; `-`, and any arithmetic touching an int, in Int; comparisons; and / or / not; truth value of a
                nat/int (`≠ 0`) or of a sequence (`≠ []`); calls in the spec's rename table `prims`, keyed by callee and
                string-literal arguments (`struct.pack('!L',_)` → `packU32`, `struct.unpack('>L',_)` → `unpackU32`,
                `int_to_bytes(_)` → `intToBytes`, `int.from_bytes(_,'big')` → `intFromBytesBig`: fixed Lean definitions
                over `u32be` / `beToNat` / `natToBE` of TwistedModel/Py/Bytes.lean, emitted into the generated file).
  raising     : a function declared `effect` returns `Except PyErr _`; a call that can raise is hoisted, in Python's
                evaluation order, into a monadic bind before the statement using it (never from under `and`/`or`, a
                merging branch or a loop header); `assert c` is `if c then .. else throw PyErr.assertionError`, and
                `assert v > 0` / `v >= 0` on an int variable re-types v as a nat (`v.toNat`) from there on.
  statements  : assignment / augmented assignment in SSA form; `(v,) = <prim returning a 1-tuple>`;
                `a, b, c = "xyz"` (three characters); `x = []` with the element type declared in the spec;
                `x.append(e)`; with a `sink` parameter (int2b128's `stream`) `sink(e)` appends e to the output, which is the
                function's value (bare `return` and falling off the end return it); `if` with returning branches
                (nested) or assignment-only branches (merged into `let x := if c then a else b`); tests the spec resolves
                statically (`isinstance(t, str)` is False for t : bytes); `return e`, `return a, b`, and
                `return tuple(xs) + (y,)` as the pair (xs, y).
  loops       : `for i in range(n)` (n : nat), `for ch in iterbytes(x)`, `for c in a, b, c` (characters): the variables
                assigned in the body and defined before it are the loop state, the body becomes a generated step function
                (parameters: the outer variables it reads), the loop is `List.foldl` / `List.foldlM` (Except) of it; no
                break / continue / return / raise inside.  `while v:` ONLY over a nat variable v whose single assignment in
                the body is `v = v >> k` (k ≥ 1) or `v = v // k` (k ≥ 2) at the top level of the body: a recursive
                function with `termination_by v` and a fixed `decreasing_by` script.
  tail calls  : (Telnet) a method whose body is exactly one call statement `<callee>(.., E)` with the callee named in the
                spec has the value E (`self.transport.write`) or `<generated callee> E`.
  module level: `require_import` / `no_rebinding` check that the names in the rename table mean what the table says.
"""
from __future__ import annotations

import ast
import re
import sys
import textwrap
from dataclasses import dataclass, field
from pathlib import Path


class Unsupported(Exception):
    pass


@dataclass
class FnSpec:
    """How to render one Python function as a Lean def."""
    pyname: str                      # qualified: Class.method or function
    leanname: str
    params: list[tuple[str, str]]    # Lean params (name, type) in order
    rename: dict[str, str]           # python expression source → lean term (e.g. "self._number" → "a")
    ret: str = "Int"                 # Lean return type; "Bool", "Int", "Option Int", "Int × Int"
    calls: dict[str, str] = field(default_factory=dict)   # python call text → lean term
    floor_ops: bool = False          # `%`, `//` → Int.fmod / Int.fdiv (Python semantics for every sign)
    exact_truediv: str = ""          # non-empty: `int(a / b)` → `Int.tdiv a b` under this stated assumption
    nones: dict[str, bool] = field(default_factory=dict)  # python name → "is None" (resolved statically)


CMP = {ast.Lt: "<", ast.LtE: "≤", ast.Gt: ">", ast.GtE: "≥", ast.Eq: "=", ast.NotEq: "≠"}
BIN = {ast.Add: "+", ast.Sub: "-", ast.Mult: "*", ast.Mod: "%", ast.FloorDiv: "/"}


class Tr:
    def __init__(self, spec: FnSpec):
        self.spec = spec
        self.locals: set[str] = set()
        self.env: dict[str, str] = {}      # Flow: python local → current SSA name / term

    # ---- expressions -------------------------------------------------------------
    def src(self, node) -> str:
        return ast.unparse(node)

    def is_bool(self, node) -> bool:
        return isinstance(node, (ast.BoolOp, ast.Compare)) or (
            isinstance(node, ast.UnaryOp) and isinstance(node.op, ast.Not)
        ) or (self.src(node) in self.spec.calls and self.spec.calls[self.src(node)].startswith("(B)"))

    def int_expr(self, node) -> str:
        s = self.src(node)
        if isinstance(node, ast.Name) and node.id in self.env:      # Flow: current SSA name wins
            return self.env[node.id]
        if s in self.spec.rename:
            return self.spec.rename[s]
        if s in self.spec.calls and not self.spec.calls[s].startswith("(B)"):
            return self.spec.calls[s]
        if isinstance(node, ast.Constant) and isinstance(node.value, int) and not isinstance(node.value, bool):
            return f"({node.value} : Int)" if node.value >= 0 else f"(-{-node.value} : Int)"
        if isinstance(node, ast.Name) and node.id in self.env:
            return self.env[node.id]
        if isinstance(node, ast.Name) and node.id in self.locals:
            return node.id
        if isinstance(node, ast.Call) and isinstance(node.func, ast.Name) and not node.keywords:
            fn, args = node.func.id, node.args
            if fn in ("min", "max") and len(args) == 2 and not any(isinstance(a, ast.Starred) for a in args):
                return f"({fn} {self.int_expr(args[0])} {self.int_expr(args[1])})"
            if fn == "len":
                raise Unsupported(f"len() of something that is not a declared parameter: {s}")
            if (fn == "int" and len(args) == 1 and isinstance(args[0], ast.BinOp)
                    and isinstance(args[0].op, ast.Div)):
                if not self.spec.exact_truediv:
                    raise Unsupported(f"int(a / b) without a stated exactness assumption: {s}")
                return f"(Int.tdiv {self.int_expr(args[0].left)} {self.int_expr(args[0].right)})"
        if isinstance(node, ast.BinOp) and self.spec.floor_ops and isinstance(node.op, (ast.Mod, ast.FloorDiv)):
            f = "Int.fmod" if isinstance(node.op, ast.Mod) else "Int.fdiv"
            return f"({f} {self.int_expr(node.left)} {self.int_expr(node.right)})"
        if isinstance(node, ast.BinOp):
            if isinstance(node.op, ast.Pow):
                # base ** exponent : exponent must be a Nat-typed renamed term or a
                # `nat - literal` (Python semantics agree when the result is ≥ 0)
                base = self.int_expr(node.left)
                return f"({base} ^ {self.nat_expr(node.right)})"
            if type(node.op) in BIN:
                return f"({self.int_expr(node.left)} {BIN[type(node.op)]} {self.int_expr(node.right)})"
        if isinstance(node, ast.UnaryOp) and isinstance(node.op, ast.USub):
            return f"(-{self.int_expr(node.operand)})"
        if isinstance(node, ast.IfExp):
            return f"(if {self.bool_prop(node.test)} then {self.int_expr(node.body)} else {self.int_expr(node.orelse)})"
        raise Unsupported(f"integer expression not in subset: {s}")

    def nat_expr(self, node) -> str:
        s = self.src(node)
        key = "nat:" + s
        if key in self.spec.rename:
            return self.spec.rename[key]
        if isinstance(node, ast.Constant) and isinstance(node.value, int) and node.value >= 0:
            return str(node.value)
        if isinstance(node, ast.BinOp) and isinstance(node.op, (ast.Sub, ast.Add)):
            op = "-" if isinstance(node.op, ast.Sub) else "+"
            return f"({self.nat_expr(node.left)} {op} {self.nat_expr(node.right)})"
        raise Unsupported(f"exponent not in subset: {s}")

    def bool_expr(self, node) -> str:
        """Lean term of type Bool."""
        s = self.src(node)
        if s in self.spec.calls and self.spec.calls[s].startswith("(B)"):
            return self.spec.calls[s][3:]
        if isinstance(node, ast.BoolOp):
            op = "&&" if isinstance(node.op, ast.And) else "||"
            return "(" + f" {op} ".join(self.bool_expr(v) for v in node.values) + ")"
        if isinstance(node, ast.UnaryOp) and isinstance(node.op, ast.Not):
            return f"(!{self.bool_expr(node.operand)})"
        if isinstance(node, ast.Compare):
            parts = []
            left = node.left
            for op, right in zip(node.ops, node.comparators):
                if type(op) not in CMP:
                    raise Unsupported(f"comparison not in subset: {s}")
                parts.append(f"decide ({self.int_expr(left)} {CMP[type(op)]} {self.int_expr(right)})")
                left = right
            return "(" + " && ".join(parts) + ")"
        if isinstance(node, ast.Constant) and isinstance(node.value, bool):
            return "true" if node.value else "false"
        raise Unsupported(f"boolean expression not in subset: {s}")

    def bool_prop(self, node) -> str:
        return f"{self.bool_expr(node)} = true"

    def value(self, node) -> str:
        if self.spec.ret == "Bool":
            return self.bool_expr(node)
        if self.spec.ret == "Int":
            return self.int_expr(node)
        if self.spec.ret == "Option Int":
            return f"some {self.int_expr(self.unwrap_ctor(node))}"
        if self.spec.ret == "Int × Int":
            if not (isinstance(node, ast.Tuple) and len(node.elts) == 2):
                raise Unsupported(f"return of something that is not a pair: {self.src(node)}")
            return f"({self.int_expr(node.elts[0])}, {self.int_expr(node.elts[1])})"
        raise Unsupported(f"return type {self.spec.ret}")

    def unwrap_ctor(self, node):
        """`SerialNumber(expr, serialBits=…)` → expr (the constructor is modelled apart)."""
        if isinstance(node, ast.Call) and isinstance(node.func, ast.Name) and node.args:
            return node.args[0]
        return node

    # ---- statements ---------------------------------------------------------------
    def block(self, stmts, indent) -> str:
        pad = "  " * indent
        stmts = list(stmts)
        if not stmts:
            raise Unsupported("control reaches end of function without return")
        st = stmts[0]
        if isinstance(st, ast.Expr) and isinstance(st.value, ast.Constant) and isinstance(st.value.value, str):
            return self.block(stmts[1:], indent)
        if isinstance(st, ast.Try):
            # the `_convertOther` prelude: a dynamic type check; its bound name is
            # handled by the rename table
            ok = (
                len(st.body) == 1 and isinstance(st.body[0], ast.Assign)
                and "_convertOther" in self.src(st.body[0].value)
                and len(st.handlers) == 1 and self.src(st.handlers[0].type) == "TypeError"
                and self.src(st.handlers[0].body[0]) == "return NotImplemented"
            )
            if not ok:
                raise Unsupported("try block other than the _convertOther prelude")
            return self.block(stmts[1:], indent)
        if isinstance(st, ast.AnnAssign) and st.value is not None and isinstance(st.target, ast.Name):
            st = ast.Assign(targets=[st.target], value=st.value)
        if isinstance(st, ast.Assign) and len(st.targets) == 1 and isinstance(st.targets[0], ast.Name):
            name = st.targets[0].id
            rhs = self.int_expr(st.value)
            self.locals.add(name)
            return f"{pad}let {name} : Int := {rhs}\n" + self.block(stmts[1:], indent)
        if isinstance(st, ast.Return):
            if st.value is None:
                raise Unsupported("bare return")
            return f"{pad}{self.value(st.value)}\n"
        if isinstance(st, ast.Raise):
            if not self.spec.ret.startswith("Option"):
                raise Unsupported("raise in a total function")
            return f"{pad}none\n"
        if isinstance(st, ast.If):
            rest = stmts[1:]
            orelse = list(st.orelse) if st.orelse else rest
            if st.orelse and rest:
                raise Unsupported("statements after if/else")
            return (
                f"{pad}if {self.bool_prop(st.test)} then\n" + self.block(st.body, indent + 1)
                + f"{pad}else\n" + self.block(orelse, indent + 1)
            )
        raise Unsupported(f"statement not in subset: {self.src(st)[:80]}")

    def render(self, fn: ast.FunctionDef) -> str:
        params = " ".join(f"({n} : {t})" for n, t in self.spec.params)
        body = self.block(fn.body, 1)
        return f"def {self.spec.leanname} {params} : {self.spec.ret} :=\n{body}"


class Flow(Tr):
    """Statement translation with re-assignment (SSA) and merging `if`s; see the module docstring."""

    def __init__(self, spec: FnSpec):
        super().__init__(spec)
        self.counter: dict[str, int] = {}

    def fresh(self, name: str) -> str:
        self.counter[name] = self.counter.get(name, 0) + 1
        return f"{name}_{self.counter[name]}"

    # -- static resolution of `x is None`
    def static(self, test):
        if (isinstance(test, ast.Compare) and len(test.ops) == 1 and isinstance(test.ops[0], (ast.Is, ast.IsNot))
                and isinstance(test.comparators[0], ast.Constant) and test.comparators[0].value is None):
            key = self.src(test.left)
            if key not in self.spec.nones:
                raise Unsupported(f"None-test of something whose None-ness the spec does not fix: {self.src(test)}")
            isnone = self.spec.nones[key]
            return isnone if isinstance(test.ops[0], ast.Is) else not isnone
        return None

    def terminates(self, stmts) -> bool:
        if not stmts:
            return False
        st = stmts[-1]
        if isinstance(st, (ast.Return, ast.Raise)):
            return True
        if isinstance(st, ast.If):
            r = self.static(st.test)
            if r is True:
                return self.terminates(st.body)
            if r is False:
                return self.terminates(st.orelse)
            return bool(st.orelse) and self.terminates(st.body) and self.terminates(st.orelse)
        return False

    def assigned(self, st):
        """[(python name, value node)] of an assignment statement, else None."""
        if isinstance(st, ast.AnnAssign) and st.value is not None and isinstance(st.target, ast.Name):
            return [(st.target.id, st.value)]
        if isinstance(st, ast.Assign) and all(isinstance(t, ast.Name) for t in st.targets):
            return [(t.id, st.value) for t in st.targets]
        if isinstance(st, ast.AugAssign) and isinstance(st.target, ast.Name):
            return [(st.target.id, ast.BinOp(left=ast.Name(id=st.target.id, ctx=ast.Load()), op=st.op, right=st.value))]
        return None

    def is_skip(self, st) -> bool:
        if isinstance(st, ast.Expr) and isinstance(st.value, ast.Constant) and isinstance(st.value.value, str):
            return True
        if isinstance(st, ast.Assert):
            t = st.test
            if (isinstance(t, ast.Compare) and len(t.ops) == 1 and isinstance(t.ops[0], ast.IsNot)
                    and isinstance(t.comparators[0], ast.Constant) and t.comparators[0].value is None):
                return True      # Optional narrowing, outside the integer kernel
            raise Unsupported(f"assert other than `<e> is not None`: {self.src(st)[:80]}")
        return False

    def sym(self, stmts, env):
        """Evaluate an assignment-only branch symbolically: env → env'."""
        env = dict(env)
        for st in stmts:
            if self.is_skip(st):
                continue
            asg = self.assigned(st)
            if asg is not None:
                saved, self.env = self.env, env
                try:
                    val = self.int_expr(asg[0][1])
                finally:
                    self.env = saved
                for n, _ in asg:
                    env[n] = val
                continue
            if isinstance(st, ast.If):
                r = self.static(st.test)
                if r is not None:
                    env = self.sym(st.body if r else st.orelse, env)
                    continue
                saved, self.env = self.env, env
                try:
                    c = self.bool_prop(st.test)
                finally:
                    self.env = saved
                e1, e2 = self.sym(st.body, env), self.sym(st.orelse, env)
                for n in sorted(set(e1) | set(e2)):
                    a, b = e1.get(n), e2.get(n)
                    if a is None or b is None:
                        raise Unsupported(f"{n} is assigned on one path only and was not defined before")
                    if a != b:
                        env[n] = f"(if {c} then {a} else {b})"
                continue
            raise Unsupported(f"statement not in subset inside a merging branch: {self.src(st)[:80]}")
        return env

    def block(self, stmts, indent) -> str:
        pad = "  " * indent
        stmts = list(stmts)
        if not stmts:
            raise Unsupported("control reaches end of function without return")
        st, rest = stmts[0], stmts[1:]
        if self.is_skip(st):
            return self.block(rest, indent)
        asg = self.assigned(st)
        if asg is not None:
            rhs = self.int_expr(asg[0][1])      # evaluated once, before any target is rebound
            first = self.fresh(asg[0][0])
            out = f"{pad}let {first} : Int := {rhs}\n"
            self.env[asg[0][0]] = first
            for n, _ in asg[1:]:
                k = self.fresh(n)
                out += f"{pad}let {k} : Int := {first}\n"
                self.env[n] = k
            return out + self.block(rest, indent)
        if isinstance(st, ast.Return):
            if st.value is None:
                raise Unsupported("bare return")
            return f"{pad}{self.value(st.value)}\n"
        if isinstance(st, ast.Raise):
            if not self.spec.ret.startswith("Option"):
                raise Unsupported("raise in a total function")
            return f"{pad}none\n"
        if isinstance(st, ast.If):
            r = self.static(st.test)
            if r is not None:
                return self.block(list(st.body if r else st.orelse) + rest, indent)
            if self.terminates(st.body) and (not st.orelse or self.terminates(st.orelse)):
                if st.orelse and rest:
                    raise Unsupported("statements after a returning if/else")
                c = self.bool_prop(st.test)
                saved = (dict(self.env), dict(self.counter))
                a = self.block(st.body, indent + 1)
                self.env = dict(saved[0])
                b = self.block(list(st.orelse) if st.orelse else rest, indent + 1)
                return f"{pad}if {c} then\n{a}{pad}else\n{b}"
            # merging if: both branches only assign
            c = self.bool_prop(st.test)
            e1, e2 = self.sym(st.body, self.env), self.sym(st.orelse, self.env)
            out = ""
            for n in sorted(set(e1) | set(e2)):
                a, b = e1.get(n), e2.get(n)
                if a is None or b is None:
                    raise Unsupported(f"{n} is assigned on one path only and was not defined before")
                if a != b:
                    k = self.fresh(n)
                    out += f"{pad}let {k} : Int := if {c} then {a} else {b}\n"
                    e1[n] = k
            for n in e1:
                if n in e2:
                    self.env[n] = e1[n]
            return out + self.block(rest, indent)
        raise Unsupported(f"statement not in subset: {self.src(st)[:80]}")

    def render(self, fn: ast.FunctionDef) -> str:
        for k, v in self.spec.rename.items():
            if k.isidentifier():           # python parameters (possibly re-assigned later)
                self.env[k] = v
        return super().render(fn)


def require_stmt(fn: ast.FunctionDef, text: str) -> None:
    """The function's body (top level) contains a statement whose source is exactly `text`."""
    want = ast.unparse(ast.parse(text).body[0])
    if not any(ast.unparse(st) == want for st in fn.body):
        raise Unsupported(f"{fn.name}: expected statement `{want}` not found")


class SegLoop:
    """The shape of ftp.toSegments: a list-of-strings state folded over `<param>.split("<c>")`."""

    def __init__(self, state: str, elem: str, params: dict[str, str]):
        self.state, self.elem, self.params = state, elem, params   # params: python name → lean name

    @staticmethod
    def lit(node) -> str:
        if not (isinstance(node, ast.Constant) and isinstance(node.value, str)):
            raise Unsupported(f"not a string literal: {ast.unparse(node)}")
        if any(ord(ch) > 255 for ch in node.value):
            raise Unsupported(f"string literal outside latin-1: {ast.unparse(node)}")
        return "([" + ", ".join(str(ord(ch)) for ch in node.value) + "] : Str)"

    @staticmethod
    def char(node) -> str:
        if not (isinstance(node, ast.Constant) and isinstance(node.value, str) and len(node.value) == 1
                and ord(node.value) < 256):
            raise Unsupported(f"not a one-character latin-1 literal: {ast.unparse(node)}")
        return f"({ord(node.value)} : UInt8)"

    def text(self, node) -> str:
        if isinstance(node, ast.Name) and node.id == self.elem:
            return self.elem
        if isinstance(node, ast.Name) and node.id in self.params:
            return self.params[node.id]
        return self.lit(node)

    def cond(self, node, st: str | None) -> str:
        """Lean Prop (decidable); `st` is the current term of the state (None outside the loop)."""
        if isinstance(node, ast.BoolOp):
            op = " ∧ " if isinstance(node.op, ast.And) else " ∨ "
            return "(" + op.join(self.cond(v, st) for v in node.values) + ")"
        if isinstance(node, ast.UnaryOp) and isinstance(node.op, ast.Not):
            return f"(¬ {self.cond(node.operand, st)})"
        if isinstance(node, ast.Name) and node.id == self.state and st is not None:
            return f"({st} ≠ [])"
        if isinstance(node, ast.Compare) and len(node.ops) == 1:
            op, l, r = node.ops[0], node.left, node.comparators[0]
            if isinstance(op, (ast.Eq, ast.NotEq)):
                return f"({self.text(l)} {'=' if isinstance(op, ast.Eq) else '≠'} {self.text(r)})"
            if isinstance(op, (ast.In, ast.NotIn)):
                return f"({self.char(l)} {'∈' if isinstance(op, ast.In) else '∉'} {self.text(r)})"
        if (isinstance(node, ast.Call) and isinstance(node.func, ast.Attribute) and node.func.attr == "startswith"
                and len(node.args) == 1 and not node.keywords):
            return f"(List.isPrefixOf {self.lit(node.args[0])} {self.text(node.func.value)} = true)"
        raise Unsupported(f"condition not in subset: {ast.unparse(node)}")

    def body(self, stmts, st: str, indent: int, guarded: bool) -> str:
        """Lean term of type `Option (List Str)`: the state after this iteration, `none` = raise."""
        pad = "  " * indent
        stmts = list(stmts)
        if not stmts:
            return f"{pad}some {st}\n"
        s0, rest = stmts[0], stmts[1:]
        if isinstance(s0, ast.Continue):
            return f"{pad}some {st}\n"
        if isinstance(s0, ast.Raise):
            return f"{pad}none\n"
        if isinstance(s0, ast.Expr) and isinstance(s0.value, ast.Call) and isinstance(s0.value.func, ast.Attribute) \
                and isinstance(s0.value.func.value, ast.Name) and s0.value.func.value.id == self.state \
                and not s0.value.keywords:
            meth, args = s0.value.func.attr, s0.value.args
            if meth == "pop" and not args:
                if not guarded:
                    raise Unsupported(f"{self.state}.pop() not directly under `if {self.state}:` (IndexError possible)")
                return self.body(rest, f"({st}).dropLast", indent, False)
            if meth == "append" and len(args) == 1:
                return self.body(rest, f"({st} ++ [{self.text(args[0])}])", indent, guarded)
        if isinstance(s0, ast.If):
            g = isinstance(s0.test, ast.Name) and s0.test.id == self.state
            return (f"{pad}if {self.cond(s0.test, st)} then\n" + self.body(list(s0.body) + rest, st, indent + 1, g)
                    + f"{pad}else\n" + self.body(list(s0.orelse) + rest, st, indent + 1, False))
        raise Unsupported(f"loop statement not in subset: {ast.unparse(s0)[:80]}")

    def listexpr(self, node) -> str:
        s = ast.unparse(node)
        if s == "[]":
            return "([] : List Str)"
        for py, lean in self.params.items():
            if s in (f"{py}[:]", f"list({py})", f"{py}.copy()"):
                return lean
        raise Unsupported(f"initial state not in subset: {s}")

    def render(self, fn: ast.FunctionDef, leanname: str, lean_params: str) -> str:
        stmts = [st for st in fn.body
                 if not (isinstance(st, ast.Expr) and isinstance(st.value, ast.Constant) and isinstance(st.value.value, str))]
        if len(stmts) != 3:
            raise Unsupported(f"{fn.name}: expected `if .. init`, `for`, `return`")
        ini, loop, ret = stmts

        def single_init(b):
            if not (len(b) == 1 and isinstance(b[0], ast.Assign) and len(b[0].targets) == 1
                    and isinstance(b[0].targets[0], ast.Name) and b[0].targets[0].id == self.state):
                raise Unsupported(f"{fn.name}: initialisation branch is not `{self.state} = ...`")
            return self.listexpr(b[0].value)
        if not isinstance(ini, ast.If):
            raise Unsupported(f"{fn.name}: first statement is not the initialising if/else")
        init = f"if {self.cond(ini.test, None)} then {single_init(ini.body)} else {single_init(ini.orelse)}"
        if not (isinstance(loop, ast.For) and isinstance(loop.target, ast.Name) and loop.target.id == self.elem
                and not loop.orelse and isinstance(loop.iter, ast.Call) and isinstance(loop.iter.func, ast.Attribute)
                and loop.iter.func.attr == "split" and len(loop.iter.args) == 1 and not loop.iter.keywords):
            raise Unsupported(f"{fn.name}: loop is not `for {self.elem} in <text>.split(<c>)`")
        for sub in ast.walk(loop):
            if isinstance(sub, (ast.Break, ast.Return)):
                raise Unsupported(f"{fn.name}: break/return inside the loop")
        if not (isinstance(ret, ast.Return) and isinstance(ret.value, ast.Name) and ret.value.id == self.state):
            raise Unsupported(f"{fn.name}: does not end in `return {self.state}`")
        pieces = f"(pySplit {self.char(loop.iter.args[0])} {self.text(loop.iter.func.value)})"
        step = (f"/-- one iteration of the `for {self.elem} in ...` loop; `none` = the `raise` -/\n"
                f"def {leanname}Step ({self.state} : List Str) ({self.elem} : Str) : Option (List Str) :=\n"
                + self.body(loop.body, self.state, 1, False))
        top = (f"def {leanname} {lean_params} : Option (List Str) :=\n"
               f"  let {self.state} : List Str := {init}\n"
               f"  List.foldlM {leanname}Step {self.state} {pieces}\n")
        return step + "\n" + top


def find_function(tree: ast.Module, qual: str) -> ast.FunctionDef:
    parts = qual.split(".")
    body = tree.body
    node = None
    for p in parts:
        node = next((n for n in body if isinstance(n, (ast.ClassDef, ast.FunctionDef)) and n.name == p), None)
        if node is None:
            raise Unsupported(f"{qual}: not found in source")
        body = node.body
    if not isinstance(node, ast.FunctionDef):
        raise Unsupported(f"{qual}: not a function")
    return node


def find_init_assign(fn: ast.FunctionDef, attr: str) -> ast.expr:
    for st in ast.walk(fn):
        tgt = None
        if isinstance(st, ast.Assign) and len(st.targets) == 1:
            tgt = st.targets[0]
        elif isinstance(st, ast.AnnAssign):
            tgt = st.target
        if tgt is not None and ast.unparse(tgt) == f"self.{attr}" and st.value is not None:
            return st.value
    raise Unsupported(f"__init__ does not assign self.{attr}")


# ---------------------------------------------------------------------------------------
# Kernel: _rfc1982.SerialNumber (C34)

def gen_rfc1982(repo: Path) -> str:
    src = (repo / "src/twisted/names/_rfc1982.py").read_text()
    tree = ast.parse(src)
    out = [
        "/- GENERATED by harness/py2lean.py from src/twisted/names/_rfc1982.py — do not edit. -/",
        "namespace Generated.Rfc1982",
        "",
    ]
    init = find_function(tree, "SerialNumber.__init__")
    ren_init = {"nat:serialBits": "serialBits", "serialBits": "(serialBits : Int)", "number": "number",
                "int(number)": "number", "self._modulo": "(modulo serialBits)"}
    for attr, lean in (("_modulo", "modulo"), ("_halfRing", "halfRing"), ("_maxAdd", "maxAdd")):
        spec = FnSpec("SerialNumber.__init__", lean, [("serialBits", "Nat")], ren_init)
        expr = find_init_assign(init, attr)
        out.append(f"def {lean} (serialBits : Nat) : Int :=\n  {Tr(spec).int_expr(expr)}\n")
    spec = FnSpec("SerialNumber.__init__", "mk", [("number", "Int"), ("serialBits", "Nat")], ren_init)
    out.append(f"def mk (number : Int) (serialBits : Nat) : Int :=\n  {Tr(spec).int_expr(find_init_assign(init, '_number'))}\n")

    ren = {
        "self._number": "a", "other._number": "b", "other_sn._number": "b",
        "self._halfRing": "half", "self._maxAdd": "maxAdd", "self._modulo": "modulo",
    }
    cmp_params = [("a", "Int"), ("b", "Int"), ("half", "Int")]
    out.append(Tr(FnSpec("SerialNumber.__eq__", "eq", [("a", "Int"), ("b", "Int")], ren, "Bool")).render(
        find_function(tree, "SerialNumber.__eq__")))
    out.append(Tr(FnSpec("SerialNumber.__lt__", "lt", cmp_params, ren, "Bool")).render(
        find_function(tree, "SerialNumber.__lt__")))
    out.append(Tr(FnSpec("SerialNumber.__gt__", "gt", cmp_params, ren, "Bool")).render(
        find_function(tree, "SerialNumber.__gt__")))
    calls = {"self == other": "(B)(eq a b)", "self < other": "(B)(lt a b half)", "self > other": "(B)(gt a b half)"}
    out.append(Tr(FnSpec("SerialNumber.__le__", "le", cmp_params, ren, "Bool", calls)).render(
        find_function(tree, "SerialNumber.__le__")))
    out.append(Tr(FnSpec("SerialNumber.__ge__", "ge", cmp_params, ren, "Bool", calls)).render(
        find_function(tree, "SerialNumber.__ge__")))
    out.append(Tr(FnSpec("SerialNumber.__add__", "add",
                         [("a", "Int"), ("b", "Int"), ("maxAdd", "Int"), ("modulo", "Int")], ren, "Option Int")).render(
        find_function(tree, "SerialNumber.__add__")))
    out.append("end Generated.Rfc1982\n")
    return "\n".join(out)


# ---------------------------------------------------------------------------------------
# Kernel: task.LoopingCall._intervalOf and the howLong closure of _scheduleFrom (C10)

EXACT_DYADIC = ("times are integer ticks of 2^-k s small enough that float + - % are exact and the float "
                "quotient a / b, truncated by int(), is the truncated integer quotient (harness/corr/C10.py ASSUMES; "
                "run_impl asserts every observed time is an integral number of ticks)")


def gen_looping(repo: Path) -> str:
    src = (repo / "src/twisted/internet/task.py").read_text()
    tree = ast.parse(src)
    ren = {"self.starttime": "starttime", "self.interval": "interval", "t": "t", "when": "when"}
    out = [
        "/- GENERATED by harness/py2lean.py from src/twisted/internet/task.py — do not edit.",
        "   Time is Int ticks.  `%` is Int.fmod (Python's floored remainder).",
        f"   `int(a / b)` is Int.tdiv a b under the assumption: {EXACT_DYADIC}. -/",
        "namespace Generated.Looping",
        "",
    ]
    spec = FnSpec("LoopingCall._intervalOf", "intervalOf", [("starttime", "Int"), ("interval", "Int"), ("t", "Int")],
                  ren, "Int", floor_ops=True, exact_truediv=EXACT_DYADIC)
    out.append(Flow(spec).render(find_function(tree, "LoopingCall._intervalOf")))
    sched = find_function(tree, "LoopingCall._scheduleFrom")
    # the delay handed to callLater is howLong()'s result, and `when` is _scheduleFrom's parameter
    require_stmt(sched, "self.call = self.clock.callLater(howLong(), self)")
    if [a.arg for a in sched.args.args] != ["self", "when"]:
        raise Unsupported("_scheduleFrom: parameters are not (self, when)")
    hl = find_function(tree, "LoopingCall._scheduleFrom.howLong")
    if hl.args.args:
        raise Unsupported("howLong: takes parameters")
    spec = FnSpec("LoopingCall._scheduleFrom.howLong", "howLong",
                  [("starttime", "Int"), ("interval", "Int"), ("when", "Int")], ren, "Int", floor_ops=True)
    out.append(Flow(spec).render(hl))
    out.append("end Generated.Looping\n")
    return "\n".join(out)


# ---------------------------------------------------------------------------------------
# Kernel: static.File._rangeToOffsetAndSize (C25)

def gen_range(repo: Path) -> str:
    src = (repo / "src/twisted/web/static.py").read_text()
    tree = ast.parse(src)
    fn = find_function(tree, "File._rangeToOffsetAndSize")
    if [a.arg for a in fn.args.args] != ["self", "start", "end"]:
        raise Unsupported("_rangeToOffsetAndSize: parameters are not (self, start, end)")
    out = [
        "/- GENERATED by harness/py2lean.py from src/twisted/web/static.py — do not edit.",
        "   One definition per None-pattern of (start, end) that _parseRangeHeader can produce;",
        "   `x is None` is resolved statically in each.  `self.getFileSize()` is the parameter fileSize. -/",
        "namespace Generated.Range",
        "",
    ]
    ren = {"self.getFileSize()": "fileSize", "start": "start", "end": "stop"}
    for lean, params, nones in (
        ("r2osSuffix", [("fileSize", "Int"), ("stop", "Int")], {"start": True, "end": False}),
        ("r2osFrom", [("fileSize", "Int"), ("start", "Int")], {"start": False, "end": True}),
        ("r2osFromTo", [("fileSize", "Int"), ("start", "Int"), ("stop", "Int")], {"start": False, "end": False}),
    ):
        names = {n for n, _ in params}
        r = {k: v for k, v in ren.items() if v in names}
        spec = FnSpec("File._rangeToOffsetAndSize", lean, params, r, "Int × Int", nones=nones)
        out.append(Flow(spec).render(fn))
    out.append("end Generated.Range\n")
    return "\n".join(out)


# ---------------------------------------------------------------------------------------
# Kernel: abstract.FileDescriptor._isSendBufferFull (C14)

def gen_fd(repo: Path) -> str:
    src = (repo / "src/twisted/internet/abstract.py").read_text()
    tree = ast.parse(src)
    fn = find_function(tree, "FileDescriptor._isSendBufferFull")
    out = [
        "/- GENERATED by harness/py2lean.py from src/twisted/internet/abstract.py — do not edit.",
        "   `len(self.dataBuffer)` is the parameter dataBufferLen. -/",
        "namespace Generated.FD",
        "",
    ]
    ren = {"len(self.dataBuffer)": "(dataBufferLen : Int)", "self._tempDataLen": "(tempDataLen : Int)",
           "self.bufferSize": "(bufferSize : Int)"}
    spec = FnSpec("FileDescriptor._isSendBufferFull", "isSendBufferFull",
                  [("dataBufferLen", "Nat"), ("tempDataLen", "Nat"), ("bufferSize", "Nat")], ren, "Bool")
    out.append(Flow(spec).render(fn))
    out.append("end Generated.FD\n")
    return "\n".join(out)


# ---------------------------------------------------------------------------------------
# Kernel: ftp.toSegments (C54)

PY_SPLIT = """abbrev Str := List UInt8

/-- `str.split(sep)` for a one-character separator (always at least one piece). -/
def pySplit (sep : UInt8) : Str → List Str
  | [] => [[]]
  | c :: cs =>
    if c = sep then [] :: pySplit sep cs
    else match pySplit sep cs with
      | [] => [[c]]
      | p :: ps => (c :: p) :: ps
"""


def gen_ftp(repo: Path) -> str:
    src = (repo / "src/twisted/protocols/ftp.py").read_text()
    tree = ast.parse(src)
    fn = find_function(tree, "toSegments")
    if [a.arg for a in fn.args.args] != ["cwd", "path"]:
        raise Unsupported("toSegments: parameters are not (cwd, path)")
    out = [
        "/- GENERATED by harness/py2lean.py from src/twisted/protocols/ftp.py — do not edit.",
        "   Text is List UInt8 (code points < 256: the command channel is latin-1); `none` = raise InvalidPath.",
        "   The for-loop over path.split(\"/\") is List.foldlM of the step function in Option. -/",
        "namespace Generated.Ftp",
        "",
        PY_SPLIT,
        SegLoop("segs", "s", {"cwd": "cwd", "path": "path"}).render(fn, "toSegments", "(cwd : List Str) (path : Str)"),
        "end Generated.Ftp\n",
    ]
    return "\n".join(out)


# ---------------------------------------------------------------------------------------
# Byte-string kernels (class `ByteTr`; see the module docstring)

BYTES_PRELUDE = """/-- the exception classes a byte-string kernel can raise -/
inductive PyErr where
  | structError | assertionError | overflowError | typeError | valueError
  deriving Repr, DecidableEq

/-- `x.replace(c, r)` for a one-element pattern `c` (every occurrence, left to right) -/
def pyReplace1 {α : Type} [DecidableEq α] (c : α) (r : List α) (x : List α) : List α :=
  x.flatMap fun e => if e = c then r else [e]

/-- `b * n` -/
def pyRepeat {α : Type} (b : List α) (n : Nat) : List α := (List.replicate n b).flatten

/-- `ord(b)` for a bytes object: TypeError unless it has exactly one byte -/
def pyOrd : List UInt8 → Except PyErr Nat
  | [b] => .ok b.toNat
  | _ => .error .typeError

/-- `f"{n:02X}"` for `n < 256` (the translator emits it only under that static bound) -/
def pyFmt02X (n : Nat) : List UInt8 :=
  let d (k : Nat) : UInt8 := if k < 10 then UInt8.ofNat (48 + k) else UInt8.ofNat (55 + k)
  [d (n / 16), d (n % 16)]
"""

STRUCT_PRELUDE = """open Twisted.Py in
/-- `struct.pack("!L", n)` / `struct.pack(">L", n)`: struct.error outside 0 ≤ n < 2^32 -/
def packU32 (n : Int) : Except PyErr (List UInt8) :=
  if 0 ≤ n ∧ n < 4294967296 then .ok (u32be n.toNat) else .error .structError

open Twisted.Py in
/-- `(v,) = struct.unpack("!L", b)` / `">L"`: struct.error unless `len(b) == 4` -/
def unpackU32 (b : List UInt8) : Except PyErr Nat :=
  if b.length = 4 then .ok (beToNat b) else .error .structError

open Twisted.Py in
/-- `cryptography.utils.int_to_bytes(n)` (no length): OverflowError for n < 0, one zero byte for 0,
    the minimal big-endian representation otherwise -/
def intToBytes (n : Int) : Except PyErr (List UInt8) :=
  if n < 0 then .error .overflowError else if n = 0 then .ok [0] else .ok (natToBE n.toNat)

open Twisted.Py in
/-- `int.from_bytes(b, "big")` -/
def intFromBytesBig (b : List UInt8) : Nat := beToNat b
"""

# rename table of the struct / int primitives: call key → (lean function, argument types, result type, may raise)
STRUCT_PRIMS = {
    "struct.pack('!L',_)": ("packU32", ["int"], "bytes", True),
    "struct.pack('>L',_)": ("packU32", ["int"], "bytes", True),
    "struct.unpack('!L',_)": ("unpackU32", ["bytes"], "tuple1:nat", True),
    "struct.unpack('>L',_)": ("unpackU32", ["bytes"], "tuple1:nat", True),
    "int_to_bytes(_)": ("intToBytes", ["int"], "bytes", True),
    "int.from_bytes(_,'big')": ("intFromBytesBig", ["bytes"], "nat", False),
}

LEAN_T = {"nat": "Nat", "int": "Int", "bytes": "List UInt8", "str": "List Char", "byte": "UInt8", "char": "Char"}
LEAN_RESERVED = {"at", "end", "from", "fun", "in", "do", "then", "else", "if", "let", "have", "show", "with", "open",
                 "by", "match", "def", "theorem", "instance", "where", "Type", "Prop", "Sort", "mut", "for", "return"}


@dataclass
class BSpec:
    """How to render one Python byte-string function as a Lean def."""
    pyname: str
    leanname: str
    params: list                      # (python name, type) in order; "self" and sink/ignored parameters excluded
    ret: object                       # type of the value returned ("bytes", ("pair", a, b), ...)
    effect: bool = False              # may raise: the result is `Except PyErr <ret>`
    prims: dict = field(default_factory=dict)     # call key → (lean fn, [arg types], result type, may raise)
    static: dict = field(default_factory=dict)    # source text of a test → its value under the declared parameter types
    locals: dict = field(default_factory=dict)    # python local initialised with `[]` → its list type
    sink: str = ""                    # callback parameter: `sink(e)` appends e to the output, which is the result
    ignore: tuple = ()                # python parameters outside the kernel (e.g. `errors=None`), never read
    tail: dict = field(default_factory=dict)      # callee text → "" (result = its argument) | lean fn (result = fn argument)


def lean_type(t) -> str:
    if isinstance(t, tuple) and t[0] == "list":
        return f"List ({lean_type(t[1])})"
    if isinstance(t, tuple) and t[0] == "pair":
        return f"({lean_type(t[1])} × {lean_type(t[2])})"
    if t in LEAN_T:
        return LEAN_T[t]
    raise Unsupported(f"no Lean type for {t!r}")


def lean_ident(name: str) -> str:
    return name + "'" if name in LEAN_RESERVED else name


class ByteTr:
    """Typed translation of byte-string / text kernels; env: python name → (lean term, type, static upper bound)."""

    def __init__(self, spec: BSpec):
        self.spec = spec
        self.counter: dict[str, int] = {}
        self.binds: list[list[str]] = []     # hoisted raising calls, in evaluation order: [name, rhs]
        self.aux: list[str] = []             # loop functions, emitted before the main def
        self.nloops = 0

    def fresh(self, name: str) -> str:
        self.counter[name] = self.counter.get(name, 0) + 1
        return f"{lean_ident(name)}_{self.counter[name]}"

    # ---- literals
    @staticmethod
    def lit_bytes(b: bytes) -> str:
        return "([" + ", ".join(str(x) for x in b) + "] : List UInt8)"

    @staticmethod
    def lit_str(s: str) -> str:
        return "([" + ", ".join(f"Char.ofNat {ord(c)}" for c in s) + "] : List Char)"

    # ---- coercions
    def as_type(self, term: str, ty, want, what: str) -> str:
        if ty == want:
            return term
        if ty == "nat" and want == "int":
            m = re.fullmatch(r"\((\d+) : Nat\)", term)
            return f"({m.group(1)} : Int)" if m else f"(({term} : Nat) : Int)"
        if ty == "byte" and want == "bytes":
            return f"[{term}]"
        if ty == "char" and want == "str":
            return f"[{term}]"
        raise Unsupported(f"{what}: a {ty} where a {want} is needed")

    def bound(self, node, env):
        if isinstance(node, ast.Name) and node.id in env:
            return env[node.id][2]
        if isinstance(node, ast.Constant) and isinstance(node.value, int) and not isinstance(node.value, bool):
            return node.value if node.value >= 0 else None
        if isinstance(node, ast.BinOp) and isinstance(node.op, ast.BitAnd):
            bs = [b for b in (self.bound(node.left, env), self.bound(node.right, env)) if b is not None]
            return min(bs) if bs else None
        if (isinstance(node, ast.Call) and isinstance(node.func, ast.Name) and node.func.id == "ord"
                and len(node.args) == 1 and isinstance(node.args[0], ast.Name) and node.args[0].id in env):
            return {"byte": 255, "char": 0x10FFFF}.get(env[node.args[0].id][1])
        return None

    # ---- expressions: (lean term, type)
    def ex(self, node, env):
        s = ast.unparse(node)
        if isinstance(node, ast.Name):
            if node.id in env:
                return env[node.id][0], env[node.id][1]
            raise Unsupported(f"name outside the kernel: {node.id}")
        if isinstance(node, ast.Constant):
            v = node.value
            if isinstance(v, int) and not isinstance(v, bool):
                return (f"({v} : Nat)", "nat") if v >= 0 else (f"(-{-v} : Int)", "int")
            if isinstance(v, bytes):
                return self.lit_bytes(v), "bytes"
            if isinstance(v, str):
                return self.lit_str(v), "str"
            raise Unsupported(f"literal not in subset: {s}")
        if isinstance(node, ast.BinOp):
            return self.binop(node, env)
        if isinstance(node, ast.Subscript):
            return self.slice(node, env)
        if isinstance(node, ast.Tuple) and len(node.elts) == 2:
            a, ta = self.ex(node.elts[0], env)
            b, tb = self.ex(node.elts[1], env)
            return f"({a}, {b})", ("pair", ta, tb)
        if isinstance(node, ast.Call) and not node.keywords and not any(isinstance(a, ast.Starred) for a in node.args):
            return self.call(node, env)
        raise Unsupported(f"expression not in subset: {s}")

    def binop(self, node, env):
        s = ast.unparse(node)
        op = node.op
        # `tuple(xs) + (y,)`: the items read so far followed by the rest → the pair (xs, y)
        if (isinstance(op, ast.Add) and isinstance(node.left, ast.Call) and ast.unparse(node.left.func) == "tuple"
                and len(node.left.args) == 1 and isinstance(node.right, ast.Tuple) and len(node.right.elts) == 1):
            a, ta = self.ex(node.left.args[0], env)
            b, tb = self.ex(node.right.elts[0], env)
            if not (isinstance(ta, tuple) and ta[0] == "list"):
                raise Unsupported(f"tuple() of something that is not a list: {s}")
            return f"({a}, {b})", ("pair", ta, tb)
        # `b"lit" * n`
        if isinstance(op, ast.Mult) and isinstance(node.left, ast.Constant) and isinstance(node.left.value, (bytes, str)):
            a, ta = self.ex(node.left, env)
            b, tb = self.ex(node.right, env)
            if tb != "nat":
                raise Unsupported(f"repetition count that may be negative: {s}")
            return f"(pyRepeat {a} {b})", ta
        a, ta = self.ex(node.left, env)
        b, tb = self.ex(node.right, env)
        seq = {"bytes": "bytes", "byte": "bytes", "str": "str", "char": "str"}
        if isinstance(op, ast.Add) and ta in seq and tb in seq and seq[ta] == seq[tb]:
            t = seq[ta]
            return f"({self.as_type(a, ta, t, s)} ++ {self.as_type(b, tb, t, s)})", t
        num = ("nat", "int")
        if ta in num and tb in num:
            if ta == "nat" and tb == "nat":
                if isinstance(op, ast.Add):
                    return f"({a} + {b})", "nat"
                if isinstance(op, ast.Mult):
                    return f"({a} * {b})", "nat"
                if isinstance(op, ast.BitAnd):
                    return f"({a} &&& {b})", "nat"
                if isinstance(op, ast.LShift):
                    return f"({a} <<< {b})", "nat"
                if isinstance(op, ast.RShift):
                    return f"({a} >>> {b})", "nat"
                if isinstance(op, (ast.FloorDiv, ast.Mod)):
                    if not (isinstance(node.right, ast.Constant) and isinstance(node.right.value, int) and node.right.value > 0):
                        raise Unsupported(f"// or % by something that is not a positive literal: {s}")
                    return f"({a} {'/' if isinstance(op, ast.FloorDiv) else '%'} {b})", "nat"
            if isinstance(op, (ast.Add, ast.Sub, ast.Mult)):
                sym = {ast.Add: "+", ast.Sub: "-", ast.Mult: "*"}[type(op)]
                return f"({self.as_type(a, ta, 'int', s)} {sym} {self.as_type(b, tb, 'int', s)})", "int"
        raise Unsupported(f"operator not in subset for ({ta}, {tb}): {s}")

    def slice(self, node, env):
        s = ast.unparse(node)
        if not isinstance(node.slice, ast.Slice) or node.slice.step is not None:
            raise Unsupported(f"subscript other than a slice [a:b]: {s}")
        x, tx = self.ex(node.value, env)
        if tx not in ("bytes", "str"):
            raise Unsupported(f"slice of a {tx}: {s}")
        lo = hi = None
        if node.slice.lower is not None:
            lo, tl = self.ex(node.slice.lower, env)
            if tl != "nat":
                raise Unsupported(f"slice bound that may be negative: {s}")
        if node.slice.upper is not None:
            hi, th = self.ex(node.slice.upper, env)
            if th != "nat":
                raise Unsupported(f"slice bound that may be negative: {s}")
        if hi is not None:
            x = f"({x}.take {hi})"
        if lo is not None:
            x = f"({x}.drop {lo})"
        return x, tx

    @staticmethod
    def call_key(node) -> str:
        pats = [repr(a.value) if isinstance(a, ast.Constant) and isinstance(a.value, (str, bytes)) else "_" for a in node.args]
        return f"{ast.unparse(node.func)}({','.join(pats)})"

    def call(self, node, env):
        s = ast.unparse(node)
        fn, args = ast.unparse(node.func), node.args
        key = self.call_key(node)
        if key in self.spec.prims:
            lean, argts, ret, raises = self.spec.prims[key]
            real = [a for a in args if not (isinstance(a, ast.Constant) and isinstance(a.value, (str, bytes)))]
            if len(real) != len(argts):
                raise Unsupported(f"arity of {key}")
            terms = []
            for a, want in zip(real, argts):
                t, ty = self.ex(a, env)
                terms.append(self.as_type(t, ty, want, s))
            app = f"{lean} " + " ".join(terms)
            if not raises:
                return f"({app})", ret
            if not self.spec.effect:
                raise Unsupported(f"call that can raise in a function declared total: {s}")
            name = self.fresh("t")
            self.binds.append([name, app])
            return name, ret
        if isinstance(node.func, ast.Attribute) and node.func.attr == "replace" and len(args) == 2:
            x, tx = self.ex(node.func.value, env)
            if tx not in ("bytes", "str"):
                raise Unsupported(f"replace on a {tx}: {s}")
            el = "byte" if tx == "bytes" else "char"
            p = args[0]
            if isinstance(p, ast.Constant) and isinstance(p.value, (bytes, str)) and len(p.value) == 1:
                c = str(p.value[0]) if isinstance(p.value, bytes) else f"Char.ofNat {ord(p.value)}"
                pat = f"({c} : {LEAN_T[el]})"
            else:
                pat, tp = self.ex(p, env)
                if tp != el:
                    raise Unsupported(f"replace pattern that is not one {el}: {s}")
            r, tr = self.ex(args[1], env)
            return f"(pyReplace1 {pat} {self.as_type(r, tr, tx, s)} {x})", tx
        if isinstance(node.func, ast.Attribute) and node.func.attr == "join" and len(args) == 1 \
                and isinstance(node.func.value, ast.Constant) and node.func.value.value in (b"", ""):
            x, tx = self.ex(args[0], env)
            want = "bytes" if isinstance(node.func.value.value, bytes) else "str"
            if tx != ("list", want):
                raise Unsupported(f"join of something that is not a list of {want}: {s}")
            return f"({x}).flatten", want
        if fn == "len" and len(args) == 1:
            x, tx = self.ex(args[0], env)
            if tx not in ("bytes", "str") and not (isinstance(tx, tuple) and tx[0] == "list"):
                raise Unsupported(f"len of a {tx}: {s}")
            return f"({x}).length", "nat"
        if fn == "ord" and len(args) == 1:
            a = args[0]
            if isinstance(a, ast.Constant) and isinstance(a.value, (str, bytes)) and len(a.value) == 1:
                return f"({ord(a.value)} : Nat)", "nat"
            x, tx = self.ex(a, env)
            if tx in ("byte", "char"):
                return f"({x}).toNat", "nat"
            if tx == "bytes":
                if not self.spec.effect:
                    raise Unsupported(f"ord() of a bytes object in a function declared total: {s}")
                name = self.fresh("t")
                self.binds.append([name, f"pyOrd {x}"])
                return name, "nat"
            raise Unsupported(f"ord of a {tx}: {s}")
        if fn == "bytes" and len(args) == 1 and isinstance(args[0], ast.Tuple) and len(args[0].elts) == 1:
            e = args[0].elts[0]
            x, tx = self.ex(e, env)
            b = self.bound(e, env)
            if tx != "nat" or b is None or b > 255:
                raise Unsupported(f"bytes((e,)) where e is not statically within range(256): {s}")
            return f"[UInt8.ofNat {x}]", "bytes"
        if fn == "networkString" and len(args) == 1 and isinstance(args[0], ast.JoinedStr):
            parts = []
            for v in args[0].values:
                if isinstance(v, ast.Constant) and isinstance(v.value, str) and v.value.isascii():
                    parts.append(self.lit_bytes(v.value.encode("ascii")))
                elif (isinstance(v, ast.FormattedValue) and v.conversion == -1 and v.format_spec is not None
                      and ast.unparse(v.format_spec) == "f'02X'"):
                    x, tx = self.ex(v.value, env)
                    b = self.bound(v.value, env)
                    if tx != "nat" or b is None or b > 255:
                        raise Unsupported(f"{{e:02X}} where e is not statically below 256: {s}")
                    parts.append(f"pyFmt02X {x}")
                else:
                    raise Unsupported(f"f-string piece not in subset: {s}")
            return "(" + " ++ ".join(parts) + ")", "bytes"
        raise Unsupported(f"call not in subset: {s}")

    # ---- conditions: decidable Prop
    def cond(self, node, env) -> str:
        s = ast.unparse(node)
        n0 = len(self.binds)
        if isinstance(node, ast.BoolOp):
            out = []
            for i, v in enumerate(node.values):
                out.append(self.cond(v, env))
                if i == 0:
                    n0 = len(self.binds)
                elif len(self.binds) != n0:
                    raise Unsupported(f"call that can raise under a short-circuit operator: {s}")
            return "(" + (" ∧ " if isinstance(node.op, ast.And) else " ∨ ").join(out) + ")"
        if isinstance(node, ast.UnaryOp) and isinstance(node.op, ast.Not):
            return f"(¬ {self.cond(node.operand, env)})"
        if isinstance(node, ast.Compare):
            if len(node.ops) != 1 or type(node.ops[0]) not in CMP:
                raise Unsupported(f"comparison not in subset: {s}")
            a, ta = self.ex(node.left, env)
            b, tb = self.ex(node.comparators[0], env)
            if ta != tb:
                if {ta, tb} == {"nat", "int"}:
                    a, b = self.as_type(a, ta, "int", s), self.as_type(b, tb, "int", s)
                else:
                    raise Unsupported(f"comparison of a {ta} with a {tb}: {s}")
            elif ta not in ("nat", "int") and not isinstance(node.ops[0], (ast.Eq, ast.NotEq)):
                raise Unsupported(f"ordering of {ta}: {s}")
            return f"({a} {CMP[type(node.ops[0])]} {b})"
        x, tx = self.ex(node, env)
        if tx in ("nat", "int"):
            return f"({x} ≠ 0)"
        if tx in ("bytes", "str") or (isinstance(tx, tuple) and tx[0] == "list"):
            return f"({x} ≠ [])"
        raise Unsupported(f"truth value of a {tx}: {s}")

    # ---- statements
    def flush(self, pad: str) -> list[str]:
        out = [f"{pad}let {n} ← {rhs}" for n, rhs in self.binds]
        self.binds = []
        return out

    def ret_line(self, term: str, ty, pad: str) -> str:
        if ty != self.spec.ret:
            raise Unsupported(f"{self.spec.pyname}: returns a {ty}, declared {self.spec.ret}")
        return f"{pad}pure {term}" if self.spec.effect else f"{pad}{term}"

    @staticmethod
    def is_doc(st) -> bool:
        return isinstance(st, ast.Expr) and isinstance(st.value, ast.Constant) and isinstance(st.value.value, str)

    def assigned(self, st, env):
        """(python name, value node) of a simple (re)assignment, `x op= e`, `x.append(e)`, `sink(e)`; else None."""
        if isinstance(st, ast.AnnAssign) and st.value is not None and isinstance(st.target, ast.Name):
            return st.target.id, st.value
        if isinstance(st, ast.Assign) and len(st.targets) == 1 and isinstance(st.targets[0], ast.Name):
            return st.targets[0].id, st.value
        if isinstance(st, ast.AugAssign) and isinstance(st.target, ast.Name):
            return st.target.id, ast.BinOp(left=ast.Name(id=st.target.id, ctx=ast.Load()), op=st.op, right=st.value)
        return None

    def appended(self, st):
        """(python list name | "$out", element node) of `x.append(e)` / `sink(e)`; else None."""
        if isinstance(st, ast.Expr) and isinstance(st.value, ast.Call) and not st.value.keywords and len(st.value.args) == 1:
            f = st.value.func
            if isinstance(f, ast.Attribute) and f.attr == "append" and isinstance(f.value, ast.Name):
                return f.value.id, st.value.args[0]
            if isinstance(f, ast.Name) and self.spec.sink and f.id == self.spec.sink:
                return "$out", st.value.args[0]
        return None

    def assign_value(self, name, value, env):
        """Translate the right-hand side of `name = value`: (term, type, bound)."""
        if isinstance(value, ast.List) and not value.elts:
            if name not in self.spec.locals:
                raise Unsupported(f"`{name} = []` without a declared element type")
            return "[]", self.spec.locals[name], None
        term, ty = self.ex(value, env)
        if isinstance(ty, str) and ty.startswith("tuple1:"):
            raise Unsupported(f"a 1-tuple assigned to a plain name: {name}")
        return term, ty, (self.bound(value, env) if ty == "nat" else None)

    def append_value(self, lst, elem, env):
        if lst not in env:
            raise Unsupported(f"append to something that is not a local list: {lst}")
        cur, tl, _ = env[lst]
        e, te = self.ex(elem, env)
        if lst == "$out":
            if te != tl:
                raise Unsupported(f"{self.spec.sink}() of a {te}")
            return f"({cur} ++ {e})", tl, None
        if not (isinstance(tl, tuple) and tl[0] == "list") or tl[1] != te:
            raise Unsupported(f"{lst}.append of a {te} to a {tl}")
        return f"({cur} ++ [{e}])", tl, None

    def names_assigned(self, stmts) -> list[str]:
        out = []
        for st in stmts:
            for sub in ast.walk(st):
                n = None
                if isinstance(sub, (ast.Assign, ast.AnnAssign, ast.AugAssign)):
                    tgts = sub.targets if isinstance(sub, ast.Assign) else [sub.target]
                    for t in tgts:
                        for e in (t.elts if isinstance(t, ast.Tuple) else [t]):
                            if isinstance(e, ast.Name):
                                out.append(e.id)
                            else:
                                raise Unsupported(f"assignment target not in subset: {ast.unparse(t)}")
                elif isinstance(sub, ast.stmt):
                    a = self.appended(sub)
                    if a is not None:
                        out.append(a[0])
        return list(dict.fromkeys(out))

    def sym(self, stmts, env):
        """An assignment-only branch evaluated symbolically (no lets, nothing that can raise): env → env'."""
        env = dict(env)
        n0 = len(self.binds)
        for st in stmts:
            if self.is_doc(st) or isinstance(st, ast.Pass):
                continue
            a = self.assigned(st, env)
            if a is not None:
                env[a[0]] = self.assign_value(a[0], a[1], env)
            elif self.appended(st) is not None:
                lst, e = self.appended(st)
                env[lst] = self.append_value(lst, e, env)
            elif isinstance(st, ast.If) and ast.unparse(st.test) not in self.spec.static:
                c = self.cond(st.test, env)
                env = self.merge(c, self.sym(st.body, env), self.sym(st.orelse, env), env, None, "")
            else:
                raise Unsupported(f"statement not in subset inside a merging branch: {ast.unparse(st)[:80]}")
            if len(self.binds) != n0:
                raise Unsupported(f"call that can raise inside a merging branch: {ast.unparse(st)[:80]}")
        return env

    def merge(self, c, e1, e2, env, lines, pad):
        """Join two branch environments; with `lines`, differing variables become lets, else inline `if`s."""
        env = dict(env)
        for n in list(dict.fromkeys(list(e1) + list(e2))):
            a, b = e1.get(n), e2.get(n)
            if a is None or b is None:
                raise Unsupported(f"{n} is assigned on one path only and was not defined before")
            if a[0] == b[0]:
                env[n] = a
                continue
            if a[1] != b[1]:
                raise Unsupported(f"{n} has type {a[1]} on one path and {b[1]} on the other")
            bd = None if a[2] is None or b[2] is None else max(a[2], b[2])
            term = f"(if {c} then {a[0]} else {b[0]})"
            if lines is not None:
                k = self.fresh(n if n != "$out" else "out")
                lines.append(f"{pad}let {k} : {lean_type(a[1])} := if {c} then {a[0]} else {b[0]}")
                term = k
            env[n] = (term, a[1], bd)
        return env

    def terminates(self, stmts) -> bool:
        if not stmts:
            return False
        st = stmts[-1]
        if isinstance(st, (ast.Return, ast.Raise)):
            return True
        if isinstance(st, ast.If):
            key = ast.unparse(st.test)
            if key in self.spec.static:
                return self.terminates(st.body if self.spec.static[key] else st.orelse)
            return bool(st.orelse) and self.terminates(st.body) and self.terminates(st.orelse)
        return False

    def block(self, stmts, env, ind, fin) -> list[str]:
        """Lines of the Lean term for `stmts` followed by the continuation `fin(env, ind)`."""
        pad = "  " * ind
        stmts = list(stmts)
        if not stmts:
            return fin(env, ind)
        st, rest = stmts[0], stmts[1:]
        if self.is_doc(st) or isinstance(st, ast.Pass):
            return self.block(rest, env, ind, fin)
        env = dict(env)
        # (a, b, c) = "xyz"  /  (v,) = <call returning a 1-tuple>
        if isinstance(st, ast.Assign) and len(st.targets) == 1 and isinstance(st.targets[0], ast.Tuple) \
                and all(isinstance(e, ast.Name) for e in st.targets[0].elts):
            names = [e.id for e in st.targets[0].elts]
            if isinstance(st.value, ast.Constant) and isinstance(st.value.value, str) and len(st.value.value) == len(names):
                out = []
                for n, ch in zip(names, st.value.value):
                    k = self.fresh(n)
                    out.append(f"{pad}let {k} : Char := Char.ofNat {ord(ch)}")
                    env[n] = (k, "char", None)
                return out + self.block(rest, env, ind, fin)
            if len(names) == 1:
                term, ty = self.ex(st.value, env)
                if not (isinstance(ty, str) and ty.startswith("tuple1:")):
                    raise Unsupported(f"1-tuple target for something that is not a 1-tuple: {ast.unparse(st)}")
                ty = ty[len("tuple1:"):]
                k = self.fresh(names[0])
                if self.binds and self.binds[-1][0] == term:
                    self.binds[-1][0] = k
                    out = self.flush(pad)
                else:
                    out = self.flush(pad) + [f"{pad}let {k} : {lean_type(ty)} := {term}"]
                env[names[0]] = (k, ty, None)
                return out + self.block(rest, env, ind, fin)
            raise Unsupported(f"tuple assignment not in subset: {ast.unparse(st)[:80]}")
        a = self.assigned(st, env)
        if a is not None:
            name, value = a
            term, ty, bd = self.assign_value(name, value, env)
            k = self.fresh(name)
            if self.binds and self.binds[-1][0] == term:
                self.binds[-1][0] = k
                out = self.flush(pad)
            else:
                out = self.flush(pad) + [f"{pad}let {k} : {lean_type(ty)} := {term}"]
            env[name] = (k, ty, bd)
            return out + self.block(rest, env, ind, fin)
        if self.appended(st) is not None:
            lst, e = self.appended(st)
            term, ty, _ = self.append_value(lst, e, env)
            k = self.fresh(lst if lst != "$out" else "out")
            out = self.flush(pad) + [f"{pad}let {k} : {lean_type(ty)} := {term}"]
            env[lst] = (k, ty, None)
            return out + self.block(rest, env, ind, fin)
        if isinstance(st, ast.Return):
            if st.value is None:
                if not self.spec.sink:
                    raise Unsupported("bare return")
                return [self.ret_line(env["$out"][0], env["$out"][1], pad)]
            term, ty = self.ex(st.value, env)
            return self.flush(pad) + [self.ret_line(term, ty, pad)]
        if isinstance(st, ast.Assert):
            if not self.spec.effect:
                raise Unsupported("assert in a function declared total")
            c = self.cond(st.test, env)
            out = self.flush(pad) + [f"{pad}if {c} then"]
            inner = dict(env)
            t = st.test
            if (isinstance(t, ast.Compare) and len(t.ops) == 1 and isinstance(t.ops[0], (ast.Gt, ast.GtE))
                    and isinstance(t.left, ast.Name) and env.get(t.left.id, (None, None))[1] == "int"
                    and isinstance(t.comparators[0], ast.Constant) and t.comparators[0].value == 0):
                # `assert v > 0` / `assert v >= 0`: from here on v is a natural number
                k = self.fresh(t.left.id)
                out.append(f"{pad}  let {k} : Nat := ({env[t.left.id][0]}).toNat")
                inner[t.left.id] = (k, "nat", None)
            return out + self.block(rest, inner, ind + 1, fin) + [f"{pad}else", f"{pad}  throw PyErr.assertionError"]
        if isinstance(st, ast.If):
            key = ast.unparse(st.test)
            if key in self.spec.static:
                return self.block(list(st.body if self.spec.static[key] else st.orelse) + rest, env, ind, fin)
            if self.terminates(st.body):
                c = self.cond(st.test, env)
                out = self.flush(pad)
                return (out + [f"{pad}if {c} then"] + self.block(st.body, env, ind + 1, fin)
                        + [f"{pad}else"] + self.block(list(st.orelse) + rest, env, ind + 1, fin))
            c = self.cond(st.test, env)
            out = self.flush(pad)
            env = self.merge(c, self.sym(st.body, env), self.sym(st.orelse, env), env, out, pad)
            return out + self.block(rest, env, ind, fin)
        if isinstance(st, ast.For):
            return self.for_loop(st, rest, env, ind, fin)
        if isinstance(st, ast.While):
            return self.while_loop(st, rest, env, ind, fin)
        raise Unsupported(f"statement not in subset: {ast.unparse(st)[:80]}")

    # ---- loops
    def loop_parts(self, st, env, extra_bound=()):
        """(state names, free names) of a loop body; checks that control leaves it only at the end."""
        for sub in ast.walk(st):
            if isinstance(sub, (ast.Break, ast.Continue, ast.Return, ast.Raise, ast.Try, ast.With, ast.FunctionDef,
                                ast.Lambda, ast.Yield, ast.YieldFrom, ast.Global, ast.Nonlocal, ast.Delete)):
                raise Unsupported(f"{type(sub).__name__} inside a loop")
        if st.orelse:
            raise Unsupported("loop with an else clause")
        assigned = self.names_assigned(st.body)
        state = [n for n in env if n in assigned]
        loaded = []
        for b in st.body:
            for sub in ast.walk(b):
                if isinstance(sub, ast.Name) and isinstance(sub.ctx, ast.Load):
                    loaded.append(sub.id)
        free = [n for n in env if n in loaded and n not in state and n not in extra_bound]
        return state, free

    @staticmethod
    def proj(var: str, i: int, n: int) -> str:
        if n == 1:
            return var
        return var + ".2" * i + (".1" if i < n - 1 else "")

    def state_type(self, state, env) -> str:
        return " × ".join(lean_type(env[n][1]) for n in state)

    def loop_env(self, state, free, env):
        inner = {}
        for n in env:
            if n in free or n in state:
                inner[n] = (lean_ident(n) if n != "$out" else "out", env[n][1], env[n][2] if n in free else None)
        return inner

    def after_loop(self, call, state, env, ind, monadic):
        pad = "  " * ind
        env = dict(env)
        if len(state) == 1:
            k = self.fresh(state[0] if state[0] != "$out" else "out")
            ty = lean_type(env[state[0]][1])
            out = [f"{pad}let {k} ← {call}" if monadic else f"{pad}let {k} : {ty} := {call}"]
            env[state[0]] = (k, env[state[0]][1], None)
            return out, env
        lp = self.fresh("loop")
        out = [f"{pad}let {lp} ← {call}" if monadic else f"{pad}let {lp} : {self.state_type(state, env)} := {call}"]
        for i, n in enumerate(state):
            k = self.fresh(n if n != "$out" else "out")
            out.append(f"{pad}let {k} : {lean_type(env[n][1])} := {self.proj(lp, i, len(state))}")
            env[n] = (k, env[n][1], None)
        return out, env

    def for_loop(self, st, rest, env, ind, fin):
        if not isinstance(st.target, ast.Name):
            raise Unsupported("loop target is not a name")
        tgt = st.target.id
        if tgt in env:
            raise Unsupported(f"loop target {tgt} shadows a variable defined before the loop")
        it = st.iter
        if isinstance(it, ast.Call) and ast.unparse(it.func) == "range" and len(it.args) == 1 and not it.keywords:
            n, tn = self.ex(it.args[0], env)
            if tn != "nat":
                raise Unsupported(f"range() of something that may be negative: {ast.unparse(it)}")
            xs, elt = f"(List.range {n})", "nat"
        elif isinstance(it, ast.Call) and ast.unparse(it.func) == "iterbytes" and len(it.args) == 1 and not it.keywords:
            xs, tx = self.ex(it.args[0], env)
            if tx != "bytes":
                raise Unsupported(f"iterbytes of a {tx}")
            elt = "byte"
        elif isinstance(it, ast.Tuple) and it.elts:
            items = [self.ex(e, env) for e in it.elts]
            elt = items[0][1]
            if elt not in ("char", "byte") or any(t != elt for _, t in items):
                raise Unsupported(f"loop over a tuple that is not of single characters: {ast.unparse(it)}")
            xs = "[" + ", ".join(t for t, _ in items) + "]"
        else:
            raise Unsupported(f"loop iterable not in subset: {ast.unparse(it)}")
        if self.binds:
            raise Unsupported("call that can raise in a loop header")
        state, free = self.loop_parts(st, env, extra_bound=(tgt,))
        if not state:
            raise Unsupported("loop that assigns nothing defined before it")
        self.nloops += 1
        step = f"{self.spec.leanname}Step" + ("" if self.nloops == 1 else str(self.nloops))
        inner = self.loop_env(state, free, env)
        inner[tgt] = (lean_ident(tgt), elt, {"byte": None, "char": None}.get(elt))
        stt = self.state_type(state, env)
        pat = "(" + ", ".join(inner[n][0] for n in state) + ")" if len(state) > 1 else inner[state[0]][0]

        def step_fin(e, i):
            tup = ", ".join(e[n][0] for n in state)
            tup = f"({tup})" if len(state) > 1 else tup
            return [("  " * i) + (f"pure {tup}" if self.spec.effect else tup)]
        saved = self.counter
        self.counter = {}
        body = self.block(st.body, inner, 2, step_fin)
        self.counter = saved
        params = "".join(f" ({inner[n][0]} : {lean_type(env[n][1])})" for n in free)
        res = f"Except PyErr ({stt})" if self.spec.effect else stt
        self.aux.append(
            f"/-- one iteration of the `for {tgt} in {ast.unparse(it)}` loop of `{self.spec.pyname}` -/\n"
            f"def {step}{params} : {stt} → {lean_type(elt)} → {res}\n"
            f"  | {pat}, {inner[tgt][0]} =>" + (" do" if self.spec.effect else "") + "\n" + "\n".join(body) + "\n")
        init = ", ".join(env[n][0] for n in state)
        init = f"({init})" if len(state) > 1 else init
        fargs = "".join(f" {env[n][0]}" for n in free)
        fold = "List.foldlM" if self.spec.effect else "List.foldl"
        call = f"{fold} ({step}{fargs}) {init} {xs}"
        out, env = self.after_loop(call, state, env, ind, self.spec.effect)
        return out + self.block(rest, env, ind, fin)

    def while_loop(self, st, rest, env, ind, fin):
        """`while v:` over a natural number v whose last top-level assignment in the body is `v = v >> k` (k ≥ 1) or
        `v = v // k` (k ≥ 2) and which is assigned nowhere else: a recursive function, terminating by v."""
        if not (isinstance(st.test, ast.Name) and env.get(st.test.id, (None, None))[1] == "nat"):
            raise Unsupported(f"while condition is not a natural-number variable: {ast.unparse(st.test)}")
        v = st.test.id
        state, free = self.loop_parts(st, env)
        shrink = None
        count = 0
        for sub in ast.walk(st):
            if isinstance(sub, (ast.Assign, ast.AugAssign, ast.AnnAssign)) and v in self.names_assigned([sub]):
                count += 1
        for s0 in st.body:
            a = self.assigned(s0, env)
            if a is not None and a[0] == v:
                val = a[1]
                if (isinstance(val, ast.BinOp) and isinstance(val.left, ast.Name) and val.left.id == v
                        and isinstance(val.right, ast.Constant) and isinstance(val.right.value, int)):
                    k = val.right.value
                    if isinstance(val.op, ast.RShift) and k >= 1:
                        shrink = ("shift", k)
                    elif isinstance(val.op, ast.FloorDiv) and k >= 2:
                        shrink = ("div", k)
        if shrink is None or count != 1:
            raise Unsupported(f"while loop whose variable {v} is not shrunk exactly once by `>> k` or `// k`")
        if self.spec.effect:
            # the loop function itself is total: nothing that can raise inside it
            pass
        self.nloops += 1
        loop = f"{self.spec.leanname}Loop" + ("" if self.nloops == 1 else str(self.nloops))
        inner = self.loop_env(state, free, env)
        stt = self.state_type(state, env)

        def step_fin(e, i):
            return [("  " * i) + f"{loop}" + "".join(f" {inner[n][0]}" for n in free) + "".join(f" {e[n][0]}" for n in state)]
        saved, self.counter = self.counter, {}
        eff, self.spec.effect = self.spec.effect, False
        try:
            body = self.block(st.body, inner, 2, step_fin)
        finally:
            self.spec.effect = eff
        self.counter = saved
        params = "".join(f" ({inner[n][0]} : {lean_type(env[n][1])})" for n in free + state)
        tup = ", ".join(inner[n][0] for n in state)
        tup = f"({tup})" if len(state) > 1 else tup
        lemma = ("Nat.shiftRight_eq_div_pow" if shrink[0] == "shift" else "")
        self.aux.append(
            f"/-- the `while {v}:` loop of `{self.spec.pyname}` -/\n"
            f"def {loop}{params} : {stt} :=\n"
            f"  if h : {inner[v][0]} ≠ 0 then\n" + "\n".join(body) + "\n"
            f"  else {tup}\n"
            f"termination_by {inner[v][0]}\n"
            f"decreasing_by\n"
            + (f"  simp only [{lemma}]\n" if lemma else "")
            + f"  exact Nat.div_lt_self (Nat.pos_of_ne_zero h) (by decide)\n")
        call = loop + "".join(f" {env[n][0]}" for n in free + state)
        out, env = self.after_loop(call, state, env, ind, False)
        return out + self.block(rest, env, ind, fin)

    # ---- whole functions
    def render(self, fn: ast.FunctionDef) -> str:
        spec = self.spec
        want = [p for p, _ in spec.params]
        have = [a.arg for a in fn.args.args if a.arg != "self" and a.arg != spec.sink and a.arg not in spec.ignore]
        if have != want or fn.args.vararg or fn.args.kwarg or fn.args.kwonlyargs or fn.args.posonlyargs:
            raise Unsupported(f"{spec.pyname}: parameters are {have}, expected {want}")
        for sub in ast.walk(fn):
            if isinstance(sub, ast.Name) and sub.id in spec.ignore:
                raise Unsupported(f"{spec.pyname}: reads the parameter {sub.id}, which is outside the kernel")
        env = {p: (lean_ident(p), t, None) for p, t in spec.params}
        if spec.sink:
            env["$out"] = ("([] : List UInt8)", "bytes", None)

        def fin(e, i):
            if spec.sink:
                return [self.ret_line(e["$out"][0], e["$out"][1], "  " * i)]
            raise Unsupported("control reaches end of function without return")
        stmts = [st for st in fn.body if not self.is_doc(st)]
        if spec.tail:
            body = [self.tail_call(stmts, env)]
        else:
            body = self.block(stmts, env, 1, fin)
        params = " ".join(f"({lean_ident(p)} : {lean_type(t)})" for p, t in spec.params)
        rt = lean_type(spec.ret)
        res = f"Except PyErr ({rt})" if spec.effect else rt
        head = f"def {spec.leanname} {params} : {res} :=" + (" do" if spec.effect else "")
        return "\n".join(self.aux + [head] + body) + "\n"

    def tail_call(self, stmts, env) -> str:
        """A body that is exactly one call statement `<callee>(.., E)` with the callee in `spec.tail`."""
        if not (len(stmts) == 1 and isinstance(stmts[0], ast.Expr) and isinstance(stmts[0].value, ast.Call)
                and not stmts[0].value.keywords):
            raise Unsupported(f"{self.spec.pyname}: body is not a single call statement")
        c = stmts[0].value
        callee = ast.unparse(c.func)
        if callee not in self.spec.tail:
            raise Unsupported(f"{self.spec.pyname}: hands its data to {callee}, expected one of {sorted(self.spec.tail)}")
        args = [a for a in c.args if not (isinstance(a, ast.Name) and a.id == "self")]
        if len(args) != 1:
            raise Unsupported(f"{self.spec.pyname}: {callee} is not given exactly one value")
        term, ty = self.ex(args[0], env)
        if self.binds:
            raise Unsupported("call that can raise in a total function")
        if ty != self.spec.ret:
            raise Unsupported(f"{self.spec.pyname}: hands over a {ty}, declared {self.spec.ret}")
        lean = self.spec.tail[callee]
        return f"  {lean} {term}" if lean else f"  {term}"


def require_import(tree: ast.Module, text: str) -> None:
    """The module (top level) contains exactly this import statement, or one importing a superset of its names."""
    want = ast.parse(text).body[0]
    for st in tree.body:
        if isinstance(want, ast.Import) and isinstance(st, ast.Import):
            if {a.name for a in want.names if a.asname is None} <= {a.name for a in st.names if a.asname is None}:
                return
        if isinstance(want, ast.ImportFrom) and isinstance(st, ast.ImportFrom) and st.module == want.module \
                and st.level == want.level:
            if {a.name for a in want.names} <= {a.name for a in st.names if a.asname is None}:
                return
    raise Unsupported(f"expected `{text}` at module level")


def no_rebinding(tree: ast.Module, names) -> None:
    """None of `names` is re-bound at module level by a def / class / assignment (the rename table's meaning holds)."""
    for st in tree.body:
        bound = []
        if isinstance(st, (ast.FunctionDef, ast.ClassDef)):
            bound = [st.name]
        elif isinstance(st, (ast.Assign, ast.AnnAssign, ast.AugAssign)):
            tg = st.targets if isinstance(st, ast.Assign) else [st.target]
            bound = [n.id for t in tg for n in ast.walk(t) if isinstance(n, ast.Name)]
        for b in bound:
            if b in names:
                raise Unsupported(f"{b} is re-bound at module level")


# ---------------------------------------------------------------------------------------
# Kernel: conch/ssh/common.py NS, getNS, MP, getMP (C37)

def gen_sshwire(repo: Path) -> str:
    src = (repo / "src/twisted/conch/ssh/common.py").read_text()
    tree = ast.parse(src)
    require_import(tree, "import struct")
    require_import(tree, "from cryptography.utils import int_to_bytes")
    no_rebinding(tree, {"struct", "int_to_bytes", "int", "len", "ord", "tuple", "range", "isinstance", "str"})
    out = [
        "import TwistedModel.Py.Bytes",
        "/- GENERATED by harness/py2lean.py from src/twisted/conch/ssh/common.py — do not edit.",
        "   bytes are List UInt8; a function that can raise returns Except PyErr; struct.pack/unpack('!L'/'>L'),",
        "   int_to_bytes and int.from_bytes are the fixed primitives below (over u32be / beToNat / natToBE of",
        "   TwistedModel/Py/Bytes.lean); s[a:b] is (s.take b).drop a (bounds are natural numbers);",
        "   `for i in range(count)` is List.foldlM of the generated loop body over List.range count;",
        "   `tuple(xs) + (rest,)` is the pair (xs, rest); isinstance(t, str) is False (t : bytes). -/",
        "set_option linter.unusedVariables false",
        "namespace Generated.SshWire",
        "",
        BYTES_PRELUDE,
        STRUCT_PRELUDE,
    ]
    out.append(ByteTr(BSpec("NS", "NS", [("t", "bytes")], "bytes", effect=True, prims=STRUCT_PRIMS,
                            static={"isinstance(t, str)": False})).render(find_function(tree, "NS")))
    out.append(ByteTr(BSpec("getNS", "getNS", [("s", "bytes"), ("count", "nat")],
                            ("pair", ("list", "bytes"), "bytes"), effect=True, prims=STRUCT_PRIMS,
                            locals={"ns": ("list", "bytes")})).render(find_function(tree, "getNS")))
    out.append(ByteTr(BSpec("MP", "MP", [("number", "int")], "bytes", effect=True, prims=STRUCT_PRIMS)).render(
        find_function(tree, "MP")))
    out.append(ByteTr(BSpec("getMP", "getMP", [("data", "bytes"), ("count", "nat")],
                            ("pair", ("list", "nat"), "bytes"), effect=True, prims=STRUCT_PRIMS,
                            locals={"mp": ("list", "nat")})).render(find_function(tree, "getMP")))
    out.append("end Generated.SshWire\n")
    return "\n".join(out)


# ---------------------------------------------------------------------------------------
# Kernel: spread/banana.py int2b128, b1282int (C44)

def gen_banana(repo: Path) -> str:
    src = (repo / "src/twisted/spread/banana.py").read_text()
    tree = ast.parse(src)
    require_import(tree, "from twisted.python.compat import iterbytes")
    no_rebinding(tree, {"iterbytes", "ord", "bytes"})
    out = [
        "/- GENERATED by harness/py2lean.py from src/twisted/spread/banana.py — do not edit.",
        "   int2b128(integer, stream): every stream(e) appends e to the output, which is the result (Except PyErr:",
        "   the assert); after `assert integer > 0` the integer is a natural number; the `while integer:` loop",
        "   (integer shrunk by `>> 7`) is a recursive function terminating by integer.  b1282int: the for-loop over",
        "   iterbytes(st) is List.foldl of the generated loop body over the bytes. -/",
        "set_option linter.unusedVariables false",
        "namespace Generated.Banana",
        "",
        BYTES_PRELUDE,
    ]
    out.append(ByteTr(BSpec("int2b128", "int2b128", [("integer", "int")], "bytes", effect=True, sink="stream")).render(
        find_function(tree, "int2b128")))
    out.append(ByteTr(BSpec("b1282int", "b1282int", [("st", "bytes")], "nat")).render(find_function(tree, "b1282int")))
    out.append("end Generated.Banana\n")
    return "\n".join(out)


# ---------------------------------------------------------------------------------------
# Kernel: internet/endpoints.py quoteStringArgument (C46)

def gen_quote(repo: Path) -> str:
    src = (repo / "src/twisted/internet/endpoints.py").read_text()
    tree = ast.parse(src)
    out = [
        "/- GENERATED by harness/py2lean.py from src/twisted/internet/endpoints.py — do not edit.",
        "   str is List Char; `a, b, c = \"xyz\"` binds three characters; the loop over the tuple of characters is",
        "   List.foldl of the generated loop body; x.replace(c, r) for a one-character c is pyReplace1. -/",
        "set_option linter.unusedVariables false",
        "namespace Generated.Quote",
        "",
        BYTES_PRELUDE,
    ]
    out.append(ByteTr(BSpec("quoteStringArgument", "quoteStringArgument", [("argument", "str")], "str")).render(
        find_function(tree, "quoteStringArgument")))
    out.append("end Generated.Quote\n")
    return "\n".join(out)


# ---------------------------------------------------------------------------------------
# Kernel: conch/telnet.py TelnetTransport.write → ProtocolTransportMixin.write (C38)

def gen_telnet(repo: Path) -> str:
    src = (repo / "src/twisted/conch/telnet.py").read_text()
    tree = ast.parse(src)
    out = [
        "/- GENERATED by harness/py2lean.py from src/twisted/conch/telnet.py — do not edit.",
        "   The value of each function is the bytes it hands on: ProtocolTransportMixin.write hands",
        "   its argument expression to self.transport.write; TelnetTransport.write hands its argument expression to",
        "   ProtocolTransportMixin.write(self, ·).  x.replace(b, r) for a one-byte b is pyReplace1. -/",
        "set_option linter.unusedVariables false",
        "namespace Generated.Telnet",
        "",
        BYTES_PRELUDE,
    ]
    out.append(ByteTr(BSpec("ProtocolTransportMixin.write", "mixinWrite", [("data", "bytes")], "bytes",
                            tail={"self.transport.write": ""})).render(
        find_function(tree, "ProtocolTransportMixin.write")))
    out.append(ByteTr(BSpec("TelnetTransport.write", "write", [("data", "bytes")], "bytes",
                            tail={"ProtocolTransportMixin.write": "mixinWrite"})).render(
        find_function(tree, "TelnetTransport.write")))
    out.append("end Generated.Telnet\n")
    return "\n".join(out)


# ---------------------------------------------------------------------------------------
# Kernel: mail/smtp.py xtext_encode (C41)

def gen_xtext(repo: Path) -> str:
    src = (repo / "src/twisted/mail/smtp.py").read_text()
    tree = ast.parse(src)
    require_import(tree, "from twisted.python.compat import iterbytes, networkString")
    no_rebinding(tree, {"iterbytes", "networkString", "ord", "bytes", "len"})
    out = [
        "/- GENERATED by harness/py2lean.py from src/twisted/mail/smtp.py — do not edit.",
        "   The for-loop over iterbytes(s) is List.foldl of the generated loop body over the bytes; ord(ch) of a loop",
        "   byte is its value (< 256, which licenses bytes((o,)) and {o:02X} = pyFmt02X); networkString of an ASCII",
        "   f-string is its bytes; b\"\".join(r) is r.flatten; the result is the pair (encoded, len(s)). -/",
        "set_option linter.unusedVariables false",
        "namespace Generated.Xtext",
        "",
        BYTES_PRELUDE,
    ]
    out.append(ByteTr(BSpec("xtext_encode", "xtextEncode", [("s", "bytes")], ("pair", "bytes", "nat"),
                            locals={"r": ("list", "bytes")}, ignore=("errors",))).render(
        find_function(tree, "xtext_encode")))
    out.append("end Generated.Xtext\n")
    return "\n".join(out)


KERNELS = {"Rfc1982": gen_rfc1982, "Looping": gen_looping, "Range": gen_range, "FD": gen_fd, "Ftp": gen_ftp,
           "SshWire": gen_sshwire, "Banana": gen_banana, "Quote": gen_quote, "Telnet": gen_telnet, "Xtext": gen_xtext}


def main(argv):
    repo = Path(argv[1]) if len(argv) > 1 else Path("/repo")
    outdir = Path(argv[2]) if len(argv) > 2 else Path(__file__).resolve().parent.parent / "lean" / "Generated"
    outdir.mkdir(parents=True, exist_ok=True)
    status = 0
    for name, gen in KERNELS.items():
        target = outdir / f"{name}.lean"
        try:
            text = gen(repo)
        except Exception as e:   # Unsupported, SyntaxError, OSError, or a bug in a generator: same outcome
            # Leave a file that cannot satisfy the equality theorems: the tie is broken.
            msg = " ".join(str(e).split())
            lit = '"' + msg.replace("\\", "\\\\").replace('"', '\\"') + '"'
            text = (f"/- GENERATED: translation FAILED: {msg.replace('-/', '- /').replace('/-', '/ -')} -/\n"
                    f"namespace Generated.{name}\n"
                    f"def translationFailed : String := {lit}\n"
                    f"end Generated.{name}\n")
            print(f"py2lean: {name}: {e}", file=sys.stderr)
            status = 3
        if not target.exists() or target.read_text() != text:
            target.write_text(text)
    return status


if __name__ == "__main__":
    sys.exit(main(sys.argv))
