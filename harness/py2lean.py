#!/usr/bin/env python3
"""
py2lean — a deliberately tiny Python→Lean translator for pure integer/boolean kernels.

It reads functions from /repo's *current* source (via `ast`), and emits Lean 4
definitions into lean/Generated/<Name>.lean.  The property files then prove
`Generated.f = Model.f` (or prove the property directly over the generated
definition), so that the theorems are re-checked against what the code says now.

Supported subset (anything else raises `Unsupported`, reported as a broken tie):
  expressions : int literals, names, `self.<attr>` / `<param>.<attr>` (renamed through a
                table), + - * // % ** (Int; `**` only with a non-negative exponent
                expression typed Nat by the table), unary -, comparisons
                (== != < <= > >=, chained), and / or / not, parenthesised,
                conditional expressions, calls to functions in the rename table.
  statements  : a function body is (docstring)?, optional `try: x = self._convertOther(..)
                except TypeError: return NotImplemented` prelude (skipped: it is the
                dynamic type check, outside the integer kernel), simple assignments to
                fresh names (become `let`), `if/elif/else` whose branches end in
                `return` / `raise` (raise → `none` when the function is declared
                partial), `return <expr>`.

Extensions used by the kernels after C34 (class `Flow`, each one opt-in through the FnSpec):
  expressions : `min(a, b)` / `max(a, b)`; `len(x)` ONLY as a parameter named in the rename
                table; `%` and `//` as `Int.fmod` / `Int.fdiv` (Python's floored semantics for
                every sign) when `floor_ops`; `int(a / b)` as `Int.tdiv a b` ONLY when the spec
                carries `exact_truediv` = the text of the exactness assumption (the quotient of
                the two floats is computed exactly enough that truncating it gives the truncated
                integer quotient), which is copied into the generated file (a zero divisor is
                NOT modelled: Lean's operations are total where Python raises ZeroDivisionError —
                the gen_ theorem files say where the caller guards it); `x is None` /
                `x is not None` ONLY for parameters whose None-ness the spec fixes (`nones`):
                the test is resolved statically and the dead branch dropped (one Lean def per
                None-pattern).
  statements  : re-assignment (`x = e`, `a = b = e`, `x += e`) in SSA form (`x_1`, `x_2`, ...);
                `if/elif/else` whose branches only assign, followed by more statements (merged:
                `let x_k := if c then .. else ..`); `assert <e> is not None` (skipped: Optional
                narrowing); tuple `return a, b` for `Int × Int`.
  string loops (class `SegLoop`, the shape of ftp.toSegments only): `if <cond>: st = [] else:
                st = param[:]`, then `for s in <param>.split("<c>")` whose body is an if/elif
                chain of `continue` / `st.pop()` (only under `if st:`) / `st.append(s)` / `raise`,
                then `return st`; conditions `s == "lit"`, `"<c>" in s`, `st` (non-empty), and /
                or / not, `<param>.startswith("lit")`.  Text is `List UInt8` (code points < 256).
                The loop becomes `List.foldlM` of the generated step function in `Option`.
"""
from __future__ import annotations

import ast
import sys
import textwrap
from dataclasses import dataclass, field
from pathlib import Path


class Unsupported(Exception):
    pass


@dataclass
class FnSpec:
    """How to render one Python function as a Lean def."""
    pyname: str                      # qualified: Class.method or function
    leanname: str
    params: list[tuple[str, str]]    # Lean params (name, type) in order
    rename: dict[str, str]           # python expression source → lean term (e.g. "self._number" → "a")
    ret: str = "Int"                 # Lean return type; "Bool", "Int", "Option Int", "Int × Int"
    calls: dict[str, str] = field(default_factory=dict)   # python call text → lean term
    floor_ops: bool = False          # `%`, `//` → Int.fmod / Int.fdiv (Python semantics for every sign)
    exact_truediv: str = ""          # non-empty: `int(a / b)` → `Int.tdiv a b` under this stated assumption
    nones: dict[str, bool] = field(default_factory=dict)  # python name → "is None" (resolved statically)


CMP = {ast.Lt: "<", ast.LtE: "≤", ast.Gt: ">", ast.GtE: "≥", ast.Eq: "=", ast.NotEq: "≠"}
BIN = {ast.Add: "+", ast.Sub: "-", ast.Mult: "*", ast.Mod: "%", ast.FloorDiv: "/"}


class Tr:
    def __init__(self, spec: FnSpec):
        self.spec = spec
        self.locals: set[str] = set()
        self.env: dict[str, str] = {}      # Flow: python local → current SSA name / term

    # ---- expressions -------------------------------------------------------------
    def src(self, node) -> str:
        return ast.unparse(node)

    def is_bool(self, node) -> bool:
        return isinstance(node, (ast.BoolOp, ast.Compare)) or (
            isinstance(node, ast.UnaryOp) and isinstance(node.op, ast.Not)
        ) or (self.src(node) in self.spec.calls and self.spec.calls[self.src(node)].startswith("(B)"))

    def int_expr(self, node) -> str:
        s = self.src(node)
        if isinstance(node, ast.Name) and node.id in self.env:      # Flow: current SSA name wins
            return self.env[node.id]
        if s in self.spec.rename:
            return self.spec.rename[s]
        if s in self.spec.calls and not self.spec.calls[s].startswith("(B)"):
            return self.spec.calls[s]
        if isinstance(node, ast.Constant) and isinstance(node.value, int) and not isinstance(node.value, bool):
            return f"({node.value} : Int)" if node.value >= 0 else f"(-{-node.value} : Int)"
        if isinstance(node, ast.Name) and node.id in self.env:
            return self.env[node.id]
        if isinstance(node, ast.Name) and node.id in self.locals:
            return node.id
        if isinstance(node, ast.Call) and isinstance(node.func, ast.Name) and not node.keywords:
            fn, args = node.func.id, node.args
            if fn in ("min", "max") and len(args) == 2 and not any(isinstance(a, ast.Starred) for a in args):
                return f"({fn} {self.int_expr(args[0])} {self.int_expr(args[1])})"
            if fn == "len":
                raise Unsupported(f"len() of something that is not a declared parameter: {s}")
            if (fn == "int" and len(args) == 1 and isinstance(args[0], ast.BinOp)
                    and isinstance(args[0].op, ast.Div)):
                if not self.spec.exact_truediv:
                    raise Unsupported(f"int(a / b) without a stated exactness assumption: {s}")
                return f"(Int.tdiv {self.int_expr(args[0].left)} {self.int_expr(args[0].right)})"
        if isinstance(node, ast.BinOp) and self.spec.floor_ops and isinstance(node.op, (ast.Mod, ast.FloorDiv)):
            f = "Int.fmod" if isinstance(node.op, ast.Mod) else "Int.fdiv"
            return f"({f} {self.int_expr(node.left)} {self.int_expr(node.right)})"
        if isinstance(node, ast.BinOp):
            if isinstance(node.op, ast.Pow):
                # base ** exponent : exponent must be a Nat-typed renamed term or a
                # `nat - literal` (Python semantics agree when the result is ≥ 0)
                base = self.int_expr(node.left)
                return f"({base} ^ {self.nat_expr(node.right)})"
            if type(node.op) in BIN:
                return f"({self.int_expr(node.left)} {BIN[type(node.op)]} {self.int_expr(node.right)})"
        if isinstance(node, ast.UnaryOp) and isinstance(node.op, ast.USub):
            return f"(-{self.int_expr(node.operand)})"
        if isinstance(node, ast.IfExp):
            return f"(if {self.bool_prop(node.test)} then {self.int_expr(node.body)} else {self.int_expr(node.orelse)})"
        raise Unsupported(f"integer expression not in subset: {s}")

    def nat_expr(self, node) -> str:
        s = self.src(node)
        key = "nat:" + s
        if key in self.spec.rename:
            return self.spec.rename[key]
        if isinstance(node, ast.Constant) and isinstance(node.value, int) and node.value >= 0:
            return str(node.value)
        if isinstance(node, ast.BinOp) and isinstance(node.op, (ast.Sub, ast.Add)):
            op = "-" if isinstance(node.op, ast.Sub) else "+"
            return f"({self.nat_expr(node.left)} {op} {self.nat_expr(node.right)})"
        raise Unsupported(f"exponent not in subset: {s}")

    def bool_expr(self, node) -> str:
        """Lean term of type Bool."""
        s = self.src(node)
        if s in self.spec.calls and self.spec.calls[s].startswith("(B)"):
            return self.spec.calls[s][3:]
        if isinstance(node, ast.BoolOp):
            op = "&&" if isinstance(node.op, ast.And) else "||"
            return "(" + f" {op} ".join(self.bool_expr(v) for v in node.values) + ")"
        if isinstance(node, ast.UnaryOp) and isinstance(node.op, ast.Not):
            return f"(!{self.bool_expr(node.operand)})"
        if isinstance(node, ast.Compare):
            parts = []
            left = node.left
            for op, right in zip(node.ops, node.comparators):
                if type(op) not in CMP:
                    raise Unsupported(f"comparison not in subset: {s}")
                parts.append(f"decide ({self.int_expr(left)} {CMP[type(op)]} {self.int_expr(right)})")
                left = right
            return "(" + " && ".join(parts) + ")"
        if isinstance(node, ast.Constant) and isinstance(node.value, bool):
            return "true" if node.value else "false"
        raise Unsupported(f"boolean expression not in subset: {s}")

    def bool_prop(self, node) -> str:
        return f"{self.bool_expr(node)} = true"

    def value(self, node) -> str:
        if self.spec.ret == "Bool":
            return self.bool_expr(node)
        if self.spec.ret == "Int":
            return self.int_expr(node)
        if self.spec.ret == "Option Int":
            return f"some {self.int_expr(self.unwrap_ctor(node))}"
        if self.spec.ret == "Int × Int":
            if not (isinstance(node, ast.Tuple) and len(node.elts) == 2):
                raise Unsupported(f"return of something that is not a pair: {self.src(node)}")
            return f"({self.int_expr(node.elts[0])}, {self.int_expr(node.elts[1])})"
        raise Unsupported(f"return type {self.spec.ret}")

    def unwrap_ctor(self, node):
        """`SerialNumber(expr, serialBits=…)` → expr (the constructor is modelled apart)."""
        if isinstance(node, ast.Call) and isinstance(node.func, ast.Name) and node.args:
            return node.args[0]
        return node

    # ---- statements ---------------------------------------------------------------
    def block(self, stmts, indent) -> str:
        pad = "  " * indent
        stmts = list(stmts)
        if not stmts:
            raise Unsupported("control reaches end of function without return")
        st = stmts[0]
        if isinstance(st, ast.Expr) and isinstance(st.value, ast.Constant) and isinstance(st.value.value, str):
            return self.block(stmts[1:], indent)
        if isinstance(st, ast.Try):
            # the `_convertOther` prelude: a dynamic type check; its bound name is
            # handled by the rename table
            ok = (
                len(st.body) == 1 and isinstance(st.body[0], ast.Assign)
                and "_convertOther" in self.src(st.body[0].value)
                and len(st.handlers) == 1 and self.src(st.handlers[0].type) == "TypeError"
                and self.src(st.handlers[0].body[0]) == "return NotImplemented"
            )
            if not ok:
                raise Unsupported("try block other than the _convertOther prelude")
            return self.block(stmts[1:], indent)
        if isinstance(st, ast.AnnAssign) and st.value is not None and isinstance(st.target, ast.Name):
            st = ast.Assign(targets=[st.target], value=st.value)
        if isinstance(st, ast.Assign) and len(st.targets) == 1 and isinstance(st.targets[0], ast.Name):
            name = st.targets[0].id
            rhs = self.int_expr(st.value)
            self.locals.add(name)
            return f"{pad}let {name} : Int := {rhs}\n" + self.block(stmts[1:], indent)
        if isinstance(st, ast.Return):
            if st.value is None:
                raise Unsupported("bare return")
            return f"{pad}{self.value(st.value)}\n"
        if isinstance(st, ast.Raise):
            if not self.spec.ret.startswith("Option"):
                raise Unsupported("raise in a total function")
            return f"{pad}none\n"
        if isinstance(st, ast.If):
            rest = stmts[1:]
            orelse = list(st.orelse) if st.orelse else rest
            if st.orelse and rest:
                raise Unsupported("statements after if/else")
            return (
                f"{pad}if {self.bool_prop(st.test)} then\n" + self.block(st.body, indent + 1)
                + f"{pad}else\n" + self.block(orelse, indent + 1)
            )
        raise Unsupported(f"statement not in subset: {self.src(st)[:80]}")

    def render(self, fn: ast.FunctionDef) -> str:
        params = " ".join(f"({n} : {t})" for n, t in self.spec.params)
        body = self.block(fn.body, 1)
        return f"def {self.spec.leanname} {params} : {self.spec.ret} :=\n{body}"


class Flow(Tr):
    """Statement translation with re-assignment (SSA) and merging `if`s; see the module docstring."""

    def __init__(self, spec: FnSpec):
        super().__init__(spec)
        self.counter: dict[str, int] = {}

    def fresh(self, name: str) -> str:
        self.counter[name] = self.counter.get(name, 0) + 1
        return f"{name}_{self.counter[name]}"

    # -- static resolution of `x is None`
    def static(self, test):
        if (isinstance(test, ast.Compare) and len(test.ops) == 1 and isinstance(test.ops[0], (ast.Is, ast.IsNot))
                and isinstance(test.comparators[0], ast.Constant) and test.comparators[0].value is None):
            key = self.src(test.left)
            if key not in self.spec.nones:
                raise Unsupported(f"None-test of something whose None-ness the spec does not fix: {self.src(test)}")
            isnone = self.spec.nones[key]
            return isnone if isinstance(test.ops[0], ast.Is) else not isnone
        return None

    def terminates(self, stmts) -> bool:
        if not stmts:
            return False
        st = stmts[-1]
        if isinstance(st, (ast.Return, ast.Raise)):
            return True
        if isinstance(st, ast.If):
            r = self.static(st.test)
            if r is True:
                return self.terminates(st.body)
            if r is False:
                return self.terminates(st.orelse)
            return bool(st.orelse) and self.terminates(st.body) and self.terminates(st.orelse)
        return False

    def assigned(self, st):
        """[(python name, value node)] of an assignment statement, else None."""
        if isinstance(st, ast.AnnAssign) and st.value is not None and isinstance(st.target, ast.Name):
            return [(st.target.id, st.value)]
        if isinstance(st, ast.Assign) and all(isinstance(t, ast.Name) for t in st.targets):
            return [(t.id, st.value) for t in st.targets]
        if isinstance(st, ast.AugAssign) and isinstance(st.target, ast.Name):
            return [(st.target.id, ast.BinOp(left=ast.Name(id=st.target.id, ctx=ast.Load()), op=st.op, right=st.value))]
        return None

    def is_skip(self, st) -> bool:
        if isinstance(st, ast.Expr) and isinstance(st.value, ast.Constant) and isinstance(st.value.value, str):
            return True
        if isinstance(st, ast.Assert):
            t = st.test
            if (isinstance(t, ast.Compare) and len(t.ops) == 1 and isinstance(t.ops[0], ast.IsNot)
                    and isinstance(t.comparators[0], ast.Constant) and t.comparators[0].value is None):
                return True      # Optional narrowing, outside the integer kernel
            raise Unsupported(f"assert other than `<e> is not None`: {self.src(st)[:80]}")
        return False

    def sym(self, stmts, env):
        """Evaluate an assignment-only branch symbolically: env → env'."""
        env = dict(env)
        for st in stmts:
            if self.is_skip(st):
                continue
            asg = self.assigned(st)
            if asg is not None:
                saved, self.env = self.env, env
                try:
                    val = self.int_expr(asg[0][1])
                finally:
                    self.env = saved
                for n, _ in asg:
                    env[n] = val
                continue
            if isinstance(st, ast.If):
                r = self.static(st.test)
                if r is not None:
                    env = self.sym(st.body if r else st.orelse, env)
                    continue
                saved, self.env = self.env, env
                try:
                    c = self.bool_prop(st.test)
                finally:
                    self.env = saved
                e1, e2 = self.sym(st.body, env), self.sym(st.orelse, env)
                for n in sorted(set(e1) | set(e2)):
                    a, b = e1.get(n), e2.get(n)
                    if a is None or b is None:
                        raise Unsupported(f"{n} is assigned on one path only and was not defined before")
                    if a != b:
                        env[n] = f"(if {c} then {a} else {b})"
                continue
            raise Unsupported(f"statement not in subset inside a merging branch: {self.src(st)[:80]}")
        return env

    def block(self, stmts, indent) -> str:
        pad = "  " * indent
        stmts = list(stmts)
        if not stmts:
            raise Unsupported("control reaches end of function without return")
        st, rest = stmts[0], stmts[1:]
        if self.is_skip(st):
            return self.block(rest, indent)
        asg = self.assigned(st)
        if asg is not None:
            rhs = self.int_expr(asg[0][1])      # evaluated once, before any target is rebound
            first = self.fresh(asg[0][0])
            out = f"{pad}let {first} : Int := {rhs}\n"
            self.env[asg[0][0]] = first
            for n, _ in asg[1:]:
                k = self.fresh(n)
                out += f"{pad}let {k} : Int := {first}\n"
                self.env[n] = k
            return out + self.block(rest, indent)
        if isinstance(st, ast.Return):
            if st.value is None:
                raise Unsupported("bare return")
            return f"{pad}{self.value(st.value)}\n"
        if isinstance(st, ast.Raise):
            if not self.spec.ret.startswith("Option"):
                raise Unsupported("raise in a total function")
            return f"{pad}none\n"
        if isinstance(st, ast.If):
            r = self.static(st.test)
            if r is not None:
                return self.block(list(st.body if r else st.orelse) + rest, indent)
            if self.terminates(st.body) and (not st.orelse or self.terminates(st.orelse)):
                if st.orelse and rest:
                    raise Unsupported("statements after a returning if/else")
                c = self.bool_prop(st.test)
                saved = (dict(self.env), dict(self.counter))
                a = self.block(st.body, indent + 1)
                self.env = dict(saved[0])
                b = self.block(list(st.orelse) if st.orelse else rest, indent + 1)
                return f"{pad}if {c} then\n{a}{pad}else\n{b}"
            # merging if: both branches only assign
            c = self.bool_prop(st.test)
            e1, e2 = self.sym(st.body, self.env), self.sym(st.orelse, self.env)
            out = ""
            for n in sorted(set(e1) | set(e2)):
                a, b = e1.get(n), e2.get(n)
                if a is None or b is None:
                    raise Unsupported(f"{n} is assigned on one path only and was not defined before")
                if a != b:
                    k = self.fresh(n)
                    out += f"{pad}let {k} : Int := if {c} then {a} else {b}\n"
                    e1[n] = k
            for n in e1:
                if n in e2:
                    self.env[n] = e1[n]
            return out + self.block(rest, indent)
        raise Unsupported(f"statement not in subset: {self.src(st)[:80]}")

    def render(self, fn: ast.FunctionDef) -> str:
        for k, v in self.spec.rename.items():
            if k.isidentifier():           # python parameters (possibly re-assigned later)
                self.env[k] = v
        return super().render(fn)


def require_stmt(fn: ast.FunctionDef, text: str) -> None:
    """The function's body (top level) contains a statement whose source is exactly `text`."""
    want = ast.unparse(ast.parse(text).body[0])
    if not any(ast.unparse(st) == want for st in fn.body):
        raise Unsupported(f"{fn.name}: expected statement `{want}` not found")


class SegLoop:
    """The shape of ftp.toSegments: a list-of-strings state folded over `<param>.split("<c>")`."""

    def __init__(self, state: str, elem: str, params: dict[str, str]):
        self.state, self.elem, self.params = state, elem, params   # params: python name → lean name

    @staticmethod
    def lit(node) -> str:
        if not (isinstance(node, ast.Constant) and isinstance(node.value, str)):
            raise Unsupported(f"not a string literal: {ast.unparse(node)}")
        if any(ord(ch) > 255 for ch in node.value):
            raise Unsupported(f"string literal outside latin-1: {ast.unparse(node)}")
        return "([" + ", ".join(str(ord(ch)) for ch in node.value) + "] : Str)"

    @staticmethod
    def char(node) -> str:
        if not (isinstance(node, ast.Constant) and isinstance(node.value, str) and len(node.value) == 1
                and ord(node.value) < 256):
            raise Unsupported(f"not a one-character latin-1 literal: {ast.unparse(node)}")
        return f"({ord(node.value)} : UInt8)"

    def text(self, node) -> str:
        if isinstance(node, ast.Name) and node.id == self.elem:
            return self.elem
        if isinstance(node, ast.Name) and node.id in self.params:
            return self.params[node.id]
        return self.lit(node)

    def cond(self, node, st: str | None) -> str:
        """Lean Prop (decidable); `st` is the current term of the state (None outside the loop)."""
        if isinstance(node, ast.BoolOp):
            op = " ∧ " if isinstance(node.op, ast.And) else " ∨ "
            return "(" + op.join(self.cond(v, st) for v in node.values) + ")"
        if isinstance(node, ast.UnaryOp) and isinstance(node.op, ast.Not):
            return f"(¬ {self.cond(node.operand, st)})"
        if isinstance(node, ast.Name) and node.id == self.state and st is not None:
            return f"({st} ≠ [])"
        if isinstance(node, ast.Compare) and len(node.ops) == 1:
            op, l, r = node.ops[0], node.left, node.comparators[0]
            if isinstance(op, (ast.Eq, ast.NotEq)):
                return f"({self.text(l)} {'=' if isinstance(op, ast.Eq) else '≠'} {self.text(r)})"
            if isinstance(op, (ast.In, ast.NotIn)):
                return f"({self.char(l)} {'∈' if isinstance(op, ast.In) else '∉'} {self.text(r)})"
        if (isinstance(node, ast.Call) and isinstance(node.func, ast.Attribute) and node.func.attr == "startswith"
                and len(node.args) == 1 and not node.keywords):
            return f"(List.isPrefixOf {self.lit(node.args[0])} {self.text(node.func.value)} = true)"
        raise Unsupported(f"condition not in subset: {ast.unparse(node)}")

    def body(self, stmts, st: str, indent: int, guarded: bool) -> str:
        """Lean term of type `Option (List Str)`: the state after this iteration, `none` = raise."""
        pad = "  " * indent
        stmts = list(stmts)
        if not stmts:
            return f"{pad}some {st}\n"
        s0, rest = stmts[0], stmts[1:]
        if isinstance(s0, ast.Continue):
            return f"{pad}some {st}\n"
        if isinstance(s0, ast.Raise):
            return f"{pad}none\n"
        if isinstance(s0, ast.Expr) and isinstance(s0.value, ast.Call) and isinstance(s0.value.func, ast.Attribute) \
                and isinstance(s0.value.func.value, ast.Name) and s0.value.func.value.id == self.state \
                and not s0.value.keywords:
            meth, args = s0.value.func.attr, s0.value.args
            if meth == "pop" and not args:
                if not guarded:
                    raise Unsupported(f"{self.state}.pop() not directly under `if {self.state}:` (IndexError possible)")
                return self.body(rest, f"({st}).dropLast", indent, False)
            if meth == "append" and len(args) == 1:
                return self.body(rest, f"({st} ++ [{self.text(args[0])}])", indent, guarded)
        if isinstance(s0, ast.If):
            g = isinstance(s0.test, ast.Name) and s0.test.id == self.state
            return (f"{pad}if {self.cond(s0.test, st)} then\n" + self.body(list(s0.body) + rest, st, indent + 1, g)
                    + f"{pad}else\n" + self.body(list(s0.orelse) + rest, st, indent + 1, False))
        raise Unsupported(f"loop statement not in subset: {ast.unparse(s0)[:80]}")

    def listexpr(self, node) -> str:
        s = ast.unparse(node)
        if s == "[]":
            return "([] : List Str)"
        for py, lean in self.params.items():
            if s in (f"{py}[:]", f"list({py})", f"{py}.copy()"):
                return lean
        raise Unsupported(f"initial state not in subset: {s}")

    def render(self, fn: ast.FunctionDef, leanname: str, lean_params: str) -> str:
        stmts = [st for st in fn.body
                 if not (isinstance(st, ast.Expr) and isinstance(st.value, ast.Constant) and isinstance(st.value.value, str))]
        if len(stmts) != 3:
            raise Unsupported(f"{fn.name}: expected `if .. init`, `for`, `return`")
        ini, loop, ret = stmts

        def single_init(b):
            if not (len(b) == 1 and isinstance(b[0], ast.Assign) and len(b[0].targets) == 1
                    and isinstance(b[0].targets[0], ast.Name) and b[0].targets[0].id == self.state):
                raise Unsupported(f"{fn.name}: initialisation branch is not `{self.state} = ...`")
            return self.listexpr(b[0].value)
        if not isinstance(ini, ast.If):
            raise Unsupported(f"{fn.name}: first statement is not the initialising if/else")
        init = f"if {self.cond(ini.test, None)} then {single_init(ini.body)} else {single_init(ini.orelse)}"
        if not (isinstance(loop, ast.For) and isinstance(loop.target, ast.Name) and loop.target.id == self.elem
                and not loop.orelse and isinstance(loop.iter, ast.Call) and isinstance(loop.iter.func, ast.Attribute)
                and loop.iter.func.attr == "split" and len(loop.iter.args) == 1 and not loop.iter.keywords):
            raise Unsupported(f"{fn.name}: loop is not `for {self.elem} in <text>.split(<c>)`")
        for sub in ast.walk(loop):
            if isinstance(sub, (ast.Break, ast.Return)):
                raise Unsupported(f"{fn.name}: break/return inside the loop")
        if not (isinstance(ret, ast.Return) and isinstance(ret.value, ast.Name) and ret.value.id == self.state):
            raise Unsupported(f"{fn.name}: does not end in `return {self.state}`")
        pieces = f"(pySplit {self.char(loop.iter.args[0])} {self.text(loop.iter.func.value)})"
        step = (f"/-- one iteration of the `for {self.elem} in ...` loop; `none` = the `raise` -/\n"
                f"def {leanname}Step ({self.state} : List Str) ({self.elem} : Str) : Option (List Str) :=\n"
                + self.body(loop.body, self.state, 1, False))
        top = (f"def {leanname} {lean_params} : Option (List Str) :=\n"
               f"  let {self.state} : List Str := {init}\n"
               f"  List.foldlM {leanname}Step {self.state} {pieces}\n")
        return step + "\n" + top


def find_function(tree: ast.Module, qual: str) -> ast.FunctionDef:
    parts = qual.split(".")
    body = tree.body
    node = None
    for p in parts:
        node = next((n for n in body if isinstance(n, (ast.ClassDef, ast.FunctionDef)) and n.name == p), None)
        if node is None:
            raise Unsupported(f"{qual}: not found in source")
        body = node.body
    if not isinstance(node, ast.FunctionDef):
        raise Unsupported(f"{qual}: not a function")
    return node


def find_init_assign(fn: ast.FunctionDef, attr: str) -> ast.expr:
    for st in ast.walk(fn):
        tgt = None
        if isinstance(st, ast.Assign) and len(st.targets) == 1:
            tgt = st.targets[0]
        elif isinstance(st, ast.AnnAssign):
            tgt = st.target
        if tgt is not None and ast.unparse(tgt) == f"self.{attr}" and st.value is not None:
            return st.value
    raise Unsupported(f"__init__ does not assign self.{attr}")


# ---------------------------------------------------------------------------------------
# Kernel: _rfc1982.SerialNumber (C34)

def gen_rfc1982(repo: Path) -> str:
    src = (repo / "src/twisted/names/_rfc1982.py").read_text()
    tree = ast.parse(src)
    out = [
        "/- GENERATED by harness/py2lean.py from src/twisted/names/_rfc1982.py — do not edit. -/",
        "namespace Generated.Rfc1982",
        "",
    ]
    init = find_function(tree, "SerialNumber.__init__")
    ren_init = {"nat:serialBits": "serialBits", "serialBits": "(serialBits : Int)", "number": "number",
                "int(number)": "number", "self._modulo": "(modulo serialBits)"}
    for attr, lean in (("_modulo", "modulo"), ("_halfRing", "halfRing"), ("_maxAdd", "maxAdd")):
        spec = FnSpec("SerialNumber.__init__", lean, [("serialBits", "Nat")], ren_init)
        expr = find_init_assign(init, attr)
        out.append(f"def {lean} (serialBits : Nat) : Int :=\n  {Tr(spec).int_expr(expr)}\n")
    spec = FnSpec("SerialNumber.__init__", "mk", [("number", "Int"), ("serialBits", "Nat")], ren_init)
    out.append(f"def mk (number : Int) (serialBits : Nat) : Int :=\n  {Tr(spec).int_expr(find_init_assign(init, '_number'))}\n")

    ren = {
        "self._number": "a", "other._number": "b", "other_sn._number": "b",
        "self._halfRing": "half", "self._maxAdd": "maxAdd", "self._modulo": "modulo",
    }
    cmp_params = [("a", "Int"), ("b", "Int"), ("half", "Int")]
    out.append(Tr(FnSpec("SerialNumber.__eq__", "eq", [("a", "Int"), ("b", "Int")], ren, "Bool")).render(
        find_function(tree, "SerialNumber.__eq__")))
    out.append(Tr(FnSpec("SerialNumber.__lt__", "lt", cmp_params, ren, "Bool")).render(
        find_function(tree, "SerialNumber.__lt__")))
    out.append(Tr(FnSpec("SerialNumber.__gt__", "gt", cmp_params, ren, "Bool")).render(
        find_function(tree, "SerialNumber.__gt__")))
    calls = {"self == other": "(B)(eq a b)", "self < other": "(B)(lt a b half)", "self > other": "(B)(gt a b half)"}
    out.append(Tr(FnSpec("SerialNumber.__le__", "le", cmp_params, ren, "Bool", calls)).render(
        find_function(tree, "SerialNumber.__le__")))
    out.append(Tr(FnSpec("SerialNumber.__ge__", "ge", cmp_params, ren, "Bool", calls)).render(
        find_function(tree, "SerialNumber.__ge__")))
    out.append(Tr(FnSpec("SerialNumber.__add__", "add",
                         [("a", "Int"), ("b", "Int"), ("maxAdd", "Int"), ("modulo", "Int")], ren, "Option Int")).render(
        find_function(tree, "SerialNumber.__add__")))
    out.append("end Generated.Rfc1982\n")
    return "\n".join(out)


# ---------------------------------------------------------------------------------------
# Kernel: task.LoopingCall._intervalOf and the howLong closure of _scheduleFrom (C10)

EXACT_DYADIC = ("times are integer ticks of 2^-k s small enough that float + - % are exact and the float "
                "quotient a / b, truncated by int(), is the truncated integer quotient (harness/corr/C10.py ASSUMES; "
                "run_impl asserts every observed time is an integral number of ticks)")


def gen_looping(repo: Path) -> str:
    src = (repo / "src/twisted/internet/task.py").read_text()
    tree = ast.parse(src)
    ren = {"self.starttime": "starttime", "self.interval": "interval", "t": "t", "when": "when"}
    out = [
        "/- GENERATED by harness/py2lean.py from src/twisted/internet/task.py — do not edit.",
        "   Time is Int ticks.  `%` is Int.fmod (Python's floored remainder).",
        f"   `int(a / b)` is Int.tdiv a b under the assumption: {EXACT_DYADIC}. -/",
        "namespace Generated.Looping",
        "",
    ]
    spec = FnSpec("LoopingCall._intervalOf", "intervalOf", [("starttime", "Int"), ("interval", "Int"), ("t", "Int")],
                  ren, "Int", floor_ops=True, exact_truediv=EXACT_DYADIC)
    out.append(Flow(spec).render(find_function(tree, "LoopingCall._intervalOf")))
    sched = find_function(tree, "LoopingCall._scheduleFrom")
    # the delay handed to callLater is howLong()'s result, and `when` is _scheduleFrom's parameter
    require_stmt(sched, "self.call = self.clock.callLater(howLong(), self)")
    if [a.arg for a in sched.args.args] != ["self", "when"]:
        raise Unsupported("_scheduleFrom: parameters are not (self, when)")
    hl = find_function(tree, "LoopingCall._scheduleFrom.howLong")
    if hl.args.args:
        raise Unsupported("howLong: takes parameters")
    spec = FnSpec("LoopingCall._scheduleFrom.howLong", "howLong",
                  [("starttime", "Int"), ("interval", "Int"), ("when", "Int")], ren, "Int", floor_ops=True)
    out.append(Flow(spec).render(hl))
    out.append("end Generated.Looping\n")
    return "\n".join(out)


# ---------------------------------------------------------------------------------------
# Kernel: static.File._rangeToOffsetAndSize (C25)

def gen_range(repo: Path) -> str:
    src = (repo / "src/twisted/web/static.py").read_text()
    tree = ast.parse(src)
    fn = find_function(tree, "File._rangeToOffsetAndSize")
    if [a.arg for a in fn.args.args] != ["self", "start", "end"]:
        raise Unsupported("_rangeToOffsetAndSize: parameters are not (self, start, end)")
    out = [
        "/- GENERATED by harness/py2lean.py from src/twisted/web/static.py — do not edit.",
        "   One definition per None-pattern of (start, end) that _parseRangeHeader can produce;",
        "   `x is None` is resolved statically in each.  `self.getFileSize()` is the parameter fileSize. -/",
        "namespace Generated.Range",
        "",
    ]
    ren = {"self.getFileSize()": "fileSize", "start": "start", "end": "stop"}
    for lean, params, nones in (
        ("r2osSuffix", [("fileSize", "Int"), ("stop", "Int")], {"start": True, "end": False}),
        ("r2osFrom", [("fileSize", "Int"), ("start", "Int")], {"start": False, "end": True}),
        ("r2osFromTo", [("fileSize", "Int"), ("start", "Int"), ("stop", "Int")], {"start": False, "end": False}),
    ):
        names = {n for n, _ in params}
        r = {k: v for k, v in ren.items() if v in names}
        spec = FnSpec("File._rangeToOffsetAndSize", lean, params, r, "Int × Int", nones=nones)
        out.append(Flow(spec).render(fn))
    out.append("end Generated.Range\n")
    return "\n".join(out)


# ---------------------------------------------------------------------------------------
# Kernel: abstract.FileDescriptor._isSendBufferFull (C14)

def gen_fd(repo: Path) -> str:
    src = (repo / "src/twisted/internet/abstract.py").read_text()
    tree = ast.parse(src)
    fn = find_function(tree, "FileDescriptor._isSendBufferFull")
    out = [
        "/- GENERATED by harness/py2lean.py from src/twisted/internet/abstract.py — do not edit.",
        "   `len(self.dataBuffer)` is the parameter dataBufferLen. -/",
        "namespace Generated.FD",
        "",
    ]
    ren = {"len(self.dataBuffer)": "(dataBufferLen : Int)", "self._tempDataLen": "(tempDataLen : Int)",
           "self.bufferSize": "(bufferSize : Int)"}
    spec = FnSpec("FileDescriptor._isSendBufferFull", "isSendBufferFull",
                  [("dataBufferLen", "Nat"), ("tempDataLen", "Nat"), ("bufferSize", "Nat")], ren, "Bool")
    out.append(Flow(spec).render(fn))
    out.append("end Generated.FD\n")
    return "\n".join(out)


# ---------------------------------------------------------------------------------------
# Kernel: ftp.toSegments (C54)

PY_SPLIT = """abbrev Str := List UInt8

/-- `str.split(sep)` for a one-character separator (always at least one piece). -/
def pySplit (sep : UInt8) : Str → List Str
  | [] => [[]]
  | c :: cs =>
    if c = sep then [] :: pySplit sep cs
    else match pySplit sep cs with
      | [] => [[c]]
      | p :: ps => (c :: p) :: ps
"""


def gen_ftp(repo: Path) -> str:
    src = (repo / "src/twisted/protocols/ftp.py").read_text()
    tree = ast.parse(src)
    fn = find_function(tree, "toSegments")
    if [a.arg for a in fn.args.args] != ["cwd", "path"]:
        raise Unsupported("toSegments: parameters are not (cwd, path)")
    out = [
        "/- GENERATED by harness/py2lean.py from src/twisted/protocols/ftp.py — do not edit.",
        "   Text is List UInt8 (code points < 256: the command channel is latin-1); `none` = raise InvalidPath.",
        "   The for-loop over path.split(\"/\") is List.foldlM of the step function in Option. -/",
        "namespace Generated.Ftp",
        "",
        PY_SPLIT,
        SegLoop("segs", "s", {"cwd": "cwd", "path": "path"}).render(fn, "toSegments", "(cwd : List Str) (path : Str)"),
        "end Generated.Ftp\n",
    ]
    return "\n".join(out)


KERNELS = {"Rfc1982": gen_rfc1982, "Looping": gen_looping, "Range": gen_range, "FD": gen_fd, "Ftp": gen_ftp}


def main(argv):
    repo = Path(argv[1]) if len(argv) > 1 else Path("/repo")
    outdir = Path(argv[2]) if len(argv) > 2 else Path(__file__).resolve().parent.parent / "lean" / "Generated"
    outdir.mkdir(parents=True, exist_ok=True)
    status = 0
    for name, gen in KERNELS.items():
        target = outdir / f"{name}.lean"
        try:
            text = gen(repo)
        except Exception as e:   # Unsupported, SyntaxError, OSError, or a bug in a generator: same outcome
            # Leave a file that cannot satisfy the equality theorems: the tie is broken.
            text = (f"/- GENERATED: translation FAILED: {e!s} -/\n"
                    f"namespace Generated.{name}\n"
                    f"def translationFailed : String := {ast.unparse(ast.Constant(str(e)))!s}\n".replace("'", '"')
                    + f"end Generated.{name}\n")
            print(f"py2lean: {name}: {e}", file=sys.stderr)
            status = 3
        if not target.exists() or target.read_text() != text:
            target.write_text(text)
    return status


if __name__ == "__main__":
    sys.exit(main(sys.argv))
