#!/venv/bin/python
"""Regenerate MANIFEST.json from harness/corr/C*.py (claimed) and properties.jsonl (the rest)."""
import importlib
import json
import os
import sys
from pathlib import Path

VERIF = Path(__file__).resolve().parent.parent
sys.path.insert(0, str(VERIF / "harness"))
sys.path.insert(0, os.environ.get("VERIF_REPO", "/repo") + "/src")

NOT_BUILT = ("not claimed in this round: the Lean model, theorem file and correspondence tie planned in "
             "DESIGN.md §7 are not built yet, and nothing is claimed before its tie runs (DESIGN §9)")
REASONS = {}   # property id → specific reason overriding NOT_BUILT

props = [json.loads(l) for l in (VERIF / "properties.jsonl").read_text().splitlines() if l.strip()]
claimed = sorted(p.stem for p in (VERIF / "harness" / "corr").glob("C*.py"))
checks = []
for pid in claimed:
    m = importlib.import_module(f"corr.{pid}")
    mf = getattr(m, "MANIFEST")
    checks.append({
        "property_id": pid,
        "quick_cmd": f"./check {pid} --tier quick",
        "thorough_cmd": f"./check {pid} --tier thorough",
        "evidence_file": f"evidence/{pid}.json",
        "replay_cmd_template": f"./check {pid} --replay {{path}}",
        "engine": "lean4+correspondence",
        "technique": mf.get("technique", "Lean 4 theorems over an executable model; differential correspondence with the real code"),
        "level_claimed": {"category": "proof", "text": mf["text"], "design_ref": mf.get("design_ref", "DESIGN.md §7")},
        "level_note": mf["note"],
    })
manifest = {
    "version": 1,
    "setup_cmd": "./check --setup",
    "hooks": {
        "guard": "TWISTED_VERIF",
        "enable": "no hooks are compiled into /repo; checks observe through fakes, subclassing and module-global patching (DESIGN §2)",
        "baseline_off_cmd": "cd /repo && /venv/bin/python -m pytest -ra -q -p no:cacheprovider --timeout=900 --continue-on-collection-errors",
        "source_commits": [],
        "add_only": True,
    },
    "engines": [{
        "name": "lean4+correspondence",
        "path": "check",
        "serves_properties": claimed,
        "kind_free_text": "Lean 4 (4.33, core only + single Mathlib modules in proofs) theorems over hand-written executable models "
                          "(lean/TwistedModel), property statements in lean/TwistedProps/Cnn.lean; tie = harness/corr/Cnn.py differential "
                          "run of the compiled model driver against real Twisted in-process, plus harness/py2lean.py regeneration for "
                          "arithmetic kernels; failing-input search on the implementation when a proof or the tie breaks",
    }],
    "checks": checks,
    "notes": "Every check: regenerate lean/Generated from /repo, lake build, #print axioms audit, correspondence + property oracle on the "
             "implementation, evidence. Exit 2 = infrastructure trouble (no verdict). See DESIGN.md.",
    "not_applicable": [
        {"property_id": p["id"], "reason": REASONS.get(p["id"], NOT_BUILT)}
        for p in props if p["id"] not in claimed
    ],
}
(VERIF / "MANIFEST.json").write_text(json.dumps(manifest, indent=1) + "\n")
print(f"claimed {len(checks)}; not claimed {len(manifest['not_applicable'])}")
