#!/bin/sh
# selftest.sh — what `vp check` does, locally: fresh clone of committed /verif, setup_cmd, every quick check once.
rm -rf /tmp/vselftest; git clone -q /verif /tmp/vselftest; cd /tmp/vselftest || exit 2
t0=$(date +%s); ./check --setup > /tmp/vselftest/setup.log 2>&1; echo "setup exit=$? $(( $(date +%s) - t0 ))s"
for id in $(./check --list); do
  rm -f evidence/$id.json
  t0=$(date +%s); out=$(./check $id --tier quick 2>&1); rc=$?
  ev=missing; [ -f evidence/$id.json ] && ev=ok
  echo "$id exit=$rc $(( $(date +%s) - t0 ))s evidence=$ev $(echo "$out" | grep -c VIOLATION) violations"
done
python3-vt - <<'PY'
import json, jsonschema, glob
s = json.load(open('/root/.vp/EVIDENCE.schema.json'))
bad = 0
for f in sorted(glob.glob('/tmp/vselftest/evidence/*.json')):
    try:
        jsonschema.validate(json.load(open(f)), s)
    except Exception as e:
        bad += 1; print("INVALID", f, str(e)[:200])
print("evidence files invalid:", bad)
jsonschema.validate(json.load(open('/tmp/vselftest/MANIFEST.json')), json.load(open('/root/.vp/MANIFEST.schema.json'))); print("manifest ok")
PY
