"""
fsim — an in-memory, crash-able filesystem (the Python twin of lean/TwistedModel/Fs/Sim.lean).

The real Twisted code (dirdbm, filepath, logfile, sob) is redirected here by patching the
module globals it calls (`os`, `glob`, `open`, `stat`, `listdir`, `exists`, `islink`, `_open`):
see `patched()`.  Nothing in here ever touches the real filesystem: every path must live
under the virtual root (an AssertionError otherwise).

Crash model (a *process* crash; the OS and the disk survive):
  * the mutating primitives are numbered 0,1,2,… in the order the code performs them:
        create (open "w…"/O_CREAT: new empty file or truncation), write (bytes reaching the OS),
        remove, rename, mkdir, rmdir
    non-mutating calls (stat/exists/listdir/glob/read/close/flush-of-nothing/chmod) are not
    numbered: a crash before or after them is the same state as at the neighbouring primitive;
  * `crash_at = (k, p)`: primitives 0..k-1 complete; primitive k does not happen, except that a
    `write` of data d leaves the prefix d[:p] in the file (p < len d); then `Crash` is raised and
    the filesystem is *dead*: every later call from the dying code (`finally:`/`except BaseException`
    handlers, `with` exits) raises `Crash` again and changes nothing — a killed process runs no handlers;
  * buffered files (`open(path, "wb")`, `os.fdopen`) keep written data in user space until
    flush()/close() (lost in a crash — the latest the data can reach the OS); unbuffered files
    (`open(path, mode, 0)`) hand every write() to the OS at once.  Because a `write` primitive may
    stop after any prefix, early flushing by a real BufferedWriter adds no crash state as long as
    no other primitive happens between write() and flush()/close() (true for all code driven here;
    were it not, the tie would see data in the wrong place).
  * rename is atomic (POSIX), open files follow their inode across renames.
"""
from __future__ import annotations

import builtins
import contextlib
import errno
import fnmatch
import os as _os
import posixpath
import stat as _stat

ROOT = "/fsim-virtual-root"


class Crash(BaseException):
    """The simulated process died here."""


class Inode:
    __slots__ = ("data",)

    def __init__(self):
        self.data = bytearray()


class SimFile:
    def __init__(self, fs, inode, readable, writable, buffered, append=False):
        self.fs, self.inode = fs, inode
        self.readable_, self.writable_, self.buffered = readable, writable, buffered
        self.pos = len(inode.data) if append else 0
        self.append = append
        self.buf = bytearray()
        self.closed = False

    # -- helpers
    def _alive(self):
        if self.fs.dead:
            raise Crash()
        if self.closed:
            raise ValueError("I/O operation on closed file.")

    def _wpos(self):
        return len(self.inode.data) if self.append else self.pos

    def _commit(self, data):
        p = self._wpos()
        self.inode.data[p:p + len(data)] = data
        self.pos = p + len(data)

    # -- file API
    def write(self, data):
        self._alive()
        if not self.writable_:
            raise OSError(errno.EBADF, "not writable")
        data = bytes(data)
        if self.buffered:
            self.buf += data
        else:
            self.fs._prim_write(self, data)
        return len(data)

    def flush(self):
        self._alive()
        if self.buf:
            data = bytes(self.buf)
            self.fs._prim_write(self, data)
            self.buf.clear()

    def close(self):
        if self.fs.dead:
            raise Crash()
        if self.closed:
            return
        try:
            self.flush()
        finally:
            self.closed = True

    def read(self, n=-1):
        self._alive()
        self.flush()
        d = bytes(self.inode.data[self.pos:] if n is None or n < 0 else self.inode.data[self.pos:self.pos + n])
        self.pos += len(d)
        return d

    def seek(self, off, whence=0):
        self._alive()
        self.flush()
        base = {0: 0, 1: self.pos, 2: len(self.inode.data)}[whence]
        self.pos = base + off
        return self.pos

    def tell(self):
        self._alive()
        return self.pos + len(self.buf)

    def truncate(self, size=None):
        raise NotImplementedError("fsim: truncate")

    def fileno(self):
        raise OSError("fsim: no fileno")

    def readable(self):
        return self.readable_

    def writable(self):
        return self.writable_

    def __enter__(self):
        self._alive()
        return self

    def __exit__(self, *a):
        self.close()
        return False


class FSim:
    def __init__(self, root=ROOT):
        self.root = root
        self.dirs = {root}
        self.files = {}            # absolute str path -> Inode
        self.n = 0                 # mutating primitives completed
        self.trace = []            # (kind, relative names…, write length)
        self.crash_at = None       # (k, p) or None
        self.dead = False
        self._fds = {}

    # -- paths -------------------------------------------------------------------------
    def P(self, path):
        if isinstance(path, bytes):
            path = path.decode("utf-8", "surrogateescape")
        path = posixpath.normpath(path)
        assert path == self.root or path.startswith(self.root + "/"), f"fsim: path outside the virtual root: {path!r}"
        return path

    def rel(self, path):
        return path[len(self.root) + 1:]

    def _name_of(self, inode):
        for k, v in self.files.items():
            if v is inode:
                return self.rel(k)
        return "<unlinked>"

    # -- the crash machinery -----------------------------------------------------------
    def _read(self):
        if self.dead:
            raise Crash()

    def _prim(self, kind, *names, length=None):
        """Call before performing a mutating non-write primitive; raises Crash if the cut is here."""
        if self.dead:
            raise Crash()
        if self.crash_at is not None and self.n == self.crash_at[0]:
            self.dead = True
            raise Crash()
        self.n += 1
        self.trace.append((kind,) + names + ((length,) if length is not None else ()))

    def _prim_write(self, f, data):
        if self.dead:
            raise Crash()
        if self.crash_at is not None and self.n == self.crash_at[0]:
            p = self.crash_at[1]
            if p:
                f._commit(data[:p])
            self.dead = True
            raise Crash()
        self.n += 1
        self.trace.append(("write", self._name_of(f.inode), len(data)))
        f._commit(data)

    # -- primitives --------------------------------------------------------------------
    def _parent_ok(self, p):
        d = posixpath.dirname(p)
        if d in self.files:
            raise NotADirectoryError(errno.ENOTDIR, "Not a directory", p)
        if d not in self.dirs:
            raise FileNotFoundError(errno.ENOENT, "No such file or directory", p)

    def open(self, path, mode="r", buffering=-1, **kw):
        self._read()
        p = self.P(path)
        m = mode.replace("b", "")
        assert "b" in mode, "fsim: text mode not supported"
        plus = "+" in m
        kind = m.replace("+", "")
        if p in self.dirs:
            raise IsADirectoryError(errno.EISDIR, "Is a directory", p)
        self._parent_ok(p)
        if kind == "r":
            if p not in self.files:
                raise FileNotFoundError(errno.ENOENT, "No such file or directory", p)
            return SimFile(self, self.files[p], True, plus, buffering != 0)
        if kind in ("w", "x"):
            if kind == "x" and p in self.files:
                raise FileExistsError(errno.EEXIST, "File exists", p)
            self._prim("create", self.rel(p))
            ino = self.files.get(p)
            if ino is None:
                ino = self.files[p] = Inode()
            else:
                del ino.data[:]
            return SimFile(self, ino, plus, True, buffering != 0)
        if kind == "a":
            if p not in self.files:
                self._prim("create", self.rel(p))
                self.files[p] = Inode()
            return SimFile(self, self.files[p], plus, True, buffering != 0, append=True)
        raise ValueError(f"fsim: mode {mode!r}")

    def os_open(self, path, flags, mode=0o777):
        self._read()
        p = self.P(path)
        if p in self.dirs:
            raise IsADirectoryError(errno.EISDIR, "Is a directory", p)
        self._parent_ok(p)
        if flags & _os.O_CREAT:
            if p in self.files:
                if flags & _os.O_EXCL:
                    raise FileExistsError(errno.EEXIST, "File exists", p)
                if flags & _os.O_TRUNC:
                    self._prim("create", self.rel(p))
                    del self.files[p].data[:]
            else:
                self._prim("create", self.rel(p))
                self.files[p] = Inode()
        elif p not in self.files:
            raise FileNotFoundError(errno.ENOENT, "No such file or directory", p)
        fd = 1000 + len(self._fds)
        self._fds[fd] = (self.files[p], flags)
        return fd

    def os_fdopen(self, fd, mode="r", buffering=-1, **kw):
        self._read()
        ino, flags = self._fds[fd]
        m = mode.replace("b", "")
        return SimFile(self, ino, "r" in m or "+" in m, "w" in m or "+" in m or "a" in m, buffering != 0,
                       append=bool(flags & _os.O_APPEND))

    def remove(self, path, **kw):
        self._read()
        p = self.P(path)
        if p in self.dirs:
            raise IsADirectoryError(errno.EISDIR, "Is a directory", p)
        if p not in self.files:
            raise FileNotFoundError(errno.ENOENT, "No such file or directory", p)
        self._prim("remove", self.rel(p))
        del self.files[p]

    def rename(self, src, dst, **kw):
        self._read()
        a, b = self.P(src), self.P(dst)
        if a in self.dirs:
            if b in self.files:
                raise NotADirectoryError(errno.ENOTDIR, "Not a directory", b)
            if b in self.dirs and self._children(b):
                raise OSError(errno.ENOTEMPTY, "Directory not empty", b)
            self._parent_ok(b)
            self._prim("rename", self.rel(a), self.rel(b))
            for d in sorted(self.dirs):
                if d == a or d.startswith(a + "/"):
                    self.dirs.discard(d)
                    self.dirs.add(b + d[len(a):])
            for f in list(self.files):
                if f.startswith(a + "/"):
                    self.files[b + f[len(a):]] = self.files.pop(f)
            return
        if a not in self.files:
            raise FileNotFoundError(errno.ENOENT, "No such file or directory", a)
        if b in self.dirs:
            raise IsADirectoryError(errno.EISDIR, "Is a directory", b)
        self._parent_ok(b)
        self._prim("rename", self.rel(a), self.rel(b))
        if a != b:
            self.files[b] = self.files.pop(a)

    def mkdir(self, path, mode=0o777, **kw):
        self._read()
        p = self.P(path)
        if p in self.dirs or p in self.files:
            raise FileExistsError(errno.EEXIST, "File exists", p)
        self._parent_ok(p)
        self._prim("mkdir", self.rel(p))
        self.dirs.add(p)

    def _children(self, p):
        pre = p + "/"
        return sorted({x[len(pre):].split("/")[0] for x in list(self.files) + list(self.dirs) if x.startswith(pre)})

    def rmdir(self, path, **kw):
        self._read()
        p = self.P(path)
        if p in self.files:
            raise NotADirectoryError(errno.ENOTDIR, "Not a directory", p)
        if p not in self.dirs:
            raise FileNotFoundError(errno.ENOENT, "No such file or directory", p)
        if self._children(p):
            raise OSError(errno.ENOTEMPTY, "Directory not empty", p)
        self._prim("rmdir", self.rel(p))
        self.dirs.discard(p)

    # -- queries -----------------------------------------------------------------------
    def stat(self, path, **kw):
        self._read()
        p = self.P(path)
        if p in self.dirs:
            return _os.stat_result((_stat.S_IFDIR | 0o755, 1, 1, 2, 0, 0, 0, 0, 0, 0))
        if p in self.files:
            return _os.stat_result((_stat.S_IFREG | 0o644, 1, 1, 1, 0, 0, len(self.files[p].data), 0, 0, 0))
        raise FileNotFoundError(errno.ENOENT, "No such file or directory", p)

    def exists(self, path):
        self._read()
        p = self.P(path)
        return p in self.dirs or p in self.files

    def isfile(self, path):
        self._read()
        return self.P(path) in self.files

    def isdir(self, path):
        self._read()
        return self.P(path) in self.dirs

    def islink(self, path):
        self._read()
        self.P(path)
        return False

    def listdir(self, path="."):
        self._read()
        p = self.P(path)
        if p in self.files:
            raise NotADirectoryError(errno.ENOTDIR, "Not a directory", p)
        if p not in self.dirs:
            raise FileNotFoundError(errno.ENOENT, "No such file or directory", p)
        names = self._children(p)
        return [n.encode("utf-8", "surrogateescape") for n in names] if isinstance(path, bytes) else names

    def glob(self, pattern, **kw):
        """glob.glob for patterns whose directory part is literal (sorted — real order is arbitrary)."""
        self._read()
        isb = isinstance(pattern, bytes)
        pat = pattern.decode("utf-8", "surrogateescape") if isb else pattern
        d, base = posixpath.split(pat)
        dp = self.P(d)
        if dp not in self.dirs:
            return []
        out = []
        for n in self._children(dp):
            if n.startswith(".") and not base.startswith("."):
                continue
            if fnmatch.fnmatchcase(n, base):
                out.append(posixpath.join(d, n))
        return [x.encode("utf-8", "surrogateescape") for x in out] if isb else out

    def access(self, path, mode, **kw):
        self._read()
        return self.exists(path)

    def chmod(self, path, mode, **kw):
        self._read()
        if not self.exists(path):
            raise FileNotFoundError(errno.ENOENT, "No such file or directory", path)

    def umask(self, m):
        return 0o022

    # -- harness side ------------------------------------------------------------------
    def snapshot(self, d=None):
        """{relative name: bytes} of the regular files directly in directory `d` (default: root)."""
        d = self.root if d is None else self.P(d)
        pre = d + "/"
        return {k[len(pre):]: bytes(v.data) for k, v in self.files.items()
                if k.startswith(pre) and "/" not in k[len(pre):]}

    def put(self, path, data):
        p = self.P(path)
        ino = self.files[p] = Inode()
        ino.data[:] = data

    def makedirs(self, path):
        p = self.P(path)
        parts = p[len(self.root):].strip("/").split("/")
        cur = self.root
        for x in parts:
            if x:
                cur = cur + "/" + x
                self.dirs.add(cur)

    def revive(self):
        """The crashed process is gone; a new process starts on the surviving filesystem."""
        self.dead = False
        self.crash_at = None
        self.n = 0
        self.trace = []
        self._fds = {}


class _PathProxy:
    def __init__(self, fs):
        self._fs = fs
        self.exists, self.isfile, self.isdir, self.islink = fs.exists, fs.isfile, fs.isdir, fs.islink
        self.lexists = fs.exists

    def getsize(self, p):
        return self._fs.stat(p).st_size

    def __getattr__(self, name):        # pure string functions: abspath/join/basename/dirname/…
        return getattr(posixpath, name)


class OsProxy:
    """Stands in for the `os` module inside a patched Twisted module."""

    def __init__(self, fs):
        self._fs = fs
        self.path = _PathProxy(fs)
        self.remove = self.unlink = fs.remove
        self.rename = self.replace = fs.rename
        self.mkdir, self.rmdir = fs.mkdir, fs.rmdir
        self.stat = self.lstat = fs.stat
        self.listdir = fs.listdir
        self.open, self.fdopen = fs.os_open, fs.os_fdopen
        self.access, self.chmod, self.umask = fs.access, fs.chmod, fs.umask

    def __getattr__(self, name):
        if name in ("makedirs", "removedirs", "renames", "truncate", "link", "symlink", "readlink", "scandir",
                    "walk", "utime", "chown", "write", "read", "close", "fsync", "ftruncate", "getcwd"):
            raise AssertionError(f"fsim: os.{name} is not simulated")
        return getattr(_os, name)           # constants: O_EXCL, sep, W_OK, …


class GlobProxy:
    def __init__(self, fs):
        self.glob = fs.glob


@contextlib.contextmanager
def patched(fs, *modules, extra=None):
    """Redirect the filesystem calls of the given Twisted modules to `fs` (restored on exit)."""
    osp, gp = OsProxy(fs), GlobProxy(fs)
    repl = {"os": osp, "glob": gp, "open": fs.open, "_open": fs.open, "stat": fs.stat, "listdir": fs.listdir,
            "exists": fs.exists, "islink": fs.islink}
    saved = []
    missing = object()
    try:
        for m in modules:
            for name, val in repl.items():
                if name == "open":
                    if "open" in m.__dict__ and m.__dict__["open"] is not builtins.open:
                        continue            # the module defines its own `open` (dirdbm.open); it uses `_open`
                elif not hasattr(m, name):
                    continue
                if True:
                    if name == "stat" and not callable(getattr(m, name, None)):
                        continue            # `import stat` (the module), as in logfile.py
                    if name == "glob" and callable(getattr(m, name, None)) and not hasattr(getattr(m, name), "glob"):
                        continue
                    saved.append((m, name, m.__dict__.get(name, missing)))
                    setattr(m, name, val)
        for (m, name, val) in (extra or []):
            saved.append((m, name, m.__dict__.get(name, missing)))
            setattr(m, name, val)
        yield fs
    finally:
        for m, name, old in reversed(saved):
            if old is missing:
                delattr(m, name)
            else:
                setattr(m, name, old)
