#!/bin/sh
# psoak.sh <tier> <parallelism> <seed>... — like soak.sh but runs several checks at once; log /tmp/psoak-<tier>.log
tier=$1; par=$2; shift 2
cd "$(dirname "$0")/.."
for seed in "$@"; do
  ./check --list | xargs -P $par -I{} sh -c 'out=$(VERIF_SEED='$seed' ./check {} --tier '$tier' 2>&1); rc=$?; last=$(printf "%s\n" "$out" | tail -1 | cut -c1-200); echo "seed='$seed' {} rc=$rc $last" >> /tmp/psoak-'$tier'.log; if [ $rc -ne 0 ] || printf "%s\n" "$out" | grep -q "^VIOLATION"; then echo "NOT-CLEAN seed='$seed' {} rc=$rc"; printf "%s\n" "$out" | grep -E "^VIOLATION|^#|Traceback|Error" | head -6; fi'
done
echo PSOAKDONE
