#!/bin/sh
# mutation_suite.sh [Cnn ...] — replay the stored white-box mutants (harness/mutants/<id>/*.diff) against the quick tier.
# MUT_EVERY=k replays every k-th mutant only.  One scratch worktree of /repo HEAD per run (under /tmp, removed afterwards). Prints one line per mutant: killed / SURVIVED / no-apply.
cd "$(dirname "$0")/.."
ids=${*:-$(ls harness/mutants 2>/dev/null)}
wt=/tmp/mutsuite-$$
git -C /repo worktree prune
git -C /repo worktree add -q --detach $wt HEAD || exit 2
every=${MUT_EVERY:-1}; n=0
for id in $ids; do
  for m in harness/mutants/$id/*.diff; do
    [ -f "$m" ] || continue
    n=$((n+1)); [ $((n % every)) -eq 0 ] || continue
    git -C $wt checkout -q -- . ; git -C $wt clean -fdq
    if ! git -C $wt apply "$PWD/$m" 2>/dev/null; then echo "$id $(basename $m) no-apply"; continue; fi
    VERIF_REPO=$wt ./check $id --tier quick >/dev/null 2>&1; rc=$?
    case $rc in 1) r=killed;; 0) r=SURVIVED;; *) r="infra-exit-$rc";; esac
    echo "$id $(basename $m) $r"
    git checkout -q -- evidence/$id.json 2>/dev/null
  done
done
git -C /repo worktree remove --force $wt; rm -rf $wt
