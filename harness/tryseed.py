#!/usr/bin/env python3
"""
tryseed.py <Cnn> <k> — confirm a seeded change produced by a breakage agent and run our check against it.

Input:  /tmp/seed-<id>-<k> (worktree with the change applied), /tmp/seed-<id>-<k>-out/{patch.diff,demo.py,meta.json}
Steps:  (1) the patch applies to /repo's HEAD in a fresh scratch worktree; (2) demo.py exits 0 without it and
        non-zero with it; (3) the existing tests the agent listed are re-run here with the patch (must pass);
        (4) `VERIF_REPO=<patched worktree> ./check <id>` quick (and thorough if quick misses it);
        (5) if confirmed, keep it as /verif/seeded/<id>-<k>/ (patch.diff, demo.py, meta.json incl. what was run and
        whether the check caught it).  Scratch worktrees are removed.
"""
import json, os, shutil, subprocess, sys, time
from pathlib import Path

pid, k = sys.argv[1], sys.argv[2]
out = Path(f"/tmp/seed-{pid}-{k}-out")
dest = Path(f"/verif/seeded/{pid}-{k}")
scratch = Path(f"/tmp/tryseed-{pid}-{k}")
PY = "/venv/bin/python"


def sh(cmd, cwd=None, env=None, timeout=3600):
    e = dict(os.environ); e.update(env or {})
    p = subprocess.run(cmd, cwd=cwd, env=e, shell=isinstance(cmd, str), capture_output=True, text=True, timeout=timeout)
    return p.returncode, (p.stdout + p.stderr)


meta = json.loads((out / "meta.json").read_text())
subprocess.run(["git", "-C", "/repo", "worktree", "prune"])
if scratch.exists():
    sh(["git", "-C", "/repo", "worktree", "remove", "--force", str(scratch)])
    shutil.rmtree(scratch, ignore_errors=True)
rc, o = sh(["git", "-C", "/repo", "worktree", "add", "-q", "--detach", str(scratch), "HEAD"])
assert rc == 0, o
report = {"property": pid, "base_commit": sh(["git", "-C", "/repo", "rev-parse", "--short", "HEAD"])[1].strip()}
try:
    env = {"PYTHONPATH": f"{scratch}/src"}
    # C17/C29: pyOpenSSL / priority are absent from /venv; the demo (only) runs with the same stand-ins the check uses
    denv = {"PYTHONPATH": f"{scratch}/src:/verif/harness/shims"} if pid in ("C17", "C29") else env
    rc0, o0 = sh([PY, str(out / "demo.py")], cwd=str(out), env=denv, timeout=900)
    report["demo_without_patch_exit"] = rc0
    tests = meta.get("existing_tests_run", [])
    files = sorted({w for t in tests for w in t.split() if w.endswith(".py") and "test" in w})
    files = [f for f in files if (scratch / f).exists()]

    def failing(label):
        if not files:
            return set()
        rc2, o2 = sh([PY, "-m", "pytest", "-q", "-p", "no:cacheprovider", "-rfE", "--timeout=900", *files],
                     cwd=str(scratch), env=env, timeout=3000)
        report.setdefault("existing_tests", {"files": files})[label] = o2.strip().splitlines()[-1:]
        return {l.split(" - ")[0] for l in o2.splitlines() if l.startswith(("FAILED ", "ERROR "))}
    fail_before = failing("without_patch")
    rc, o = sh(["git", "-C", str(scratch), "apply", "--index", str(out / "patch.diff")])
    report["patch_applies"] = rc == 0
    if rc != 0:
        report["apply_error"] = o[-500:]
    rc1, o1 = sh([PY, str(out / "demo.py")], cwd=str(out), env=denv, timeout=900)
    report["demo_with_patch_exit"] = rc1
    report["demo_with_patch_tail"] = o1[-600:]
    fail_after = failing("with_patch")
    report.setdefault("existing_tests", {})["newly_failing"] = sorted(fail_after - fail_before)
    report["existing_tests"]["exit_with_patch"] = 1 if (fail_after - fail_before) else 0
    t0 = time.time()
    rcq, oq = sh(["./check", pid, "--tier", "quick"], cwd="/verif", env={"VERIF_REPO": str(scratch)}, timeout=3000)
    report["check_quick"] = {"exit": rcq, "wall_s": round(time.time() - t0, 1),
                             "lines": [l for l in oq.splitlines() if l.startswith(("VIOLATION", "#", "KNOWN", pid))][:8]}
    if rcq == 0:
        t0 = time.time()
        rct, ot = sh(["./check", pid, "--tier", "thorough"], cwd="/verif", env={"VERIF_REPO": str(scratch)}, timeout=7000)
        report["check_thorough"] = {"exit": rct, "wall_s": round(time.time() - t0, 1),
                                    "lines": [l for l in ot.splitlines() if l.startswith(("VIOLATION", "#", "KNOWN", pid))][:8]}
    confirmed = report["patch_applies"] and rc0 == 0 and rc1 != 0 and report.get("existing_tests", {}).get("exit_with_patch", 0) == 0
    report["confirmed_breaks_property_and_passes_tests"] = bool(confirmed)
    caught = rcq == 1 or report.get("check_thorough", {}).get("exit") == 1
    report["caught_by_check"] = caught
    if confirmed:
        dest.mkdir(parents=True, exist_ok=True)
        shutil.copy(out / "patch.diff", dest / "patch.diff")
        shutil.copy(out / "demo.py", dest / "demo.py")
        meta["confirmation"] = report
        meta["what_was_run"] = ("harness/tryseed.py: patch applied to a scratch worktree of /repo HEAD; demo.py without/with patch; "
                                "listed existing tests with patch; VERIF_REPO=<patched worktree> ./check " + pid)
        (dest / "meta.json").write_text(json.dumps(meta, indent=1) + "\n")
    print(json.dumps(report, indent=1))
finally:
    sh(["git", "-C", "/repo", "worktree", "remove", "--force", str(scratch)])
    shutil.rmtree(scratch, ignore_errors=True)
    # restore evidence produced against the patched tree
    subprocess.run(["git", "-C", "/verif", "checkout", "--", f"evidence/{pid}.json"], capture_output=True)
