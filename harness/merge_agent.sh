#!/bin/sh
# merge_agent.sh <Cnn> — copy one property's files from /work/<Cnn>/verif into /verif
# (only that property's files; generated files are regenerated here).
set -e
id="$1"; w="/work/$id/verif"
cd "$w"
# every file added/changed in the clone relative to its root commit, except generated ones
base=$(git rev-list --max-parents=0 HEAD | tail -1)
git diff --name-only "$(git merge-base HEAD origin/HEAD 2>/dev/null || echo $base)" HEAD -- . \
  | grep -v -e '^MANIFEST.json$' -e '^lean/Driver/Main.lean$' -e '^known-findings.txt$' -e '^harness/engine.py$' \
  | while read f; do
      [ -f "$w/$f" ] || continue
      mkdir -p "/verif/$(dirname "$f")"
      cp "$w/$f" "/verif/$f"
      echo "  + $f"
    done
cd /verif
python3 harness/gen_main.py
/venv/bin/python harness/gen_manifest.py
