#!/bin/sh
# merge_agent.sh <workspace> — bring one workspace's changes from /work/<ws>/verif into /verif by a 3-way patch
# (so two workspaces that touched the same file merge like git would); generated files and evidence are
# excluded and regenerated here.
set -e
ws="$1"; w="/work/$ws/verif"
base=$(git -C "$w" merge-base HEAD origin/main 2>/dev/null || git -C "$w" rev-list --max-parents=0 HEAD | tail -1)
git -C "$w" diff --binary "$base" HEAD -- . ':!MANIFEST.json' ':!lean/Driver/Main.lean' ':!known-findings.txt' \
    ':!harness/engine.py' ':!evidence' > "/tmp/merge-$ws.patch"
cd /verif
if git apply -3 --whitespace=nowarn "/tmp/merge-$ws.patch" 2>"/tmp/merge-$ws.err"; then
  git -C "$w" diff --name-only "$base" HEAD | grep -v -e '^MANIFEST.json$' -e '^lean/Driver/Main.lean$' -e '^known-findings.txt$' -e '^evidence/' | sed 's/^/  + /'
else
  echo "3-way apply FAILED for $ws:"; cat "/tmp/merge-$ws.err" | tail -20; exit 1
fi
git reset -q     # apply -3 stages; leave everything unstaged for the caller's commit
touch "/work/$ws/.merged"
python3 harness/gen_main.py
/venv/bin/python harness/gen_manifest.py
