#!/bin/sh
# integrate.sh <Cnn> — merge a builder workspace: files → /verif, fix commits → /repo (cherry-pick), run the check.
set -e
id="$1"
base=$(git -C /repo rev-parse HEAD)
# fix commits in the workspace repo that are not in /repo yet
for c in $(git -C "/work/$id/repo" log --reverse --format=%H HEAD --not $(git -C /repo rev-parse HEAD) 2>/dev/null); do
  subj=$(git -C "/work/$id/repo" log -1 --format=%s "$c")
  case "$subj" in
    fix:*) git -C /repo cherry-pick "$c" >/dev/null
           # builders sometimes commit test-run litter with their fix: a fix commit touches src/ only
           git -C /repo show --name-only --format= HEAD | grep -v '^src/' | while IFS= read -r f; do
             git -C /repo rm -q --cached -- "$f"; rm -f -- "/repo/$f"; echo "  (dropped litter $f)"; done
           git -C /repo diff --cached --quiet || git -C /repo commit -q --amend --no-edit
           echo "cherry-picked: $subj -> $(git -C /repo rev-parse --short HEAD)";;
    *) echo "skipping non-fix commit: $subj";;
  esac
done
/verif/harness/merge_agent.sh "$id"
cd /verif && ./check "$id"
