#!/bin/sh
# integrate.sh <Cnn> — merge a builder workspace: files → /verif, fix commits → /repo (cherry-pick), run the check.
set -e
id="$1"
base=$(git -C /repo rev-parse HEAD)
# fix commits in the workspace repo that are not in /repo yet
for c in $(git -C "/work/$id/repo" log --reverse --format=%H HEAD --not $(git -C /repo rev-parse HEAD) 2>/dev/null); do
  subj=$(git -C "/work/$id/repo" log -1 --format=%s "$c")
  case "$subj" in
    fix:*) # apply only the src/ part of the commit (builders sometimes commit test-run litter with their fix)
           git -C "/work/$id/repo" format-patch -1 --stdout "$c" -- src/ | git -C /repo am -q
           echo "applied: $subj -> $(git -C /repo rev-parse --short HEAD)";;
    *) echo "skipping non-fix commit: $subj";;
  esac
done
/verif/harness/merge_agent.sh "$id"
cd /verif && ./check "$id"
