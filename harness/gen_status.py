#!/venv/bin/python
"""Rewrite the status table of DESIGN.md §10.2 (between the STATUS markers) from the corr modules, evidence and known-findings."""
import importlib, json, os, re, sys
from pathlib import Path
V = Path(__file__).resolve().parent.parent
sys.path.insert(0, str(V / "harness")); sys.path.insert(0, os.environ.get("VERIF_REPO", "/repo") + "/src")
kf = {}
for line in (V / "known-findings.txt").read_text().splitlines():
    m = re.match(r"(fixed|finding): property=(C\d+) (?:key=(\S+) )?(.*)", line)
    if m:
        kind, pid, key, text = m.groups()
        if kind == "fixed":
            h, text = text.split(" ", 1)
            kf.setdefault(pid, []).append(f"**fixed** (`{h}`): {text[:230]}")
        else:
            kf.setdefault(pid, []).append(f"**finding** `{key}`: {text[:230]}")
seeded = {}
for d in sorted((V / "seeded").glob("*")) if (V / "seeded").exists() else []:
    try:
        m = json.loads((d / "meta.json").read_text())
        c = m.get("confirmation", {})
        seeded.setdefault(m["property"], []).append(
            f"`seeded/{d.name}` ({m.get('summary','')[:110]}; needs: {m.get('needs','')[:110]}) → "
            + ("MISSED at first → check strengthened → caught by quick" if m.get("first_run_missed") else
               "caught by quick" if c.get("check_quick", {}).get("exit") == 1 else
               "caught by thorough" if c.get("check_thorough", {}).get("exit") == 1 else "MISSED"))
    except Exception as e:
        pass
rows = ["| id | theorems | headline theorem(s) | what the check found on the pinned tree → disposition |", "|----|----|----|----|"]
for f in sorted((V / "harness" / "corr").glob("C*.py")):
    pid = f.stem
    mod = importlib.import_module(f"corr.{pid}")
    ev = V / "evidence" / f"{pid}.json"
    n = "?"
    if ev.exists():
        c = json.loads(ev.read_text())["coverage"]
        n = f"{c.get('discharged')}/{c.get('obligations')}"
    head = getattr(mod, "HEADLINE", "").replace("TwistedProps." + pid + ".", "")
    rows.append(f"| {pid} | {n} | `{head[:120]}` | " + ("<br>".join(kf.get(pid, [])) or "nothing") + " |")
srows = ["| property | seeded change → result |", "|----|----|"]
for pid in sorted(seeded):
    for s in seeded[pid]:
        srows.append(f"| {pid} | {s} |")
p = V / "DESIGN.md"
s = p.read_text()
def put(s, tag, body):
    a, b = f"<!-- {tag}-BEGIN -->", f"<!-- {tag}-END -->"
    return s[:s.index(a) + len(a)] + "\n" + body + "\n" + s[s.index(b):]
# seeded changes the check missed at first, and the mutation-audit summary (DESIGN §10.5)
mrows = ["| seeded change | what the check did not generate (and what it does now) |", "|---|---|"]
for d in sorted((V / "seeded").glob("*")):
    try:
        m = json.loads((d / "meta.json").read_text())
    except Exception:
        continue
    if m.get("first_run_missed"):
        mrows.append(f"| `{d.name}` | " + m.get("strengthening", "").replace("|", "/").replace("\n", " ")[:700] + " |")
arows = ["| property | stored mutants | survived the check as it was (quick) | after strengthening |", "|---|---|---|---|"]
for d in sorted((V / "harness" / "mutants").glob("C*")):
    diffs = sorted(d.glob("*.diff"))
    readme = (d / "README.md").read_text() if (d / "README.md").exists() else ""
    surv = len(re.findall(r"SURVIVED", readme))
    arows.append(f"| {d.name} | {len(diffs)} | {surv} README line(s) mention SURVIVED | see `harness/mutants/{d.name}/README.md`; replay: `harness/mutation_suite.sh {d.name}` |")
if "<!-- MISSED-BEGIN -->" in s:
    s = put(s, "MISSED", "\n".join(mrows))
if "<!-- AUDIT-BEGIN -->" in s:
    s = put(s, "AUDIT", "\n".join(arows))
s = put(s, "STATUS", "\n".join(rows))
s = put(s, "SEEDED", "\n".join(srows))
p.write_text(s)
print(len(rows) - 2, "properties;", len(srows) - 2, "seeded changes")
