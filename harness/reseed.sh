#!/bin/sh
# reseed.sh <Cnn> <k> "<what was strengthened>" — re-run a seeded change that the check missed, after the check was strengthened
set -e
id=$1; k=$2; txt=$3; out=/tmp/seed-$id-$k-out
rm -rf $out; mkdir -p $out
cp /verif/seeded/$id-$k/patch.diff /verif/seeded/$id-$k/demo.py $out/
python3 - $id $k <<'PY'
import json, sys
pid, k = sys.argv[1:3]
m = json.load(open(f'/verif/seeded/{pid}-{k}/meta.json'))
first = m.pop('confirmation', None)
if 'first_run' not in m and first is not None:
    m['first_run'] = {kk: first.get(kk) for kk in ('check_quick', 'check_thorough', 'caught_by_check')}
json.dump(m, open(f'/tmp/seed-{pid}-{k}-out/meta.json', 'w'), indent=1)
PY
python3 /verif/harness/tryseed.py $id $k | grep -E '"caught_by_check"|"confirmed'
python3 - $id $k "$txt" <<'PY'
import json, sys
pid, k, txt = sys.argv[1:4]
p = f'/verif/seeded/{pid}-{k}/meta.json'
m = json.load(open(p)); m['first_run_missed'] = True; m['strengthening'] = txt
json.dump(m, open(p, 'w'), indent=1); open(p, 'a').write('\n')
PY
rm -rf $out
