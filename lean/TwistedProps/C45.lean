import TwistedProps.C45.Handlers
/-!
C45 — jelly enforces its security policy.

For **every** world (what names import and resolve to), policy (`SecurityOptions`), registry of
unjellyable classes / factories and s-expression, and every recursion budget, the model of
`_Unjellier.unjelly` (`TwistedModel/Spread/Jelly.lean`, the repaired `jelly.py`) either raises or

* `only_allowed_resolved` — logs only side effects the policy allows: every successful
  `__import__` is of an allowed module (or a parent package of one), every `namedAny` /
  `namedObject` call names an allowed module or a member of one, every class instantiated
  (`_createBlank`) is allowed or registered; this holds for the log also when unjelly raises;
* `result_types_allowed` — returns a value (and binds references to values) in which every
  module is an allowed module, every class an allowed class, every instance an instance of
  an allowed or registered class.

Proof: a Hoare triple `Sat` over the unjellier monad (state invariant `Good`: log and references
table allowed), one lemma per handler with the recursive call abstract (`Handlers.lean`), closed
by induction on the recursion budget.  The guard-before-use shape of each handler is exactly
what the lemmas use: the `function`, `instance` and `method` lemmas do not go through for the
unrepaired code (no class/module check on what `function` returns, none on the class `instance`
instantiates, none on what an unbound `method` returns) — see `known-findings.txt`, `fixed:`.

Round trip (`jelly_unjelly_roundtrip`): NOT proved in Lean.  It is checked on the real code only
(oracle `roundtrip` in `harness/corr/C45.py`: random allowed graphs with shared and cyclic
references, compared by graph isomorphism); the implementation violates it for an object used as
a dictionary key inside its own cycle (`known-findings.txt`, `finding:` roundtrip-notknown-dict-key).
What is missing for a proof: a model of `_Jellier` (`prepare/preserve/_cook`) over a heap of
object identities and of the in-place patching of `NotKnown` placeholders
(`resolveDependants`), and a bisimulation between the two heaps.
-/
namespace TwistedProps.C45
open Twisted.Spread.Jelly

variable {env : Env}

theorem mem_of_lookup_bytes {β : Type} {k : Bytes} {v : β} :
    ∀ {l : List (Bytes × β)}, l.lookup k = some v → (k, v) ∈ l
  | [], h => by simp at h
  | (k', v') :: l, h => by
    simp only [List.lookup] at h
    split at h
    · rename_i heq
      have : k = k' := by simpa using heq
      cases h; subst this; exact List.mem_cons_self
    · exact List.mem_cons_of_mem _ (mem_of_lookup_bytes h)

theorem regClass_mem {tb : Bytes} {c : Bool} {reg : RegEntry}
    (h : (if c = true then env.R.classes.lookup tb else none) = some reg) : reg.cls ∈ regClasses env.R := by
  split at h
  · have := mem_of_lookup_bytes h
    exact List.mem_append_left _ (List.mem_map.mpr ⟨(tb, reg), this, rfl⟩)
  · cases h

theorem regFactory_mem {tb : Bytes} {c : Bool} {k : ObjId}
    (h : (if c = true then env.R.factories.lookup tb else none) = some k) : k ∈ regClasses env.R := by
  split at h
  · have := mem_of_lookup_bytes h
    exact List.mem_append_right _ (List.mem_map.mpr ⟨(tb, k), this, rfl⟩)
  · cases h

/-- one level of `_Unjellier.unjelly` keeps the invariant if the recursive calls do -/
theorem sat_step {rec : Sexp → M Val} (hrec : ∀ s, Sat env (ValOK env) (rec s)) (s : Sexp) :
    Sat env (ValOK env) (step env rec s) := by
  unfold step
  split
  · exact sat_pure (valOK_nolabel rfl)
  · exact sat_raise
  · rename_i t rest
    refine sat_bind (sat_typeKey t) (fun tk _htk => ?_)
    refine sat_bind sat_guard (fun _u _hu => ?_)
    split
    · rename_i reg hreg
      have hc : reg.cls ∈ regClasses env.R := regClass_mem hreg
      refine sat_bind (sat_emit (Or.inr hc)) (fun _v _hv => ?_)
      split
      · refine sat_bind (sat_idx _ _) (fun sx _hsx => ?_)
        refine sat_bind (hrec sx) (fun state hst => ?_)
        exact sat_bind sat_guard (fun _w _hw => sat_pure (valOK_inst (Or.inr hc) hst))
      · exact sat_pure (valOK_inst (Or.inr hc) (valOK_nolabel (by simp [Val.labels, labelsL])))
    · split
      · rename_i fcls hf
        have hc : fcls ∈ regClasses env.R := regFactory_mem hf
        refine sat_bind (sat_idx _ _) (fun sx _hsx => ?_)
        exact sat_bind (hrec sx) (fun state hst => sat_pure (valOK_inst (Or.inr hc) hst))
      · refine sat_bind (sat_nativeString t) (fun text _ht => ?_)
        split
        · exact sat_handlerFor hrec text rest
        · refine sat_bind sat_guard (fun _v hmod => ?_)
          refine sat_bind (sat_namedObject hmod) (fun clz _hclz => ?_)
          refine sat_bind (sat_classAllowedM clz) (fun ok hok => ?_)
          refine sat_bind sat_guard (fun _w hg => ?_)
          refine sat_bind (sat_idx _ _) (fun sx _hsx => ?_)
          refine sat_bind (hrec sx) (fun state hst => ?_)
          exact sat_newInstance (Or.inl (hok hg)) hst

/-- `_Unjellier.unjelly` keeps the invariant, for every recursion budget -/
theorem sat_unjelly (fuel : Nat) : ∀ s, Sat env (ValOK env) (unjelly env fuel s) := by
  induction fuel with
  | zero => intro s; unfold unjelly; exact sat_raise
  | succ n ih => intro s; unfold unjelly; exact sat_step ih s

theorem good_init : Good env {} :=
  ⟨fun e he => by simp at he, fun kv hkv => by simp at hkv⟩

/-- **C45 (side effects).**  Whatever the world, the policy, the registry and the s-expression:
    every module imported, every name resolved and every class instantiated while unjellying is
    allowed by the policy (or registered as unjellyable) — also when unjelly ends in an error. -/
theorem only_allowed_resolved (env : Env) (fuel : Nat) (s : Sexp) :
    ∀ e ∈ (unjelly env fuel s {}).2.events, evOK env e :=
  ((sat_unjelly fuel s) {} good_init).1.events

/-- **C45 (result).**  If unjelly returns, every module in the result is an allowed module, every
    class an allowed class, every instance an instance of an allowed or registered class; the
    same for everything a `reference` id was bound to. -/
theorem result_types_allowed (env : Env) (fuel : Nat) (s : Sexp) (v : Val)
    (h : (unjelly env fuel s {}).1 = .ok v) :
    (∀ l ∈ v.labels, labelOK env l) ∧
      ∀ kv ∈ (unjelly env fuel s {}).2.refs, ∀ l ∈ kv.2.labels, labelOK env l :=
  ⟨((sat_unjelly fuel s) {} good_init).2 v h, ((sat_unjelly fuel s) {} good_init).1.refs⟩

/-- the entry point `jelly.unjelly(sexp, taster)` -/
theorem unjellyFull_allowed (env : Env) (s : Sexp) :
    (∀ e ∈ (unjellyFull env s).2.events, evOK env e) ∧
      ∀ v, (unjellyFull env s).1 = .ok v → ∀ l ∈ v.labels, labelOK env l :=
  ⟨only_allowed_resolved env _ s, fun v h => (result_types_allowed env _ s v h).1⟩

/-- Corollary in the words of the statement: a successful import of `name` during unjelly means
    `name` is an allowed module or a parent package of one. -/
theorem never_imports_disallowed (env : Env) (fuel : Nat) (s : Sexp) (name : String)
    (h : Event.imp name true ∈ (unjelly env fuel s {}).2.events) :
    ∃ m, env.P.isModuleAllowed m = true ∧ nameOrParent name m :=
  only_allowed_resolved env fuel s _ h rfl

/-- Corollary: a class is instantiated only if the policy allows it or it is registered. -/
theorem never_instantiates_disallowed (env : Env) (fuel : Nat) (s : Sexp) (c : ObjId)
    (h : Event.newInst c ∈ (unjelly env fuel s {}).2.events) :
    env.P.isClassAllowed c = true ∨ c ∈ regClasses env.R :=
  only_allowed_resolved env fuel s _ h

/-- `SecurityOptions.isTypeAllowed` lets every dotted name through (the class check comes later). -/
theorem isTypeAllowed_of_dot (p : Policy) (t : Bytes) (h : (46 : UInt8) ∈ t) : p.isTypeAllowed t = true := by
  simp [Policy.isTypeAllowed, h]

/-! ### Non-vacuity: the predicates are not trivially true, and the guards are reachable -/

/-- a policy that allows nothing beyond `SecurityOptions()` -/
def strict (W : World) : Env := ⟨W, Policy.init, ⟨[], []⟩⟩

example (W : World) : ¬ evOK (strict W) (.imp "os" true) := by
  simp [evOK, strict, Policy.init, Policy.isModuleAllowed]

example (W : World) : ¬ evOK (strict W) (.newInst "subprocess.Popen") := by
  simp [evOK, strict, Policy.init, Policy.isClassAllowed, regClasses]

example (W : World) : ¬ labelOK (strict W) (.instOf "subprocess.Popen") := by
  simp [labelOK, strict, Policy.init, Policy.isClassAllowed, regClasses]

/-- with `os` allowed the import event is allowed: the predicate is satisfiable -/
example (W : World) : evOK ⟨W, Policy.init.allowModules [utf8 "os"], ⟨[], []⟩⟩ (.imp "os" true) := by
  intro _
  exact ⟨"os", by simp [Policy.isModuleAllowed, Policy.allowModules, Policy.init], Or.inl rfl⟩

/-- the module handler really emits the import when the policy allows it (an execution, not a predicate) -/
example (W : World) (hW : W.importable "os" = true) :
    ((hModule ⟨W, Policy.init.allowModules [utf8 "os"], ⟨[], []⟩⟩ [.atom (.str "os")]) {}).2.events
      = [.imp "os" true] := by
  have h1 : isAscii "os" = true := by decide
  have h2 : (Policy.init.allowModules [utf8 "os"]).isModuleAllowed "os" = true := by
    simp [Policy.isModuleAllowed, Policy.allowModules, Policy.init]
  simp [hModule, idx, nativeString, h1, guardM, h2, pyImport, hW, emit, bind, M.bind, pure, M.pure]

end TwistedProps.C45
