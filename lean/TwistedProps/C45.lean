import TwistedProps.C45.Handlers
import TwistedProps.C45.RoundTrip
/-!
C45 — jelly enforces its security policy.

For **every** world (what names import and resolve to), policy (`SecurityOptions`), registry of
unjellyable classes / factories and s-expression, and every recursion budget, the model of
`_Unjellier.unjelly` (`TwistedModel/Spread/Jelly.lean`, the repaired `jelly.py`) either raises or

* `only_allowed_resolved` — logs only side effects the policy allows: every successful
  `__import__` is of an allowed module (or a parent package of one), every `namedAny` /
  `namedObject` call names an allowed module or a member of one, every class instantiated
  (`_createBlank`) is allowed or registered; this holds for the log also when unjelly raises;
* `result_types_allowed` — returns a value (and binds references to values) in which every
  module is an allowed module, every class an allowed class, every instance an instance of
  an allowed or registered class.

Proof: a Hoare triple `Sat` over the unjellier monad (state invariant `Good`: log and references
table allowed), one lemma per handler with the recursive call abstract (`Handlers.lean`), closed
by induction on the recursion budget.  The guard-before-use shape of each handler is exactly
what the lemmas use: the `function`, `instance` and `method` lemmas do not go through for the
unrepaired code (no class/module check on what `function` returns, none on the class `instance`
instantiates, none on what an unbound `method` returns) — see `known-findings.txt`, `fixed:`.

Round trip (second half of the statement), over the heap model `TwistedModel/Spread/JellyHeap.lean`
(`_Jellier` with `prepare` / `preserve` / `_cook`, `_Unjellier` over a heap of objects with the `NotKnown`
placeholders of `crefutil` and their in-place patching; tied to the real `jelly.jelly` / `jelly.unjelly` on every
random graph of the round-trip generator, cyclic ones included):

* `jelly_unjelly_roundtrip_partial` — PROVED for every **acyclic** graph of lists, tuples, sets, frozensets,
  dicts and instances-with-state, with arbitrary **sharing** (an object referenced from many places, shared
  tuples / frozensets / instance `__dict__`s included): whenever `jelly` returns, `unjelly` of its output returns a
  heap and a root that are a copy of the original - an injective renaming of the reachable objects that commutes
  with shapes, leaves and edges (`RT.Iso`), so sharing is preserved exactly.
* `roundtrip_dict_key_counterexample` — the recorded finding roundtrip-notknown-dict-key on the model
  (`b.__dict__ = {b: b}` raises AssertionError), and `roundtrip_instance_state_counterexample` — the finding
  roundtrip-notknown-instance-state found while building this proof (`a.me = a; jelly(vars(a))`: the copy of `a`
  has lost its state).  Both replayed on the real code (corpus of `harness/corr/C45.py`).
* cyclic graphs: NOT proved.  Full statement (kept here):
      ∀ graph g of allowed objects in which no object is a dictionary key inside its own cycle
        [and no instance's state object is reached before the instance inside its own cycle],
        unjelly (jelly g) ≅ g  (same shape, same sharing, same cycles).
  What is missing: the invariant for `NotKnown` placeholders - while an object is in progress the copies of its
  back references are `_Dereference` placeholders registered in `dependants`; `resolveDependants` must be shown to
  patch exactly the slots that hold the placeholder (lists, dict values), and for tuples / sets / frozensets inside
  a cycle the cascade `_Container.__setitem__` → `resolveDependants` has to be followed.  In the proof below the
  acyclicity hypothesis is used at one point only (`hback` in `RT.step_succ`); the cyclic executions are covered
  by the differential tie and by the concrete runs at the end of this file (`example`s), not by a theorem.
-/
namespace TwistedProps.C45
open Twisted.Spread.Jelly

variable {env : Env}

theorem mem_of_lookup_bytes {β : Type} {k : Bytes} {v : β} :
    ∀ {l : List (Bytes × β)}, l.lookup k = some v → (k, v) ∈ l
  | [], h => by simp at h
  | (k', v') :: l, h => by
    simp only [List.lookup] at h
    split at h
    · rename_i heq
      have : k = k' := by simpa using heq
      cases h; subst this; exact List.mem_cons_self
    · exact List.mem_cons_of_mem _ (mem_of_lookup_bytes h)

theorem regClass_mem {tb : Bytes} {c : Bool} {reg : RegEntry}
    (h : (if c = true then env.R.classes.lookup tb else none) = some reg) : reg.cls ∈ regClasses env.R := by
  split at h
  · have := mem_of_lookup_bytes h
    exact List.mem_append_left _ (List.mem_map.mpr ⟨(tb, reg), this, rfl⟩)
  · cases h

theorem regFactory_mem {tb : Bytes} {c : Bool} {k : ObjId}
    (h : (if c = true then env.R.factories.lookup tb else none) = some k) : k ∈ regClasses env.R := by
  split at h
  · have := mem_of_lookup_bytes h
    exact List.mem_append_right _ (List.mem_map.mpr ⟨(tb, k), this, rfl⟩)
  · cases h

/-- one level of `_Unjellier.unjelly` keeps the invariant if the recursive calls do -/
theorem sat_step {rec : Sexp → M Val} (hrec : ∀ s, Sat env (ValOK env) (rec s)) (s : Sexp) :
    Sat env (ValOK env) (step env rec s) := by
  unfold step
  split
  · exact sat_pure (valOK_nolabel rfl)
  · exact sat_raise
  · rename_i t rest
    refine sat_bind (sat_typeKey t) (fun tk _htk => ?_)
    refine sat_bind sat_guard (fun _u _hu => ?_)
    split
    · rename_i reg hreg
      have hc : reg.cls ∈ regClasses env.R := regClass_mem hreg
      refine sat_bind (sat_emit (Or.inr hc)) (fun _v _hv => ?_)
      split
      · refine sat_bind (sat_idx _ _) (fun sx _hsx => ?_)
        refine sat_bind (hrec sx) (fun state hst => ?_)
        exact sat_bind sat_guard (fun _w _hw => sat_pure (valOK_inst (Or.inr hc) hst))
      · exact sat_pure (valOK_inst (Or.inr hc) (valOK_nolabel (by simp [Val.labels, labelsL])))
    · split
      · rename_i fcls hf
        have hc : fcls ∈ regClasses env.R := regFactory_mem hf
        refine sat_bind (sat_idx _ _) (fun sx _hsx => ?_)
        exact sat_bind (hrec sx) (fun state hst => sat_pure (valOK_inst (Or.inr hc) hst))
      · refine sat_bind (sat_nativeString t) (fun text _ht => ?_)
        split
        · exact sat_handlerFor hrec text rest
        · refine sat_bind sat_guard (fun _v hmod => ?_)
          refine sat_bind (sat_namedObject hmod) (fun clz _hclz => ?_)
          refine sat_bind (sat_classAllowedM clz) (fun ok hok => ?_)
          refine sat_bind sat_guard (fun _w hg => ?_)
          refine sat_bind (sat_idx _ _) (fun sx _hsx => ?_)
          refine sat_bind (hrec sx) (fun state hst => ?_)
          exact sat_newInstance (Or.inl (hok hg)) hst

/-- `_Unjellier.unjelly` keeps the invariant, for every recursion budget -/
theorem sat_unjelly (fuel : Nat) : ∀ s, Sat env (ValOK env) (unjelly env fuel s) := by
  induction fuel with
  | zero => intro s; unfold unjelly; exact sat_raise
  | succ n ih => intro s; unfold unjelly; exact sat_step ih s

theorem good_init : Good env {} :=
  ⟨fun e he => by simp at he, fun kv hkv => by simp at hkv⟩

/-- **C45 (side effects).**  Whatever the world, the policy, the registry and the s-expression:
    every module imported, every name resolved and every class instantiated while unjellying is
    allowed by the policy (or registered as unjellyable) — also when unjelly ends in an error. -/
theorem only_allowed_resolved (env : Env) (fuel : Nat) (s : Sexp) :
    ∀ e ∈ (unjelly env fuel s {}).2.events, evOK env e :=
  ((sat_unjelly fuel s) {} good_init).1.events

/-- **C45 (result).**  If unjelly returns, every module in the result is an allowed module, every
    class an allowed class, every instance an instance of an allowed or registered class; the
    same for everything a `reference` id was bound to. -/
theorem result_types_allowed (env : Env) (fuel : Nat) (s : Sexp) (v : Val)
    (h : (unjelly env fuel s {}).1 = .ok v) :
    (∀ l ∈ v.labels, labelOK env l) ∧
      ∀ kv ∈ (unjelly env fuel s {}).2.refs, ∀ l ∈ kv.2.labels, labelOK env l :=
  ⟨((sat_unjelly fuel s) {} good_init).2 v h, ((sat_unjelly fuel s) {} good_init).1.refs⟩

/-- the entry point `jelly.unjelly(sexp, taster)` -/
theorem unjellyFull_allowed (env : Env) (s : Sexp) :
    (∀ e ∈ (unjellyFull env s).2.events, evOK env e) ∧
      ∀ v, (unjellyFull env s).1 = .ok v → ∀ l ∈ v.labels, labelOK env l :=
  ⟨only_allowed_resolved env _ s, fun v h => (result_types_allowed env _ s v h).1⟩

/-- Corollary in the words of the statement: a successful import of `name` during unjelly means
    `name` is an allowed module or a parent package of one. -/
theorem never_imports_disallowed (env : Env) (fuel : Nat) (s : Sexp) (name : String)
    (h : Event.imp name true ∈ (unjelly env fuel s {}).2.events) :
    ∃ m, env.P.isModuleAllowed m = true ∧ nameOrParent name m :=
  only_allowed_resolved env fuel s _ h rfl

/-- Corollary: a class is instantiated only if the policy allows it or it is registered. -/
theorem never_instantiates_disallowed (env : Env) (fuel : Nat) (s : Sexp) (c : ObjId)
    (h : Event.newInst c ∈ (unjelly env fuel s {}).2.events) :
    env.P.isClassAllowed c = true ∨ c ∈ regClasses env.R :=
  only_allowed_resolved env fuel s _ h

/-- `SecurityOptions.isTypeAllowed` lets every dotted name through (the class check comes later). -/
theorem isTypeAllowed_of_dot (p : Policy) (t : Bytes) (h : (46 : UInt8) ∈ t) : p.isTypeAllowed t = true := by
  simp [Policy.isTypeAllowed, h]

/-! ### The policy API in every argument form (`allowModules` / `allowTypes` of bytes, str, module / class objects)

The theorems above quantify over every `Policy`, hence over policies built through any of these forms; what is
added here is that a form allows exactly what it names. -/

theorem contains_append' (xs ys : List Bytes) (b : Bytes) :
    (xs ++ ys).contains b = (xs.contains b || ys.contains b) := by
  induction xs with
  | nil => simp
  | cons x xs ih => rw [List.cons_append, List.contains_cons, List.contains_cons, ih, Bool.or_assoc]

theorem contains_map_key (as : List ModArg) (b : Bytes) :
    (as.map ModArg.key).contains b = as.any (fun a => b == a.key) := by
  induction as with
  | nil => rfl
  | cons a as ih => rw [List.map_cons, List.contains_cons, ih, List.any_cons]

/-- `allowModules(*args)` allows exactly the modules allowed before plus the names the arguments stand for (a str
    as its utf-8 bytes, a module object as its `__name__`) — never a parent package, never a submodule. -/
theorem allowModuleArgs_exact (p : Policy) (as : List ModArg) (name : String) :
    (p.allowModuleArgs as).isModuleAllowed name
      = (p.isModuleAllowed name || as.any (fun a => utf8 name == a.key)) := by
  unfold Policy.allowModuleArgs Policy.allowModules Policy.isModuleAllowed
  simp only [contains_append', contains_map_key]

/-- … and changes neither the allowed classes nor the allowed types. -/
theorem allowModuleArgs_classes_types (p : Policy) (as : List ModArg) :
    (p.allowModuleArgs as).classes = p.classes ∧ (p.allowModuleArgs as).types = p.types := ⟨rfl, rfl⟩

/-- `allowTypes(SomeClass, …)` adds nothing: the policy is unchanged. -/
theorem allowTypeArgs_classes_nothing (p : Policy) (ks : List ObjId) :
    p.allowTypeArgs (ks.map TypeArg.cls) = p := by
  have h : (ks.map TypeArg.cls).filterMap TypeArg.key? = [] := by
    induction ks with
    | nil => rfl
    | cons k ks ih => simp [TypeArg.key?]
  simp [Policy.allowTypeArgs, Policy.allowTypes, h]

/-- `allowTypes` never touches the allowed modules or classes, whatever the argument forms. -/
theorem allowTypeArgs_modules_classes (p : Policy) (as : List TypeArg) :
    (p.allowTypeArgs as).modules = p.modules ∧ (p.allowTypeArgs as).classes = p.classes := ⟨rfl, rfl⟩

/-- Corollary in the words of the statement, for a policy that allows modules by module object only: a successful
    import during unjelly is of a module `m` whose name is (has the utf-8 bytes of) the `__name__` of one of those
    module objects, or of a parent package of such an `m`. -/
theorem never_imports_disallowed_module_objects (W : World) (R : Registry) (mods : List String) (fuel : Nat)
    (s : Sexp) (name : String)
    (h : Event.imp name true ∈ (unjelly ⟨W, Policy.init.allowModuleArgs (mods.map .obj), R⟩ fuel s {}).2.events) :
    ∃ m, (∃ n ∈ mods, utf8 m = utf8 n) ∧ nameOrParent name m := by
  obtain ⟨m, hm, hn⟩ := never_imports_disallowed _ fuel s name h
  refine ⟨m, ?_, hn⟩
  have hm' : (Policy.init.allowModuleArgs (mods.map .obj)).isModuleAllowed m = true := hm
  rw [allowModuleArgs_exact] at hm'
  have h0 : Policy.init.isModuleAllowed m = false := by simp [Policy.isModuleAllowed, Policy.init]
  rw [h0, Bool.false_or, List.any_eq_true] at hm'
  obtain ⟨a, ha, hk⟩ := hm'
  obtain ⟨n, hn', rfl⟩ := List.mem_map.1 ha
  exact ⟨n, hn', by simpa [ModArg.key] using hk⟩

/-- non-vacuity: allowing the module object `c45safe.sub` allows the name `c45safe.sub` … -/
example : (Policy.init.allowModuleArgs [.obj "c45safe.sub"]).isModuleAllowed "c45safe.sub" = true := by
  simp [Policy.allowModuleArgs, Policy.allowModules, Policy.isModuleAllowed, Policy.init, ModArg.key]

/-- … and a name is refused unless some argument stands for it (here: class objects given to `allowTypes` and an
    empty `allowModules` allow no module at all) -/
example (ks : List ObjId) (name : String) :
    ((Policy.init.allowTypeArgs (ks.map .cls)).allowModuleArgs []).isModuleAllowed name = false := by
  rw [allowTypeArgs_classes_nothing, allowModuleArgs_exact]
  simp [Policy.isModuleAllowed, Policy.init]

/-! ### Non-vacuity: the predicates are not trivially true, and the guards are reachable -/

/-- a policy that allows nothing beyond `SecurityOptions()` -/
def strict (W : World) : Env := ⟨W, Policy.init, ⟨[], []⟩⟩

example (W : World) : ¬ evOK (strict W) (.imp "os" true) := by
  simp [evOK, strict, Policy.init, Policy.isModuleAllowed]

example (W : World) : ¬ evOK (strict W) (.newInst "subprocess.Popen") := by
  simp [evOK, strict, Policy.init, Policy.isClassAllowed, regClasses]

example (W : World) : ¬ labelOK (strict W) (.instOf "subprocess.Popen") := by
  simp [labelOK, strict, Policy.init, Policy.isClassAllowed, regClasses]

/-- with `os` allowed the import event is allowed: the predicate is satisfiable -/
example (W : World) : evOK ⟨W, Policy.init.allowModules [utf8 "os"], ⟨[], []⟩⟩ (.imp "os" true) := by
  intro _
  exact ⟨"os", by simp [Policy.isModuleAllowed, Policy.allowModules, Policy.init], Or.inl rfl⟩

/-- the module handler really emits the import when the policy allows it (an execution, not a predicate) -/
example (W : World) (hW : W.importable "os" = true) :
    ((hModule ⟨W, Policy.init.allowModules [utf8 "os"], ⟨[], []⟩⟩ [.atom (.str "os")]) {}).2.events
      = [.imp "os" true] := by
  have h1 : isAscii "os" = true := by decide
  have h2 : (Policy.init.allowModules [utf8 "os"]).isModuleAllowed "os" = true := by
    simp [Policy.isModuleAllowed, Policy.allowModules, Policy.init]
  simp [hModule, idx, nativeString, h1, guardM, h2, pyImport, hW, emit, bind, M.bind, pure, M.pure]


/-! ### Round trip -/

section RoundTrip
open Twisted.Spread.JellyHeap

/-- **C45 (round trip, acyclic graphs with sharing) — partial.**
    For every class table `env`, every heap `h` of lists, tuples, sets, frozensets, dicts and instances that is
    well formed (`RT.WF`: leaves carry leaf tags, dicts are flat key/value lists with distinct keys, an instance has
    one state kid and its class name resolves back to its class, an instance without `__setstate__` has `None` or
    a non-empty dict as state) and **acyclic** (`rk` decreases along every edge), every root and every recursion
    budget: if `jelly` returns then `unjelly` of what it returned succeeds, and the new heap with the new root is a
    copy of the old one (`RT.Iso`: an injective renaming `φ` of the objects, defined on the root and closed under
    kids, with `new[φ a] = rename φ old[a]`) - so every shared object is still shared, exactly once.
    MISSING (see the header): graphs with cycles. -/
theorem jelly_unjelly_roundtrip_partial (env : Twisted.Spread.JellyHeap.Env) (h : Heap) (rk : Addr → Nat)
    (hwf : RT.WF env h rk) (root : Ref) (hroot : RT.RefOK root) (fuel : Nat) (t : JT) (sJ : JSt)
    (hj : jelly env h fuel root {} = .ok (t, sJ)) :
    ∃ r' sU, Twisted.Spread.JellyHeap.unjelly env (render env sJ.cooked t) = .ok (r', sU) ∧
      RT.Iso h root sU.heap r' :=
  RT.roundtrip_acyclic hwf root hroot fuel t sJ hj

/-- the same through the entry points `jelly.jelly` / `jelly.unjelly` -/
theorem jellyFull_unjelly_roundtrip_partial (env : Twisted.Spread.JellyHeap.Env) (h : Heap) (rk : Addr → Nat)
    (hwf : RT.WF env h rk) (root : Ref) (hroot : RT.RefOK root) (fuel : Nat) (sx : Twisted.Spread.Jelly.Sexp)
    (hj : jellyFull env h fuel root = .ok sx) :
    ∃ r' sU, Twisted.Spread.JellyHeap.unjelly env sx = .ok (r', sU) ∧ RT.Iso h root sU.heap r' := by
  unfold jellyFull at hj
  split at hj
  · rename_i t s hjj
    cases hj
    exact RT.roundtrip_acyclic hwf root hroot fuel t s hjj
  · cases hj

namespace RTX

/-- a class table with one class `A.B` (no `__setstate__`) -/
def env1 : Twisted.Spread.JellyHeap.Env where
  qual _ := [65, 46, 66]
  classAllowed _ := true
  resolve t := if t = [65, 46, 66] then some "A.B" else none
  hasSetstate _ := false

def isAssertion : Except Twisted.Spread.Jelly.Err (Ref × USt) → Bool
  | .error .assertion => true
  | _ => false

def run (h : Heap) (root : Ref) : Except Twisted.Spread.Jelly.Err (Ref × List DObj) :=
  match jellyFull env1 h 20 root with
  | .ok sx => match Twisted.Spread.JellyHeap.unjelly env1 sx with
    | .ok (r, s) => .ok (r, s.heap)
    | .error e => .error e
  | .error e => .error e

/-- `b = B(); b.__dict__ = {b: b}` -/
def hKey : Heap := [⟨.inst "A.B", [.ptr 1]⟩, ⟨.dict, [.ptr 0, .ptr 0]⟩]
/-- `t = (7,); g = [t, t]` -/
def hShared : Heap := [⟨.list, [.ptr 1, .ptr 1]⟩, ⟨.tuple, [.imm (.atom (.int 7))]⟩]
/-- `l = []; l.append(l)` -/
def hCycle : Heap := [⟨.list, [.ptr 0]⟩]
/-- `t = (l,); l = [t]; g = [l, t]`: a tuple inside a cycle, shared again after the cycle closed -/
def hTupleCycle : Heap := [⟨.list, [.ptr 1, .ptr 2]⟩, ⟨.list, [.ptr 2]⟩, ⟨.tuple, [.ptr 1]⟩]
/-- `a = A(); a.m = a; g = vars(a)` -/
def hState : Heap := [⟨.dict, [.imm (.atom (.bytes [109])), .ptr 1]⟩, ⟨.inst "A.B", [.ptr 0]⟩]

theorem wf_shared : RT.WF env1 hShared (fun a => if a = 0 then 1 else 0) := by
  refine ⟨?_, ?_, ?_, ?_, ?_⟩
  · intro a o ha b hb
    rcases a with _ | _ | a <;> simp [hShared] at ha
    · subst ha; simp at hb; subst hb; simp
    · subst ha; simp at hb
  · intro a o ha r hr
    rcases a with _ | _ | a <;> simp [hShared] at ha
    · subst ha; simp at hr; subst hr; trivial
    · subst ha; simp at hr; subst hr; trivial
  · intro a ks ha
    rcases a with _ | _ | a <;> simp [hShared] at ha
  · intro a ks ha
    rcases a with _ | _ | a <;> simp [hShared] at ha
  · intro a c ks ha
    rcases a with _ | _ | a <;> simp [hShared] at ha

end RTX

open RTX in
/-- non-vacuity: the hypotheses of `jelly_unjelly_roundtrip_partial` hold of a graph with a shared tuple, `jelly`
    returns on it, and the conclusion follows -/
example : ∃ r' sU t sJ, jelly env1 hShared 9 (.ptr 0) {} = .ok (t, sJ) ∧
    Twisted.Spread.JellyHeap.unjelly env1 (render env1 sJ.cooked t) = .ok (r', sU) ∧
    RT.Iso hShared (.ptr 0) sU.heap r' := by
  have hj : ∃ t sJ, jelly env1 hShared 9 (.ptr 0) {} = .ok (t, sJ) := by
    have hb : (match jelly env1 hShared 9 (.ptr 0) {} with | .ok _ => true | .error _ => false) = true := by decide
    cases h : jelly env1 hShared 9 (.ptr 0) {} with
    | ok v => exact ⟨v.1, v.2, rfl⟩
    | error e => rw [h] at hb; simp at hb
  obtain ⟨t, sJ, hj⟩ := hj
  obtain ⟨r', sU, h1, h2⟩ := jelly_unjelly_roundtrip_partial env1 hShared _ wf_shared (.ptr 0) trivial 9 t sJ hj
  exact ⟨r', sU, t, sJ, hj, h1, h2⟩

open RTX in
/-- the shared tuple is jellied once, as `[reference, 1, [tuple, 7]]`, then `[dereference, 1]` -/
example : (match jellyFull env1 hShared 9 (.ptr 0) with
    | .ok (.list [_, .list [.atom (.bytes r), .atom (.int 1), _], .list [.atom (.bytes d), .atom (.int 1)]]) =>
      r == tReference && d == tDereference
    | _ => false) = true := by decide

open RTX in
/-- **Finding roundtrip-notknown-dict-key on the model**: an object used as a dictionary key inside its own cycle
    (`b.__dict__ = {b: b}`) jellies, and unjellying that raises AssertionError (`NotKnown.__hash__`). -/
theorem roundtrip_dict_key_counterexample :
    (match jellyFull env1 hKey 20 (.ptr 0) with
      | .ok sx => isAssertion (Twisted.Spread.JellyHeap.unjelly env1 sx)
      | .error _ => false) = true := by decide

open RTX in
/-- **Finding roundtrip-notknown-instance-state on the model**: `a.m = a; g = vars(a)`.  The dict comes back, its
    value is an instance, but that instance's state is `None` (an empty `__dict__`) instead of the dict:
    `_newInstance` was handed the `_Dereference` placeholder and `defaultSetter` dropped it. -/
theorem roundtrip_instance_state_counterexample :
    (match run hState (.ptr 0) with
      | .ok (.ptr 0, [.obj .dict [_, .ptr 2], _, .obj (.inst _) [st]]) => st == noneLeaf
      | _ => false) = true := by decide

open RTX in
/-- a cyclic list comes back cyclic (execution of the model, the placeholder patched in place) -/
example : (match run hCycle (.ptr 0) with
    | .ok (.ptr 0, (.obj .list [.ptr 0]) :: _) => true
    | _ => false) = true := by decide

open RTX in
/-- a tuple inside a cycle, shared again afterwards: `_Tuple` resolved by the cascade, one tuple object -/
example : (match run hTupleCycle (.ptr 0) with
    | .ok (.ptr 0, (.obj .list [.ptr 1, .ptr t]) :: (.obj .list [.ptr t']) :: _) => t == t'
    | _ => false) = true := by decide +kernel

end RoundTrip

end TwistedProps.C45
