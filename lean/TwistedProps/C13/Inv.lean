import TwistedModel.Reactor.ThreadQueue
/-!
C13 — the invariant of the `callFromThread` step relation and its preservation by every step.
-/
namespace TwistedProps.C13
open Twisted.Reactor.ThreadQueue

/-- the calls thread `t` has issued when it has issued `n` of them, in issue order -/
def issueList (t n : Nat) : List Call := (List.range n).map (Call.mk t)

/-- `c` was issued by thread `t` -/
def byThread (t : Nat) (c : Call) : Bool := c.thread == t

/-- queue entries the pass of `runUntilCurrent` in progress is not going to look at -/
def unseen (s : State) : List Call :=
  match s.pc with
  | .check1 | .total | .read => []
  | .fetch | .del => s.queue.drop s.total
  | .check2 | .selfwake | .poll => s.queue

/-- no thread is between the `append` and the `wakeUp` of `callFromThread` -/
def quiet (s : State) : Prop := ∀ t, s.pw t = false

structure Inv (s : State) : Prop where
  /-- per thread, what ran followed by what is pending is exactly the issue order -/
  fifo : ∀ t, (s.ran ++ pending s).filter (byThread t) = issueList t (s.issued t)
  totB : s.pc = .total → s.queue ≠ []
  fetchB : s.pc = .fetch → s.count < s.total ∧ s.total ≤ s.queue.length
  delB : s.pc = .del → s.count = s.total ∧ s.total ≤ s.queue.length
  /-- an entry the current pass will not see is covered by a wake-up: delivered, or still to be delivered -/
  covered : unseen s ≠ [] → 0 < s.waker ∨ ∃ t, s.pw t = true

theorem issueList_succ (t n : Nat) : issueList t (n + 1) = issueList t n ++ [⟨t, n⟩] := by
  simp [issueList, List.range_succ]

theorem wake_pos (cfg : Cfg) (w : Nat) : 0 < wake cfg w := by
  unfold wake
  split <;> omega

theorem done_le (s : State) (h : Inv s) : done s ≤ s.queue.length := by
  unfold done
  split
  · have := h.fetchB ‹_›; omega
  · have := h.delB ‹_›; omega
  · omega

theorem inv_init : Inv init := by
  constructor <;> simp [init, pending, done, issueList, unseen]

theorem inv_initIdle : Inv initIdle := by
  constructor <;> simp [initIdle, init, pending, done, issueList, unseen]

/-! ### counting -/

theorem count_issueList (c : Call) (t n : Nat) :
    (issueList t n).count c = if c.thread = t ∧ c.idx < n then 1 else 0 := by
  induction n with
  | zero => simp [issueList]
  | succ n ih =>
    rw [issueList_succ, List.count_append, ih]
    rcases c with ⟨ct, ci⟩
    by_cases h1 : ct = t
    · by_cases h2 : ci = n
      · subst h1 h2; simp
      · have : ¬ (Call.mk t n = Call.mk ct ci) := by
          intro h; injection h with _ h; exact h2 h.symm
        have hb : (Call.mk t n == Call.mk ct ci) = false := by simpa using this
        simp only [List.count_cons, List.count_nil, h1, true_and]
        have h2' : ¬ n = ci := fun h => h2 h.symm
        by_cases h3 : ci < n
        · have : ci < n + 1 := by omega
          simp [h3, this, h2']
        · have : ¬ ci < n + 1 := by omega
          simp [h3, this, h2']
    · have : ¬ (Call.mk t n = Call.mk ct ci) := by
        intro h; injection h with h _; exact h1 h.symm
      have hb : (Call.mk t n == Call.mk ct ci) = false := by simpa using this
      simp [List.count_cons, hb, h1]

theorem accounting_of_inv (s : State) (h : Inv s) (c : Call) :
    s.ran.count c + (pending s).count c = if c.idx < s.issued c.thread then 1 else 0 := by
  have hf := h.fifo c.thread
  have hc : byThread c.thread c = true := by simp [byThread]
  rw [← List.count_append, ← List.count_filter hc, hf, count_issueList]
  simp

/-- a prefix of an issue list is an issue list -/
theorem prefix_issueList (t n : Nat) (a b : List Call) (h : a ++ b = issueList t n) :
    ∃ k, k ≤ n ∧ a = issueList t k := by
  refine ⟨a.length, ?_, ?_⟩
  · have := congrArg List.length h
    simp [issueList] at this
    omega
  · have h1 : a = (a ++ b).take a.length := by simp
    rw [h1, h]
    have hle : a.length ≤ n := by
      have := congrArg List.length h
      simp [issueList] at this
      omega
    simp [issueList, ← List.map_take, List.take_range, Nat.min_eq_left hle]

/-! ### producer steps -/

theorem fifo_append (ran q : List Call) (d : Nat) (hd : d ≤ q.length) (t u : Nat) (iss : Nat → Nat)
    (h : (ran ++ q.drop d).filter (byThread u) = issueList u (iss u)) :
    (ran ++ (q ++ [(⟨t, iss t⟩ : Call)]).drop d).filter (byThread u)
      = issueList u (upd iss t (iss t + 1) u) := by
  rw [List.drop_append_of_le_length hd, ← List.append_assoc, List.filter_append, h]
  by_cases hu : u = t
  · subst hu
    simp [upd, byThread, issueList_succ]
  · have : byThread u ⟨t, iss t⟩ = false := by
      simp [byThread]; exact fun h => hu h.symm
    simp [upd, hu, this]

theorem inv_threadStep (cfg : Cfg) (t : Nat) (s : State) (h : Inv s) : Inv (threadStep cfg t s) := by
  have hd := done_le s h
  obtain ⟨hf, htb, hfb, hdb, hcov⟩ := h
  rcases s with ⟨q, ran, w, pc, tot, cnt, iss, pw⟩
  dsimp only at hf htb hfb hdb hcov hd
  by_cases hp : pw t = true
  · -- the wakeUp
    simp only [threadStep, hp, if_true]
    refine ⟨hf, htb, hfb, hdb, ?_⟩
    intro _
    exact Or.inl (wake_pos cfg w)
  · -- the append
    have hp' : pw t = false := by simpa using hp
    simp only [threadStep, hp', Bool.false_eq_true, if_false]
    refine ⟨?_, ?_, ?_, ?_, ?_⟩
    · intro u
      exact fifo_append ran q _ hd t u iss (hf u)
    · intro hpc
      simp
    · intro hpc
      have := hfb hpc
      simp only [List.length_append, List.length_singleton] at this ⊢
      omega
    · intro hpc
      have := hdb hpc
      simp only [List.length_append, List.length_singleton] at this ⊢
      omega
    · intro _
      exact Or.inr ⟨t, by simp [upd]⟩

/-! ### reactor steps -/

theorem inv_reactorStep (cfg : Cfg) (s : State) (h : Inv s) : Inv (reactorStep cfg s) := by
  obtain ⟨hf, htb, hfb, hdb, hcov⟩ := h
  rcases s with ⟨q, ran, w, pc, tot, cnt, iss, pw⟩
  dsimp only at htb hfb hdb
  cases pc with
  | check1 =>
    simp only [pending, done, unseen, List.drop_zero] at hf hcov
    by_cases hq : q.isEmpty = true
    · have hq' : q = [] := by simpa using hq
      simp only [reactorStep, hq, if_true]
      refine ⟨?_, by simp, by simp, by simp, ?_⟩
      · simpa [pending, done] using hf
      · simp [unseen, hq']
    · simp only [reactorStep, hq]
      refine ⟨?_, ?_, by simp, by simp, ?_⟩
      · simpa [pending, done] using hf
      · intro _; simpa using hq
      · simp [unseen]
  | total =>
    simp only [pending, done, unseen, List.drop_zero] at hf hcov
    have hq := htb rfl
    simp only [reactorStep]
    refine ⟨?_, by simp, ?_, by simp, ?_⟩
    · simpa [pending, done] using hf
    · intro _
      exact ⟨List.length_pos_iff.mpr hq, Nat.le_refl _⟩
    · simp [unseen]
  | fetch =>
    obtain ⟨h1, h2⟩ := hfb rfl
    simp only [pending, done, unseen] at hf hcov
    have hlt : cnt < q.length := by omega
    have hget : q[cnt]? = some q[cnt] := List.getElem?_eq_getElem hlt
    simp only [reactorStep, hget]
    have hdrop : q.drop cnt = q[cnt] :: q.drop (cnt + 1) := List.drop_eq_getElem_cons hlt
    by_cases he : cnt + 1 = tot
    · simp only [he, if_true]
      refine ⟨?_, by simp, by simp, ?_, ?_⟩
      · intro u
        have := hf u
        rw [hdrop] at this
        simpa [pending, done, he] using this
      · intro _; exact ⟨rfl, h2⟩
      · simpa [unseen] using hcov
    · simp only [he, if_false]
      refine ⟨?_, by simp, ?_, by simp, ?_⟩
      · intro u
        have := hf u
        rw [hdrop] at this
        simpa [pending, done] using this
      · intro _
        refine ⟨?_, h2⟩
        show cnt + 1 < tot
        omega
      · simpa [unseen] using hcov
  | del =>
    obtain ⟨h1, h2⟩ := hdb rfl
    simp only [pending, done, unseen] at hf hcov
    simp only [reactorStep]
    refine ⟨?_, by simp, by simp, by simp, ?_⟩
    · simpa [pending, done] using hf
    · subst h1
      simpa [unseen] using hcov
  | check2 =>
    simp only [pending, done, unseen, List.drop_zero] at hf hcov
    by_cases hq : q.isEmpty = true
    · simp only [reactorStep, hq, if_true]
      refine ⟨?_, by simp, by simp, by simp, ?_⟩
      · simpa [pending, done] using hf
      · simpa [unseen] using hcov
    · simp only [reactorStep, hq]
      refine ⟨?_, by simp, by simp, by simp, ?_⟩
      · simpa [pending, done] using hf
      · simpa [unseen] using hcov
  | selfwake =>
    simp only [pending, done, unseen, List.drop_zero] at hf hcov
    simp only [reactorStep]
    refine ⟨?_, by simp, by simp, by simp, ?_⟩
    · simpa [pending, done] using hf
    · intro hu
      have hu' : q ≠ [] := by simpa [unseen] using hu
      rcases hcov hu' with hw | hp
      · left
        show 0 < (if cfg.selfWake = true then wake cfg w else w)
        split
        · exact wake_pos cfg w
        · exact hw
      · exact Or.inr hp
  | poll =>
    simp only [pending, done, unseen, List.drop_zero] at hf hcov
    by_cases hw : w = 0
    · simp only [reactorStep, hw, if_true]
      subst hw
      refine ⟨?_, by simp, by simp, by simp, ?_⟩
      · simpa [pending, done] using hf
      · simpa [unseen] using hcov
    · simp only [reactorStep, hw, if_false]
      refine ⟨?_, by simp, by simp, by simp, ?_⟩
      · simpa [pending, done] using hf
      · simp [unseen]
  | read =>
    simp only [pending, done, unseen, List.drop_zero] at hf hcov
    simp only [reactorStep]
    refine ⟨?_, by simp, by simp, by simp, ?_⟩
    · simpa [pending, done] using hf
    · simp [unseen]

theorem inv_step (cfg : Cfg) (s : State) (a : Actor) (h : Inv s) : Inv (step cfg s a) := by
  cases a with
  | reactor => exact inv_reactorStep cfg s h
  | thread t => exact inv_threadStep cfg t s h

theorem inv_run (cfg : Cfg) (sched : List Actor) (s : State) (h : Inv s) : Inv (run cfg sched s) := by
  induction sched generalizing s with
  | nil => exact h
  | cons a rest ih => exact ih _ (inv_step cfg s a h)

theorem inv_rsteps (cfg : Cfg) (k : Nat) (s : State) (h : Inv s) : Inv (rsteps cfg k s) := by
  induction k generalizing s with
  | zero => exact h
  | succ k ih => exact ih _ (inv_reactorStep cfg s h)

end TwistedProps.C13
