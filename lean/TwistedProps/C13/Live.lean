import TwistedProps.C13.Inv
/-!
C13 — progress: once every `callFromThread` has returned, the reactor alone drains the queue.
A lexicographic measure (entries the current pass will not see, position inside the pass),
packed into one natural number, decreases with every reactor step while something is pending.
-/
namespace TwistedProps.C13
open Twisted.Reactor.ThreadQueue

/-- steps left in the current pass of the main loop (upper bound) -/
def pos (s : State) : Nat :=
  match s.pc with
  | .read => s.queue.length + 7
  | .check1 => s.queue.length + 6
  | .total => s.queue.length + 5
  | .fetch => (s.total - s.count) + 3
  | .del => 3
  | .check2 => 2
  | .selfwake => 1
  | .poll => 0

/-- bound on the number of reactor steps until nothing is pending -/
def mu (s : State) : Nat := (unseen s).length * (2 * s.queue.length + 20) + pos s

theorem pw_reactorStep (cfg : Cfg) (s : State) : (reactorStep cfg s).pw = s.pw := by
  unfold reactorStep
  split <;> (try split) <;> rfl

theorem issued_reactorStep (cfg : Cfg) (s : State) : (reactorStep cfg s).issued = s.issued := by
  unfold reactorStep
  split <;> (try split) <;> rfl

theorem quiet_reactorStep (cfg : Cfg) (s : State) (h : quiet s) : quiet (reactorStep cfg s) := by
  intro t; rw [pw_reactorStep]; exact h t

theorem quiet_rsteps (cfg : Cfg) (k : Nat) (s : State) (h : quiet s) : quiet (rsteps cfg k s) := by
  induction k generalizing s with
  | zero => exact h
  | succ k ih => exact ih _ (quiet_reactorStep cfg s h)

theorem issued_rsteps (cfg : Cfg) (k : Nat) (s : State) : (rsteps cfg k s).issued = s.issued := by
  induction k generalizing s with
  | zero => rfl
  | succ k ih => rw [rsteps, ih, issued_reactorStep]

/-- nothing pending stays nothing pending while only the reactor runs -/
theorem pending_nil_reactorStep (cfg : Cfg) (s : State) (h : Inv s) (hp : pending s = []) :
    pending (reactorStep cfg s) = [] := by
  obtain ⟨hf, htb, hfb, hdb, hcov⟩ := h
  rcases s with ⟨q, ran, w, pc, tot, cnt, iss, pw⟩
  dsimp only at htb hfb hdb
  cases pc with
  | fetch =>
    obtain ⟨h1, h2⟩ := hfb rfl
    simp only [pending, done, List.drop_eq_nil_iff] at hp
    omega
  | del =>
    simp only [pending, done] at hp
    simp [reactorStep, pending, done, hp]
  | check1 =>
    simp only [pending, done, List.drop_zero] at hp
    subst hp
    simp [reactorStep, pending, done]
  | total =>
    simp only [pending, done, List.drop_zero] at hp
    exact absurd hp (htb rfl)
  | check2 =>
    simp only [pending, done, List.drop_zero] at hp
    subst hp
    simp [reactorStep, pending, done]
  | selfwake =>
    simp only [pending, done, List.drop_zero] at hp
    subst hp
    simp [reactorStep, pending, done]
  | poll =>
    simp only [pending, done, List.drop_zero] at hp
    subst hp
    by_cases hw : w = 0 <;> simp [reactorStep, pending, done, hw]
  | read =>
    simp only [pending, done, List.drop_zero] at hp
    subst hp
    simp [reactorStep, pending, done]

theorem pending_nil_rsteps (cfg : Cfg) (k : Nat) (s : State) (h : Inv s) (hp : pending s = []) :
    pending (rsteps cfg k s) = [] := by
  induction k generalizing s with
  | zero => exact hp
  | succ k ih => exact ih _ (inv_reactorStep cfg s h) (pending_nil_reactorStep cfg s h hp)

/-- while something is pending and no thread is inside `callFromThread`, every reactor step makes progress -/
theorem mu_decreases (cfg : Cfg) (s : State) (h : Inv s) (hq : quiet s) (hp : pending s ≠ []) :
    mu (reactorStep cfg s) < mu s := by
  obtain ⟨hf, htb, hfb, hdb, hcov⟩ := h
  rcases s with ⟨q, ran, w, pc, tot, cnt, iss, pw⟩
  dsimp only at htb hfb hdb
  unfold quiet at hq
  dsimp only at hq
  cases pc with
  | check1 =>
    simp only [pending, done, List.drop_zero] at hp
    have : q.isEmpty = false := by simpa using hp
    simp [reactorStep, this, mu, unseen, pos]
  | total =>
    simp [reactorStep, mu, unseen, pos]
  | fetch =>
    obtain ⟨h1, h2⟩ := hfb rfl
    have hlt : cnt < q.length := by omega
    have hget : q[cnt]? = some q[cnt] := List.getElem?_eq_getElem hlt
    by_cases he : cnt + 1 = tot
    · simp only [reactorStep, hget, he, if_true, mu, unseen, pos]
      omega
    · simp only [reactorStep, hget, he, if_false, mu, unseen, pos]
      omega
  | del =>
    obtain ⟨h1, h2⟩ := hdb rfl
    subst h1
    simp only [reactorStep, mu, unseen, pos, List.length_drop]
    have : (q.length - cnt) * (2 * (q.length - cnt) + 20) ≤ (q.length - cnt) * (2 * q.length + 20) :=
      Nat.mul_le_mul_left _ (by omega)
    omega
  | check2 =>
    by_cases he : q.isEmpty = true <;> simp [reactorStep, he, mu, unseen, pos]
  | selfwake =>
    simp [reactorStep, mu, unseen, pos]
  | poll =>
    simp only [pending, done, List.drop_zero] at hp
    have hw : 0 < w := by
      rcases hcov (by simpa [unseen] using hp) with hw | ⟨t, ht⟩
      · exact hw
      · dsimp only at ht
        rw [hq t] at ht; cases ht
    have hw' : ¬ w = 0 := by omega
    have hl : 0 < q.length := List.length_pos_iff.mpr hp
    simp only [reactorStep, hw', if_false, mu, unseen, pos, List.length_nil, Nat.zero_mul, Nat.zero_add,
      Nat.add_zero]
    have : 1 * (2 * q.length + 20) ≤ q.length * (2 * q.length + 20) := Nat.mul_le_mul_right _ hl
    omega
  | read =>
    simp [reactorStep, mu, unseen, pos]

/-- `n ≥ mu s` reactor steps leave nothing pending -/
theorem drains (cfg : Cfg) (n : Nat) (s : State) (h : Inv s) (hq : quiet s) (hn : mu s ≤ n) :
    pending (rsteps cfg n s) = [] := by
  induction n generalizing s with
  | zero =>
    rcases s with ⟨q, ran, w, pc, tot, cnt, iss, pw⟩
    have h0 : mu ⟨q, ran, w, pc, tot, cnt, iss, pw⟩ = 0 := by omega
    cases pc <;> simp [mu, pos, unseen] at h0
    have hq0 : q = [] := by
      rcases Nat.mul_eq_zero.mp h0 with h1 | h1
      · exact List.eq_nil_of_length_eq_zero h1
      · omega
    simp [rsteps, pending, done, hq0]
  | succ n ih =>
    by_cases hp : pending s = []
    · exact pending_nil_rsteps cfg _ s h hp
    · have := mu_decreases cfg s h hq hp
      exact ih _ (inv_reactorStep cfg s h) (quiet_reactorStep cfg s hq) (by omega)

end TwistedProps.C13
