import TwistedModel.Reactor.ThreadQueueLife
import TwistedProps.C13.Live
/-!
C13 — the life cycle (`ThreadQueueLife`): `stop()`, the pending shutdown, `crash`, the exit of `mainLoop`.

Every step of the life-cycle model acts on the queue model (`State`) as a step of `ThreadQueue`,
possibly with additional wake-ups, or not at all; so the invariant `Inv` — and with it accounting,
per-thread FIFO and "no lost wake-up" — holds in EVERY phase, for every assignment of effects to
calls.  Progress holds for as long as `reactor.running` is true, in particular while shutdown is pending.
-/
namespace TwistedProps.C13
open Twisted.Reactor.ThreadQueue

/-- the same queue state with another waker count -/
def bump (b : State) (w : Nat) : State := { b with waker := w }

theorem bump_self (b : State) : bump b b.waker = b := rfl

theorem wake_ge (cfg : Cfg) (w : Nat) : w ≤ wake cfg w := by
  unfold wake
  split <;> omega

theorem inv_bump (b : State) (w : Nat) (h : Inv b) (hw : b.waker ≤ w) : Inv (bump b w) := by
  obtain ⟨hf, htb, hfb, hdb, hcov⟩ := h
  refine ⟨hf, htb, hfb, hdb, ?_⟩
  intro hu
  rcases hcov hu with h1 | h1
  · left
    show 0 < w
    omega
  · exact Or.inr h1

theorem mu_bump (b : State) (w : Nat) : mu (bump b w) = mu b := rfl
theorem pending_bump (b : State) (w : Nat) : pending (bump b w) = pending b := rfl
theorem quiet_bump (b : State) (w : Nat) (h : quiet b) : quiet (bump b w) := h

/-! ### what a life-cycle step does to the queue state -/

theorem endPass_base (s : LState) : (endPass s).base = s.base := by
  unfold endPass
  split <;> rfl

theorem applyEff_base (lc : LCfg) (e : Eff) (s : LState) :
    ∃ w, s.base.waker ≤ w ∧ (applyEff lc e s).base = bump s.base w := by
  cases e with
  | none => exact ⟨s.base.waker, Nat.le_refl _, rfl⟩
  | stop =>
    by_cases hp : s.phase = .running
    · by_cases hsw : lc.stopWakes = true
      · exact ⟨wake lc.cfg s.base.waker, wake_ge _ _, by simp [applyEff, hp, hsw, bump]⟩
      · exact ⟨s.base.waker, Nat.le_refl _, by simp [applyEff, hp, hsw, bump]⟩
    · exact ⟨s.base.waker, Nat.le_refl _, by simp [applyEff, hp, bump]⟩
  | fire =>
    by_cases hf : s.fired = true
    · exact ⟨s.base.waker, Nat.le_refl _, by simp [applyEff, hf, bump]⟩
    · exact ⟨s.base.waker, Nat.le_refl _, by simp [applyEff, hf, bump]⟩

/-- a reactor step of the life-cycle model is, on the queue state, a `reactorStep` (possibly with
    extra wake-ups) — or nothing at all (the loop has exited, or is exiting) -/
theorem lreactorStep_base (lc : LCfg) (s : LState) :
    (alive s = false ∧ (lreactorStep lc s).base = s.base) ∨
    ∃ w, (reactorStep lc.cfg s.base).waker ≤ w ∧
      (lreactorStep lc s).base = bump (reactorStep lc.cfg s.base) w := by
  by_cases hex : s.phase = .exited
  · left
    simp [lreactorStep, hex, alive]
  · rcases s with ⟨⟨q, ran, w, pc, tot, cnt, iss, pw⟩, ph, fd⟩
    dsimp only at hex
    cases pc with
    | fetch =>
      simp only [lreactorStep, hex, if_false]
      split
      · exact Or.inr ⟨_, Nat.le_refl _, rfl⟩
      · exact Or.inr (applyEff_base lc _ ⟨reactorStep lc.cfg _, ph, fd⟩)
    | check1 =>
      simp only [lreactorStep, hex, if_false]
      split
      · rw [endPass_base]; exact Or.inr ⟨_, Nat.le_refl _, rfl⟩
      · exact Or.inr ⟨_, Nat.le_refl _, rfl⟩
    | check2 =>
      simp only [lreactorStep, hex, if_false]
      split
      · rw [endPass_base]; exact Or.inr ⟨_, Nat.le_refl _, rfl⟩
      · exact Or.inr ⟨_, Nat.le_refl _, rfl⟩
    | selfwake =>
      simp only [lreactorStep, hex, if_false]
      rw [endPass_base]; exact Or.inr ⟨_, Nat.le_refl _, rfl⟩
    | poll =>
      simp only [lreactorStep, hex, if_false]
      split
      · rename_i hc
        exact Or.inl ⟨by simp [alive, hc.1], rfl⟩
      · exact Or.inr ⟨_, Nat.le_refl _, rfl⟩
    | read =>
      simp only [lreactorStep, hex, if_false]
      exact Or.inr ⟨_, Nat.le_refl _, rfl⟩
    | total =>
      simp only [lreactorStep, hex, if_false]
      exact Or.inr ⟨_, Nat.le_refl _, rfl⟩
    | del =>
      simp only [lreactorStep, hex, if_false]
      exact Or.inr ⟨_, Nat.le_refl _, rfl⟩

/-- while `reactor.running` is true the reactor really takes its step -/
theorem lreactorStep_base_alive (lc : LCfg) (s : LState) (ha : alive s = true) :
    ∃ w, (reactorStep lc.cfg s.base).waker ≤ w ∧
      (lreactorStep lc s).base = bump (reactorStep lc.cfg s.base) w := by
  rcases lreactorStep_base lc s with ⟨h, _⟩ | h
  · rw [ha] at h; cases h
  · exact h

/-! ### the invariant holds in every phase -/

theorem linv_reactorStep (lc : LCfg) (s : LState) (h : Inv s.base) : Inv (lreactorStep lc s).base := by
  rcases lreactorStep_base lc s with ⟨_, he⟩ | ⟨w, hw, he⟩
  · rw [he]; exact h
  · rw [he]; exact inv_bump _ _ (inv_reactorStep lc.cfg s.base h) hw

theorem linv_step (lc : LCfg) (s : LState) (a : Actor) (h : Inv s.base) : Inv (lstep lc s a).base := by
  cases a with
  | reactor => exact linv_reactorStep lc s h
  | thread t => exact inv_threadStep lc.cfg t s.base h

theorem linv_run (lc : LCfg) (sched : List Actor) (s : LState) (h : Inv s.base) :
    Inv (lrun lc sched s).base := by
  induction sched generalizing s with
  | nil => exact h
  | cons a rest ih => exact ih _ (linv_step lc s a h)

theorem linv_rsteps (lc : LCfg) (k : Nat) (s : LState) (h : Inv s.base) : Inv (lrsteps lc k s).base := by
  induction k generalizing s with
  | zero => exact h
  | succ k ih => exact ih _ (linv_reactorStep lc s h)

/-! ### reactor-only steps: what does not change -/

theorem lissued_reactorStep (lc : LCfg) (s : LState) : (lreactorStep lc s).base.issued = s.base.issued := by
  rcases lreactorStep_base lc s with ⟨_, he⟩ | ⟨w, _, he⟩
  · rw [he]
  · rw [he]; exact issued_reactorStep lc.cfg s.base

theorem lissued_rsteps (lc : LCfg) (k : Nat) (s : LState) : (lrsteps lc k s).base.issued = s.base.issued := by
  induction k generalizing s with
  | zero => rfl
  | succ k ih => rw [lrsteps, ih, lissued_reactorStep]

theorem lquiet_reactorStep (lc : LCfg) (s : LState) (h : quiet s.base) : quiet (lreactorStep lc s).base := by
  rcases lreactorStep_base lc s with ⟨_, he⟩ | ⟨w, _, he⟩
  · rw [he]; exact h
  · rw [he]; exact quiet_bump _ _ (quiet_reactorStep lc.cfg s.base h)

theorem lpending_nil_reactorStep (lc : LCfg) (s : LState) (h : Inv s.base) (hp : pending s.base = []) :
    pending (lreactorStep lc s).base = [] := by
  rcases lreactorStep_base lc s with ⟨_, he⟩ | ⟨w, _, he⟩
  · rw [he]; exact hp
  · rw [he, pending_bump]; exact pending_nil_reactorStep lc.cfg s.base h hp

theorem lpending_nil_rsteps (lc : LCfg) (k : Nat) (s : LState) (h : Inv s.base) (hp : pending s.base = []) :
    pending (lrsteps lc k s).base = [] := by
  induction k generalizing s with
  | zero => exact hp
  | succ k ih => exact ih _ (linv_reactorStep lc s h) (lpending_nil_reactorStep lc s h hp)

/-! ### `reactor.running` never becomes true again -/

theorem applyEff_dead (lc : LCfg) (e : Eff) (s : LState) (h : alive s = false) :
    alive (applyEff lc e s) = false := by
  rcases s with ⟨b, ph, fd⟩
  cases ph <;> simp [alive] at h <;> cases e <;> cases fd <;> simp [applyEff, alive]

theorem endPass_dead (s : LState) (h : alive s = false) : alive (endPass s) = false := by
  rcases s with ⟨b, ph, fd⟩
  cases ph <;> simp [alive] at h <;> simp [endPass, alive]

theorem dead_reactorStep (lc : LCfg) (s : LState) (h : alive s = false) :
    alive (lreactorStep lc s) = false := by
  by_cases hex : s.phase = .exited
  · simpa [lreactorStep, hex] using h
  · rcases s with ⟨⟨q, ran, w, pc, tot, cnt, iss, pw⟩, ph, fd⟩
    dsimp only at hex
    cases pc with
    | fetch =>
      simp only [lreactorStep, hex, if_false]
      split
      · exact h
      · exact applyEff_dead lc _ _ h
    | check1 =>
      simp only [lreactorStep, hex, if_false]
      split
      · exact endPass_dead _ h
      · exact h
    | check2 =>
      simp only [lreactorStep, hex, if_false]
      split
      · exact endPass_dead _ h
      · exact h
    | selfwake =>
      simp only [lreactorStep, hex, if_false]
      exact endPass_dead _ h
    | poll =>
      simp only [lreactorStep, hex, if_false]
      split
      · simp [alive]
      · exact h
    | read =>
      simp only [lreactorStep, hex, if_false]
      cases ph <;> simp [alive] at h <;> simp [alive]
    | total => simp only [lreactorStep, hex, if_false]; exact h
    | del => simp only [lreactorStep, hex, if_false]; exact h

theorem dead_rsteps (lc : LCfg) (k : Nat) (s : LState) (h : alive s = false) :
    alive (lrsteps lc k s) = false := by
  induction k generalizing s with
  | zero => exact h
  | succ k ih => exact ih _ (dead_reactorStep lc s h)

/-! ### progress while `reactor.running` -/

/-- `n ≥ mu` reactor steps leave nothing pending — unless the reactor stopped running meanwhile -/
theorem ldrains (lc : LCfg) (n : Nat) (s : LState) (h : Inv s.base) (hq : quiet s.base)
    (hn : mu s.base ≤ n) :
    alive (lrsteps lc n s) = false ∨ pending (lrsteps lc n s).base = [] := by
  induction n generalizing s with
  | zero =>
    right
    exact drains lc.cfg 0 s.base h hq hn
  | succ n ih =>
    by_cases ha : alive s = true
    · by_cases hp : pending s.base = []
      · right
        exact lpending_nil_rsteps lc _ s h hp
      · obtain ⟨w, hw, he⟩ := lreactorStep_base_alive lc s ha
        have hdec := mu_decreases lc.cfg s.base h hq hp
        apply ih _ (linv_reactorStep lc s h) (lquiet_reactorStep lc s hq)
        rw [he, mu_bump]
        omega
    · left
      exact dead_rsteps lc _ s (by simpa using ha)

/-! ### the reactor stops running only through the application's `fire` -/

/-- the Deferred has no result and no call still to run will give it one -/
def noFire (lc : LCfg) (s : LState) : Prop :=
  s.fired = false ∧ ∀ c ∈ pending s.base, lc.eff c ≠ .fire

theorem pending_reactorStep_sub (cfg : Cfg) (b : State) (h : Inv b) (c : Call)
    (hc : c ∈ pending (reactorStep cfg b)) : c ∈ pending b := by
  obtain ⟨hf, htb, hfb, hdb, hcov⟩ := h
  rcases b with ⟨q, ran, w, pc, tot, cnt, iss, pw⟩
  dsimp only at htb hfb hdb
  cases pc with
  | check1 =>
    by_cases hq : q.isEmpty = true <;> simpa [reactorStep, hq, pending, done] using hc
  | total => simpa [reactorStep, pending, done] using hc
  | fetch =>
    obtain ⟨h1, h2⟩ := hfb rfl
    have hlt : cnt < q.length := by omega
    have hget : q[cnt]? = some q[cnt] := List.getElem?_eq_getElem hlt
    have hdrop : q.drop cnt = q[cnt] :: q.drop (cnt + 1) := List.drop_eq_getElem_cons hlt
    simp only [pending, done, hdrop]
    by_cases he : cnt + 1 = tot
    · simp only [reactorStep, hget, he, if_true, pending, done] at hc
      rw [← he] at hc
      exact List.mem_cons_of_mem _ hc
    · simp only [reactorStep, hget, he, if_false, pending, done] at hc
      exact List.mem_cons_of_mem _ hc
  | del => simpa [reactorStep, pending, done] using hc
  | check2 =>
    by_cases hq : q.isEmpty = true <;> simpa [reactorStep, hq, pending, done] using hc
  | selfwake => simpa [reactorStep, pending, done] using hc
  | poll =>
    by_cases hw : w = 0 <;> simpa [reactorStep, hw, pending, done] using hc
  | read => simpa [reactorStep, pending, done] using hc

theorem endPass_alive (s : LState) (ha : alive s = true) (hf : s.fired = false) :
    alive (endPass s) = true ∧ (endPass s).fired = false := by
  rcases s with ⟨b, ph, fd⟩
  dsimp only at hf
  subst hf
  cases ph <;> simp [alive] at ha <;> simp [endPass, alive]

theorem applyEff_alive (lc : LCfg) (e : Eff) (s : LState) (ha : alive s = true) (hf : s.fired = false)
    (he : e ≠ .fire) : alive (applyEff lc e s) = true ∧ (applyEff lc e s).fired = false := by
  rcases s with ⟨b, ph, fd⟩
  dsimp only at hf
  subst hf
  cases e with
  | fire => exact absurd rfl he
  | none => exact ⟨ha, rfl⟩
  | stop => cases ph <;> simp [alive] at ha <;> simp [applyEff, alive]

/-- as long as nothing fires the shutdown Deferred the reactor keeps running, in every phase -/
theorem alive_reactorStep (lc : LCfg) (s : LState) (h : Inv s.base) (ha : alive s = true)
    (hnf : noFire lc s) : alive (lreactorStep lc s) = true ∧ noFire lc (lreactorStep lc s) := by
  obtain ⟨hfd, hno⟩ := hnf
  have hsub : ∀ c ∈ pending (lreactorStep lc s).base, lc.eff c ≠ .fire := by
    intro c hc
    obtain ⟨w, _, he⟩ := lreactorStep_base_alive lc s ha
    rw [he, pending_bump] at hc
    exact hno c (pending_reactorStep_sub lc.cfg s.base h c hc)
  suffices hs : alive (lreactorStep lc s) = true ∧ (lreactorStep lc s).fired = false from
    ⟨hs.1, hs.2, hsub⟩
  have hex : ¬ s.phase = .exited := by
    intro h; simp [alive, h] at ha
  have hcr : ¬ s.phase = .crashed := by
    intro h; simp [alive, h] at ha
  have hfb := h.fetchB
  rcases s with ⟨⟨q, ran, w, pc, tot, cnt, iss, pw⟩, ph, fd⟩
  dsimp only at hex hcr hfd hno hfb
  cases pc with
  | fetch =>
    obtain ⟨h1, h2⟩ := hfb rfl
    have hlt : cnt < q.length := by omega
    have hget : q[cnt]? = some q[cnt] := List.getElem?_eq_getElem hlt
    have hmem : q[cnt] ∈ q.drop cnt := by
      rw [List.drop_eq_getElem_cons hlt]; exact List.mem_cons_self
    have hne : lc.eff q[cnt] ≠ .fire := hno _ (by simpa [pending, done] using hmem)
    simp only [lreactorStep, hex, if_false, hget]
    exact applyEff_alive lc _ _ ha hfd hne
  | check1 =>
    simp only [lreactorStep, hex, if_false]
    split
    · exact endPass_alive _ ha hfd
    · exact ⟨ha, hfd⟩
  | check2 =>
    simp only [lreactorStep, hex, if_false]
    split
    · exact endPass_alive _ ha hfd
    · exact ⟨ha, hfd⟩
  | selfwake =>
    simp only [lreactorStep, hex, if_false]
    exact endPass_alive _ ha hfd
  | poll =>
    simp only [lreactorStep, hex, if_false, hcr, false_and]
    exact ⟨ha, hfd⟩
  | read =>
    simp only [lreactorStep, hex, if_false, hcr]
    exact ⟨ha, hfd⟩
  | total => simp only [lreactorStep, hex, if_false]; exact ⟨ha, hfd⟩
  | del => simp only [lreactorStep, hex, if_false]; exact ⟨ha, hfd⟩

theorem alive_rsteps (lc : LCfg) (k : Nat) (s : LState) (h : Inv s.base) (ha : alive s = true)
    (hnf : noFire lc s) : alive (lrsteps lc k s) = true := by
  induction k generalizing s with
  | zero => exact ha
  | succ k ih =>
    obtain ⟨h1, h2⟩ := alive_reactorStep lc s h ha hnf
    exact ih _ (linv_reactorStep lc s h) h1 h2

/-! ### the reactor leaves `running` / stops running only at the application's request -/

/-- why the reactor is where it is in its life cycle: it left `running` only because a call that does
    `reactor.stop()` ran, and `reactor.running` is false only if the shutdown Deferred has fired -/
structure Why (lc : LCfg) (s : LState) : Prop where
  dead : alive s = false → s.fired = true
  stopped : s.phase ≠ .running → ∃ c ∈ s.base.ran, lc.eff c = .stop

theorem runs_in_reactor_thread' (cfg : Cfg) (t : Nat) (s : State) : (threadStep cfg t s).ran = s.ran := by
  unfold threadStep
  split <;> rfl

theorem mem_ran_reactorStep (cfg : Cfg) (b : State) (c : Call) (h : c ∈ b.ran) : c ∈ (reactorStep cfg b).ran := by
  unfold reactorStep
  split <;> (try split) <;> simp_all

theorem mem_ran_lreactorStep (lc : LCfg) (s : LState) (c : Call) (h : c ∈ s.base.ran) :
    c ∈ (lreactorStep lc s).base.ran := by
  rcases lreactorStep_base lc s with ⟨_, he⟩ | ⟨w, _, he⟩
  · rw [he]; exact h
  · rw [he]; exact mem_ran_reactorStep lc.cfg s.base c h

theorem why_endPass (lc : LCfg) (s : LState) (h : Why lc s) : Why lc (endPass s) := by
  obtain ⟨hd, hs⟩ := h
  rcases s with ⟨b, ph, fd⟩
  by_cases hp : ph = .stopping
  · subst hp
    have hw := hs (by simp)
    cases fd
    · exact ⟨by simp [endPass, alive], fun _ => hw⟩
    · exact ⟨fun _ => rfl, fun _ => hw⟩
  · have he : endPass ⟨b, ph, fd⟩ = ⟨b, ph, fd⟩ := by simp [endPass, hp]
    rw [he]
    exact ⟨hd, hs⟩

theorem why_base (lc : LCfg) (s : LState) (h : Why lc s) (b' : State) (hran : ∀ c ∈ s.base.ran, c ∈ b'.ran) :
    Why lc { s with base := b' } := by
  obtain ⟨hd, hs⟩ := h
  refine ⟨hd, ?_⟩
  intro hp
  obtain ⟨c, hc, he⟩ := hs hp
  exact ⟨c, hran c hc, he⟩

theorem why_applyEff (lc : LCfg) (e : Eff) (s : LState) (h : Why lc s)
    (hc : e = .stop → ∃ c ∈ s.base.ran, lc.eff c = .stop) : Why lc (applyEff lc e s) := by
  obtain ⟨hd, hs⟩ := h
  rcases s with ⟨b, ph, fd⟩
  cases e with
  | none => exact ⟨hd, hs⟩
  | stop =>
    by_cases hp : ph = .running
    · subst hp
      simp only [applyEff, if_true]
      exact ⟨by simp [alive], fun _ => hc rfl⟩
    · simp only [applyEff, hp, if_false]
      exact ⟨hd, hs⟩
  | fire =>
    cases fd with
    | true => simpa [applyEff] using (⟨hd, hs⟩ : Why lc ⟨b, ph, true⟩)
    | false =>
      simp only [applyEff, Bool.false_eq_true, if_false]
      refine ⟨fun _ => rfl, ?_⟩
      intro hp
      apply hs
      intro hr
      apply hp
      dsimp only at hr ⊢
      rw [hr]; simp

theorem why_reactorStep (lc : LCfg) (s : LState) (h : Why lc s) : Why lc (lreactorStep lc s) := by
  by_cases hex : s.phase = .exited
  · simpa [lreactorStep, hex] using h
  · have hmono := mem_ran_reactorStep lc.cfg s.base
    rcases s with ⟨⟨q, ran, w, pc, tot, cnt, iss, pw⟩, ph, fd⟩
    dsimp only at hex
    cases pc with
    | fetch =>
      simp only [lreactorStep, hex, if_false]
      split
      · exact why_base lc _ h _ hmono
      · rename_i c hget
        apply why_applyEff lc _ _ (why_base lc _ h _ hmono)
        intro hstop
        refine ⟨c, ?_, hstop⟩
        simp [reactorStep, hget]
    | check1 =>
      simp only [lreactorStep, hex, if_false]
      split
      · exact why_endPass lc _ (why_base lc _ h _ hmono)
      · exact why_base lc _ h _ hmono
    | check2 =>
      simp only [lreactorStep, hex, if_false]
      split
      · exact why_endPass lc _ (why_base lc _ h _ hmono)
      · exact why_base lc _ h _ hmono
    | selfwake =>
      simp only [lreactorStep, hex, if_false]
      exact why_endPass lc _ (why_base lc _ h _ hmono)
    | poll =>
      simp only [lreactorStep, hex, if_false]
      split
      · rename_i hc
        obtain ⟨hd, hs⟩ := h
        refine ⟨fun _ => hd (by simp [alive, hc.1]), fun _ => hs (by simp [hc.1])⟩
      · exact why_base lc _ h _ hmono
    | read =>
      simp only [lreactorStep, hex, if_false]
      obtain ⟨hd, hs⟩ := h
      by_cases hcr : ph = .crashed
      · subst hcr
        simp only [if_true]
        refine ⟨fun _ => hd (by simp [alive]), fun _ => ?_⟩
        obtain ⟨c, hc, he⟩ := hs (by simp)
        exact ⟨c, hmono c hc, he⟩
      · simp only [hcr, if_false]
        exact why_base lc _ ⟨hd, hs⟩ _ hmono
    | total => simp only [lreactorStep, hex, if_false]; exact why_base lc _ h _ hmono
    | del => simp only [lreactorStep, hex, if_false]; exact why_base lc _ h _ hmono

theorem why_step (lc : LCfg) (s : LState) (a : Actor) (h : Why lc s) : Why lc (lstep lc s a) := by
  cases a with
  | reactor => exact why_reactorStep lc s h
  | thread t =>
    apply why_base lc s h
    intro c hc
    rw [runs_in_reactor_thread']
    exact hc

theorem why_run (lc : LCfg) (sched : List Actor) (s : LState) (h : Why lc s) : Why lc (lrun lc sched s) := by
  induction sched generalizing s with
  | nil => exact h
  | cons a rest ih => exact ih _ (why_step lc s a h)

end TwistedProps.C13
