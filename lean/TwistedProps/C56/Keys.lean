import TwistedModel.Log.FlatFormat
/-!
C56 helper lemmas: dict lookup/update, and the shape of `KeyFlattener` keys for fields without
a format spec: `name ++ "!" ++ conv ++ ":" ++ suffix` determines `name` and `conv`.
-/
namespace TwistedProps.C56
open Twisted.Log.FlatFormat

theorem lookup_dictSet {α : Type} (d : List (Text × α)) (k q : Text) (v : α) :
    lookup (dictSet d k v) q = if k = q then some v else lookup d q := by
  induction d with
  | nil => simp [dictSet, lookup]
  | cons p d ih =>
    obtain ⟨k', v'⟩ := p
    by_cases h : k' = k
    · subst h
      by_cases hq : k' = q <;> simp [dictSet, lookup, hq]
    · by_cases hq : k = q
      · subst hq
        simp [dictSet, lookup, h, ih]
      · by_cases hq' : k' = q
        · subst hq'
          simp [dictSet, lookup, h, hq]
        · simp [dictSet, lookup, h, hq, hq', ih]

theorem dictSet_ne_nil {α : Type} (d : List (Text × α)) (k : Text) (v : α) : dictSet d k v ≠ [] := by
  cases d with
  | nil => simp [dictSet]
  | cons p d =>
    obtain ⟨k', v'⟩ := p
    by_cases h : k' = k <;> simp [dictSet, h]

theorem count_dictSet (cs : Counts) (b b' : Text) (n : Nat) :
    count (dictSet cs b n) b' = if b = b' then n else count cs b' := by
  unfold count
  rw [lookup_dictSet]
  by_cases h : b = b' <;> simp [h]

/-- splitting at a separator that does not occur to its right -/
theorem sep_split_prefix (x : Char) (P P' R R' : Text) (hP : x ∉ P) (hP' : x ∉ P')
    (h : P ++ x :: R = P' ++ x :: R') : P = P' ∧ R = R' := by
  induction P generalizing P' with
  | nil =>
    cases P' with
    | nil => simpa using h
    | cons p P' =>
      simp only [List.nil_append, List.cons_append, List.cons.injEq] at h
      exact absurd h.1 (by intro e; exact hP' (by simp [e]))
  | cons p P ih =>
    cases P' with
    | nil =>
      simp only [List.nil_append, List.cons_append, List.cons.injEq] at h
      exact absurd h.1.symm (by intro e; exact hP (by simp [e]))
    | cons p' P' =>
      simp only [List.cons_append, List.cons.injEq] at h
      have := ih P' (by intro m; exact hP (by simp [m])) (by intro m; exact hP' (by simp [m])) h.2
      exact ⟨by rw [h.1, this.1], this.2⟩

theorem sep_split (x : Char) (A B D D' : Text) (hD : x ∉ D) (hD' : x ∉ D')
    (h : A ++ x :: D = B ++ x :: D') : A = B ∧ D = D' := by
  have h' := congrArg List.reverse h
  simp only [List.reverse_append, List.reverse_cons, List.append_assoc, List.singleton_append] at h'
  have := sep_split_prefix x D.reverse D'.reverse A.reverse B.reverse (by simpa using hD) (by simpa using hD') h'
  exact ⟨List.reverse_inj.mp this.2, List.reverse_inj.mp this.1⟩

/-- the key text for a field without format spec -/
def mk (name conv sfx : Text) : Text := name ++ '!' :: (conv ++ ':' :: sfx)

theorem mk_inj (name name' conv conv' s s' : Text)
    (hs : ':' ∉ s) (hs' : ':' ∉ s') (hc : '!' ∉ conv) (hc' : '!' ∉ conv')
    (h : mk name conv s = mk name' conv' s') : name = name' ∧ conv = conv' ∧ s = s' := by
  unfold mk at h
  have e1 : name ++ '!' :: (conv ++ ':' :: s) = (name ++ '!' :: conv) ++ ':' :: s := by simp
  have e2 : name' ++ '!' :: (conv' ++ ':' :: s') = (name' ++ '!' :: conv') ++ ':' :: s' := by simp
  rw [e1, e2] at h
  have h1 := sep_split ':' _ _ _ _ hs hs' h
  have h2 := sep_split '!' _ _ _ _ hc hc' h1.1
  exact ⟨h2.1, h2.2, h1.2⟩

theorem isDigit_digitChar (d : Nat) : isDigitC (digitChar d) = true := by
  unfold digitChar
  split <;> decide

theorem natDigitsF_digits (f n : Nat) : ∀ c ∈ natDigitsF f n, isDigitC c = true := by
  induction f generalizing n with
  | zero => intro c hc; simp [natDigitsF] at hc; subst hc; exact isDigit_digitChar _
  | succ f ih =>
    intro c hc
    unfold natDigitsF at hc
    split at hc
    · simp at hc; subst hc; exact isDigit_digitChar _
    · simp only [List.mem_append, List.mem_singleton] at hc
      rcases hc with hc | hc
      · exact ih _ c hc
      · subst hc; exact isDigit_digitChar _

theorem colon_not_in_suffix (n : Nat) : ':' ∉ suffix n := by
  unfold suffix
  split
  · simp
  · intro h
    simp only [List.mem_cons] at h
    rcases h with h | h
    · exact absurd h (by decide)
    · have := natDigitsF_digits n n ':' h
      exact absurd this (by decide)

theorem flatKey_fst (cs : Counts) (name conv : Text) :
    (flatKey cs name [] conv).1 = mk name conv (suffix (count cs (baseKey name [] conv) + 1)) := by
  simp [flatKey, baseKey, mk]

theorem flatKey_snd (cs : Counts) (name conv : Text) :
    (flatKey cs name [] conv).2 =
      dictSet cs (baseKey name [] conv) (count cs (baseKey name [] conv) + 1) := rfl

theorem baseKey_eq_mk (name conv : Text) : baseKey name [] conv = mk name conv [] := by
  simp [baseKey, mk]

end TwistedProps.C56
