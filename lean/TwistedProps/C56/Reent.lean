import TwistedModel.Log.FlatReent
import TwistedProps.C56.Keys
/-!
C56, re-entrancy: the flatten machinery threaded through an explicit heap of `KeyFlattener` objects
(`TwistedModel/Log/FlatReent.lean`) computes exactly what the pure functions of `FlatFormat.lean` compute, and
every call leaves the flatteners that existed before it untouched (`Ext`) — whatever the evaluation of field
values does, as long as that evaluation itself only extends the heap (`Good`).  `nextOps_good`: objects whose
`__str__`/`__repr__`/`__call__`/`__getattr__` run the machinery again (hooks) are such values, at any nesting depth.
-/
namespace TwistedProps.C56
open Twisted.Log.FlatFormat Twisted.Log.FlatReent

def Ext (w w' : World) : Prop :=
  w.cells.length ≤ w'.cells.length ∧ ∀ i, i < w.cells.length → w'.get i = w.get i

def Frame (id : Nat) (w w' : World) : Prop :=
  w.cells.length ≤ w'.cells.length ∧ ∀ i, i < w.cells.length → i ≠ id → w'.get i = w.get i

theorem Ext.refl (w : World) : Ext w w := ⟨Nat.le_refl _, fun _ _ => rfl⟩

theorem Ext.trans {a b c : World} (h1 : Ext a b) (h2 : Ext b c) : Ext a c :=
  ⟨Nat.le_trans h1.1 h2.1, fun i hi => by rw [h2.2 i (Nat.lt_of_lt_of_le hi h1.1), h1.2 i hi]⟩

theorem Ext.frame {id : Nat} {a b : World} (h : Ext a b) : Frame id a b := ⟨h.1, fun i hi _ => h.2 i hi⟩

theorem Frame.refl (id : Nat) (w : World) : Frame id w w := ⟨Nat.le_refl _, fun _ _ _ => rfl⟩

theorem Frame.trans {id : Nat} {a b c : World} (h1 : Frame id a b) (h2 : Frame id b c) : Frame id a c :=
  ⟨Nat.le_trans h1.1 h2.1, fun i hi hne => by rw [h2.2 i (Nat.lt_of_lt_of_le hi h1.1) hne, h1.2 i hi hne]⟩

theorem get_put (w : World) (id : Nat) (cs : Counts) (i : Nat) :
    (w.put id cs).get i = if i = id ∧ id < w.cells.length then cs else w.get i := by
  simp only [World.get, World.put, List.getD_eq_getElem?_getD, List.getElem?_set]
  by_cases h : id = i
  · subst h
    by_cases h2 : id < w.cells.length <;> simp [h2]
  · have : ¬ i = id := fun e => h e.symm
    simp [h, this]

theorem length_put (w : World) (id : Nat) (cs : Counts) : (w.put id cs).cells.length = w.cells.length := by
  simp [World.put]

theorem put_frame (w : World) (id : Nat) (cs : Counts) : Frame id w (w.put id cs) :=
  ⟨by rw [length_put]; exact Nat.le_refl _, fun i _ hne => by rw [get_put]; simp [hne]⟩

theorem alloc_fst (w : World) : w.alloc.1 = w.cells.length := rfl

theorem alloc_length (w : World) : w.alloc.2.cells.length = w.cells.length + 1 := by simp [World.alloc]

theorem alloc_ext (w : World) : Ext w w.alloc.2 :=
  ⟨by rw [alloc_length]; omega, fun i hi => by
    simp only [World.get, World.alloc, List.getD_eq_getElem?_getD]
    rw [List.getElem?_append_left hi]⟩

theorem alloc_get_new (w : World) : w.alloc.2.get w.alloc.1 = [] := by
  simp [World.get, World.alloc]

/-- a frame for a flattener allocated after `w` is an extension of `w` -/
theorem Frame.ext_of_new {id : Nat} {w a b : World} (h0 : Ext w a) (hid : w.cells.length ≤ id) (h : Frame id a b) :
    Ext w b :=
  ⟨Nat.le_trans h0.1 h.1, fun i hi => by
    rw [h.2 i (Nat.lt_of_lt_of_le hi h0.1) (by omega), h0.2 i hi]⟩

theorem flatKeyW_fst (id : Nat) (name spec conv : Text) (w : World) :
    (flatKeyW id name spec conv w).1 = (flatKey (w.get id) name spec conv).1 := rfl

theorem flatKeyW_get (id : Nat) (name spec conv : Text) (w : World) (h : id < w.cells.length) :
    (flatKeyW id name spec conv w).2.get id = (flatKey (w.get id) name spec conv).2 := by
  simp [flatKeyW, get_put, h]

theorem flatKeyW_frame (id : Nat) (name spec conv : Text) (w : World) :
    Frame id w (flatKeyW id name spec conv w).2 := put_frame _ _ _

theorem flatKeyW_length (id : Nat) (name spec conv : Text) (w : World) :
    (flatKeyW id name spec conv w).2.cells.length = w.cells.length := length_put _ _ _

structure Good (OW : OpsW) : Prop where
  conv : ∀ c v w, (OW.conv c v w).1 = convPure OW.pure c v ∧ Ext w (OW.conv c v w).2
  look : ∀ v w, Ext w (OW.look v w)

theorem strOfW_sim (OW : OpsW) (hg : Good OW) (v : Val) (w : World) :
    (strOfW OW v w).1 = strOf OW.pure v ∧ Ext w (strOfW OW v w).2 := by
  cases v <;> first | exact ⟨rfl, Ext.refl _⟩ | (simpa [strOfW, strOf, convPure] using hg.conv 's' _ w)

theorem convTextW_sim (OW : OpsW) (hg : Good OW) (c : Char) (v : Val) (w : World) :
    (convTextW OW c v w).1 = convText OW.pure c v ∧ Ext w (convTextW OW c v w).2 := by
  unfold convTextW convText
  by_cases hr : c = 'r'
  · subst hr; simpa [convPure] using hg.conv 'r' v w
  · by_cases ha : c = 'a'
    · subst ha; simpa [convPure] using hg.conv 'a' v w
    · simp only [hr, ha, if_false]; exact strOfW_sim OW hg v w

theorem callW_sim (OW : OpsW) (hg : Good OW) (v : Val) (w : World) :
    (callW OW v w).1 = call v ∧ Ext w (callW OW v w).2 := by
  unfold callW
  cases h : call v with
  | ok r => exact ⟨rfl, hg.look v w⟩
  | error e => exact ⟨rfl, Ext.refl _⟩

theorem getAttrW_sim (OW : OpsW) (hg : Good OW) (v : Val) (n : Text) (w : World) :
    (getAttrW OW v n w).1 = getAttr v n ∧ Ext w (getAttrW OW v n w).2 := ⟨rfl, hg.look v w⟩

theorem keycallW_sim (OW : OpsW) (hg : Good OW) (key : Text)
    (gW : Text → World → Except Err Val × World) (g : Text → Except Err Val)
    (hgw : ∀ k w, (gW k w).1 = g k ∧ Ext w (gW k w).2) (w : World) :
    (keycallW OW key gW w).1 = keycall key g ∧ Ext w (keycallW OW key gW w).2 := by
  unfold keycallW keycall
  by_cases h : endsWithCall key = true
  · simp only [h, if_true]
    have := hgw (key.dropLast.dropLast) w
    rcases hq : gW (key.dropLast.dropLast) w with ⟨r, w1⟩
    rw [hq] at this
    cases r with
    | error e => simp only at this ⊢; rw [← this.1]; exact ⟨rfl, this.2⟩
    | ok v =>
      simp only at this ⊢
      rw [← this.1]
      have hc := callW_sim OW hg v w1
      exact ⟨by rw [hc.1]; rfl, this.2.trans hc.2⟩
  · simp only [h, Bool.false_eq_true, if_false]; exact hgw key w

theorem walkW_sim (OW : OpsW) (hg : Good OW) (ss : List Seg) : ∀ (v : Val) (ok : Bool) (w : World),
    (walkW OW v ss ok w).1 = walk v ss ok ∧ Ext w (walkW OW v ss ok w).2 := by
  induction ss with
  | nil => intro v ok w; cases ok <;> exact ⟨rfl, Ext.refl _⟩
  | cons s ss ih =>
    intro v ok w
    cases s with
    | attr n =>
      have hk := keycallW_sim OW hg n (getAttrW OW v) (getAttr v) (fun k w => getAttrW_sim OW hg v k w) w
      simp only [walkW, walk]
      rcases hq : keycallW OW n (getAttrW OW v) w with ⟨r, w1⟩
      rw [hq] at hk
      cases r with
      | error e => simp only at hk ⊢; rw [← hk.1]; exact ⟨rfl, hk.2⟩
      | ok v' =>
        simp only at hk ⊢
        rw [← hk.1]
        exact ⟨(ih v' ok w1).1, hk.2.trans (ih v' ok w1).2⟩
    | idx i =>
      simp only [walkW, walk]
      cases hgi : getItem v i with
      | error e => exact ⟨rfl, Ext.refl _⟩
      | ok v' => exact ih v' ok w

def evGet (ev : Dict) (k : Text) : Except Err Val :=
  match lookup ev k with
  | some v => .ok v
  | none => .error .key

theorem getField_eq (ev : Dict) (name : Text) :
    getField ev name =
      if isInt (splitFirst name).1 then .error .index
      else (keycall (splitFirst name).1 (evGet ev)).bind fun v =>
        walk v (segs (splitFirst name).2).1 (segs (splitFirst name).2).2 := rfl

theorem getFieldW_eq (OW : OpsW) (ev : Dict) (name : Text) (w : World) :
    getFieldW OW ev name w =
      if isInt (splitFirst name).1 then (.error .index, w)
      else match keycallW OW (splitFirst name).1 (fun k w => (evGet ev k, w)) w with
        | (.ok v, w1) => walkW OW v (segs (splitFirst name).2).1 (segs (splitFirst name).2).2 w1
        | (.error e, w1) => (.error e, w1) := rfl

theorem getFieldW_sim (OW : OpsW) (hg : Good OW) (ev : Dict) (name : Text) (w : World) :
    (getFieldW OW ev name w).1 = getField ev name ∧ Ext w (getFieldW OW ev name w).2 := by
  rw [getField_eq, getFieldW_eq]
  by_cases hi : isInt (splitFirst name).1 = true
  · simp only [hi, if_true]; exact ⟨trivial, Ext.refl _⟩
  · simp only [hi, Bool.false_eq_true, if_false]
    have hk := keycallW_sim OW hg (splitFirst name).1 (fun k w => (evGet ev k, w)) (evGet ev)
      (fun k w => by constructor; rfl; exact Ext.refl w) w
    rcases hq : keycallW OW (splitFirst name).1 (fun k w => (evGet ev k, w)) w with ⟨r, w1⟩
    rw [hq] at hk
    cases r with
    | error e => simp only at hk ⊢; rw [← hk.1]; exact ⟨rfl, hk.2⟩
    | ok v =>
      simp only at hk ⊢
      rw [← hk.1]
      have := walkW_sim OW hg (segs (splitFirst name).2).1 v (segs (splitFirst name).2).2 w1
      exact ⟨this.1, hk.2.trans this.2⟩

theorem Frame.get_id {id : Nat} {a b : World} (h : Ext a b) (hid : id < a.cells.length) : b.get id = a.get id :=
  h.2 id hid

/-- the `flattenEvent` loop with explicit flatteners computes what the pure loop computes from the counters in
    cell `id`, and touches no other existing flattener — whatever the field evaluations do (`Good`) -/
theorem flattenLoopW_sim (OW : OpsW) (hg : Good OW) (ev : Dict) (id : Nat) (ok : Bool) (items : List Item) :
    ∀ (fs : Dict) (w : World), id < w.cells.length →
      (flattenLoopW OW ev id items ok fs w).1 = flattenLoop OW.pure ev items ok (w.get id) fs ∧
      Frame id w (flattenLoopW OW ev id items ok fs w).2 := by
  induction items with
  | nil => intro fs w _; cases ok <;> exact ⟨rfl, Frame.refl _ _⟩
  | cons it rest ih =>
    intro fs w hid
    cases hf : it.field with
    | none =>
      simp only [flattenLoopW, flattenLoop, hf]
      exact ih fs w hid
    | some f =>
      simp only [flattenLoopW, flattenLoop, hf]
      -- the two flatKey calls
      have hl1 : (flatKeyW id f.name f.spec [flatConv f.conv] w).2.cells.length = w.cells.length := flatKeyW_length _ _ _ _ _
      have hid1 : id < (flatKeyW id f.name f.spec [flatConv f.conv] w).2.cells.length := by rw [hl1]; exact hid
      have hg1 := flatKeyW_get id f.name f.spec [flatConv f.conv] w hid
      have hg2 := flatKeyW_get id f.name f.spec [] (flatKeyW id f.name f.spec [flatConv f.conv] w).2 hid1
      have hfr2 : Frame id w (flatKeyW id f.name f.spec [] (flatKeyW id f.name f.spec [flatConv f.conv] w).2).2 :=
        (flatKeyW_frame _ _ _ _ _).trans (flatKeyW_frame _ _ _ _ _)
      have hl2 : (flatKeyW id f.name f.spec [] (flatKeyW id f.name f.spec [flatConv f.conv] w).2).2.cells.length
          = w.cells.length := by rw [flatKeyW_length, hl1]
      rw [flatKeyW_fst, flatKeyW_fst, hg1] at *
      generalize hw2 : (flatKeyW id f.name f.spec [] (flatKeyW id f.name f.spec [flatConv f.conv] w).2).2 = w2 at *
      have hid2 : id < w2.cells.length := by rw [hl2]; exact hid
      by_cases hl : (lookup fs (flatKey (w.get id) f.name f.spec [flatConv f.conv]).1).isSome = true
      · simp only [hl, if_true]
        have := ih fs w2 hid2
        rw [hg2] at this
        exact ⟨this.1, hfr2.trans this.2⟩
      · simp only [hl, Bool.false_eq_true, if_false]
        have hgf := getFieldW_sim OW hg ev f.name w2
        rcases hq : getFieldW OW ev f.name w2 with ⟨r, w3⟩
        rw [hq] at hgf
        cases r with
        | error e =>
          simp only at hgf ⊢
          rw [← hgf.1]
          exact ⟨rfl, hfr2.trans hgf.2.frame⟩
        | ok v =>
          simp only at hgf ⊢
          rw [← hgf.1]
          have hct := convTextW_sim OW hg (flatConv f.conv) v w3
          have hid3 : id < w3.cells.length := Nat.lt_of_lt_of_le hid2 hgf.2.1
          have hid4 : id < (convTextW OW (flatConv f.conv) v w3).2.cells.length := Nat.lt_of_lt_of_le hid3 hct.2.1
          have := ih (dictSet (dictSet fs (flatKey (w.get id) f.name f.spec [flatConv f.conv]).1
              (.text (convText OW.pure (flatConv f.conv) v)))
              (flatKey (flatKey (w.get id) f.name f.spec [flatConv f.conv]).2 f.name f.spec []).1 v)
            (convTextW OW (flatConv f.conv) v w3).2 hid4
          rw [hct.2.2 id hid3, hgf.2.2 id hid2, hg2] at this
          simp only [Except.bind]
          rw [hct.1]
          exact ⟨this.1, (hfr2.trans hgf.2.frame).trans (hct.2.frame.trans this.2)⟩


theorem flattenEventW_core (OW : OpsW) (hg : Good OW) (ev : Dict) (s : Text) (fs0 : Dict) (w : World) :
    (match flattenLoopW OW ev w.alloc.1 (parse s).1 (parse s).2 fs0 w.alloc.2 with
      | (.error e, w') => ((.error e : Except Err Dict), w')
      | (.ok fs, w') => (if fs.isEmpty then .ok ev else .ok (dictSet ev kFlattened (.dict fs)), w')).1 =
      ((flattenLoop OW.pure ev (parse s).1 (parse s).2 [] fs0).bind fun fs =>
        if fs.isEmpty then .ok ev else .ok (dictSet ev kFlattened (.dict fs))) ∧
    Ext w (match flattenLoopW OW ev w.alloc.1 (parse s).1 (parse s).2 fs0 w.alloc.2 with
      | (.error e, w') => ((.error e : Except Err Dict), w')
      | (.ok fs, w') => (if fs.isEmpty then .ok ev else .ok (dictSet ev kFlattened (.dict fs)), w')).2 := by
  have hl := flattenLoopW_sim OW hg ev w.alloc.1 (parse s).2 (parse s).1 fs0 w.alloc.2
    (by rw [alloc_fst, alloc_length]; omega)
  rw [alloc_get_new] at hl
  rcases hq : flattenLoopW OW ev w.alloc.1 (parse s).1 (parse s).2 fs0 w.alloc.2 with ⟨r, w'⟩
  rw [hq] at hl
  have hext : Ext w w' := Frame.ext_of_new (alloc_ext w) (by rw [alloc_fst]; exact Nat.le_refl _) hl.2
  cases r with
  | error e => simp only at hl ⊢; rw [← hl.1]; exact ⟨rfl, hext⟩
  | ok fs => simp only at hl ⊢; rw [← hl.1]; exact ⟨rfl, hext⟩

theorem flattenEventW_sim (OW : OpsW) (hg : Good OW) (ev : Dict) (w : World) :
    (flattenEventW OW ev w).1 = flattenEvent OW.pure ev ∧ Ext w (flattenEventW OW ev w).2 := by
  unfold flattenEventW flattenEvent
  cases h1 : lookup ev kFormat with
  | none => exact ⟨rfl, Ext.refl _⟩
  | some fv =>
    cases fv with
    | text s =>
      simp only
      cases h2 : lookup ev kFlattened with
      | none => exact flattenEventW_core OW hg ev s [] w
      | some x =>
        cases x with
        | dict fs0 => exact flattenEventW_core OW hg ev s fs0 w
        | text s => exact ⟨rfl, Ext.refl _⟩
        | int n => exact ⟨rfl, Ext.refl _⟩
        | bool b => exact ⟨rfl, Ext.refl _⟩
        | none => exact ⟨rfl, Ext.refl _⟩
        | list xs => exact ⟨rfl, Ext.refl _⟩
        | obj s r a c => exact ⟨rfl, Ext.refl _⟩
    | int n => exact ⟨rfl, Ext.refl _⟩
    | bool b => exact ⟨rfl, Ext.refl _⟩
    | none => exact ⟨rfl, Ext.refl _⟩
    | list xs => exact ⟨rfl, Ext.refl _⟩
    | dict kvs => exact ⟨rfl, Ext.refl _⟩
    | obj s r a c => exact ⟨rfl, Ext.refl _⟩

theorem flatLoopW_sim (OW : OpsW) (hg : Good OW) (fs : Dict) (id : Nat) (ok : Bool) (items : List Item) :
    ∀ (w : World), id < w.cells.length →
      (flatLoopW OW fs id items ok w).1 = flatLoop OW.pure fs items ok (w.get id) ∧
      Frame id w (flatLoopW OW fs id items ok w).2 := by
  induction items with
  | nil => intro w _; cases ok <;> exact ⟨rfl, Frame.refl _ _⟩
  | cons it rest ih =>
    intro w hid
    cases hf : it.field with
    | none =>
      simp only [flatLoopW, flatLoop, hf]
      have := ih w hid
      rcases hq : flatLoopW OW fs id rest ok w with ⟨r, w'⟩
      rw [hq] at this
      cases r with
      | error e => simp only at this ⊢; rw [← this.1]; exact ⟨rfl, this.2⟩
      | ok t => simp only at this ⊢; rw [← this.1]; exact ⟨rfl, this.2⟩
    | some f =>
      simp only [flatLoopW, flatLoop, hf]
      have hg1 := flatKeyW_get id f.name f.spec (convOr f.conv) w hid
      have hfr := flatKeyW_frame id f.name f.spec (convOr f.conv) w
      have hl1 := flatKeyW_length id f.name f.spec (convOr f.conv) w
      rw [flatKeyW_fst]
      generalize (flatKeyW id f.name f.spec (convOr f.conv) w).2 = w1 at *
      have hid1 : id < w1.cells.length := by rw [hl1]; exact hid
      cases hl : lookup fs (flatKey (w.get id) f.name f.spec (convOr f.conv)).1 with
      | none => exact ⟨rfl, hfr⟩
      | some v =>
        simp only
        have hs := strOfW_sim OW hg v w1
        have hid2 : id < (strOfW OW v w1).2.cells.length := Nat.lt_of_lt_of_le hid1 hs.2.1
        have := ih (strOfW OW v w1).2 hid2
        rw [hs.2.2 id hid1, hg1] at this
        rw [hs.1]
        rcases hq : flatLoopW OW fs id rest ok (strOfW OW v w1).2 with ⟨r, w'⟩
        rw [hq] at this
        have hfr' : Frame id w w' := hfr.trans (hs.2.frame.trans this.2)
        cases r with
        | error e => simp only at this ⊢; rw [← this.1]; exact ⟨rfl, hfr'⟩
        | ok t => simp only at this ⊢; rw [← this.1]; exact ⟨rfl, hfr'⟩

theorem flatFormatW_sim (OW : OpsW) (hg : Good OW) (ev : Dict) (fv : Val) (w : World) :
    (flatFormatW OW ev fv w).1 = flatFormat OW.pure ev fv ∧ Ext w (flatFormatW OW ev fv w).2 := by
  unfold flatFormatW flatFormat
  cases fv with
  | dict fs =>
    simp only
    cases h1 : lookup ev kFormat with
    | none => exact ⟨rfl, alloc_ext w⟩
    | some x =>
      cases x with
      | text s =>
        simp only
        have hl := flatLoopW_sim OW hg fs w.alloc.1 (parse s).2 (parse s).1 w.alloc.2
          (by rw [alloc_fst, alloc_length]; omega)
        rw [alloc_get_new] at hl
        exact ⟨hl.1, Frame.ext_of_new (alloc_ext w) (by rw [alloc_fst]; exact Nat.le_refl _) hl.2⟩
      | int n => exact ⟨rfl, alloc_ext w⟩
      | bool b => exact ⟨rfl, alloc_ext w⟩
      | none => exact ⟨rfl, alloc_ext w⟩
      | list xs => exact ⟨rfl, alloc_ext w⟩
      | dict kvs => exact ⟨rfl, alloc_ext w⟩
      | obj s r a c => exact ⟨rfl, alloc_ext w⟩
  | text s => exact ⟨rfl, Ext.refl _⟩
  | int n => exact ⟨rfl, Ext.refl _⟩
  | bool b => exact ⟨rfl, Ext.refl _⟩
  | none => exact ⟨rfl, Ext.refl _⟩
  | list xs => exact ⟨rfl, Ext.refl _⟩
  | obj s r a c => exact ⟨rfl, Ext.refl _⟩

theorem formatEventW_sim (OW : OpsW) (hg : Good OW) (ev : Dict) (w : World) :
    (formatEventW OW ev w).1 = formatEvent OW.pure ev ∧ Ext w (formatEventW OW ev w).2 := by
  unfold formatEventW formatEvent
  cases h : lookup ev kFlattened with
  | none => exact ⟨rfl, Ext.refl _⟩
  | some fv => exact flatFormatW_sim OW hg ev fv w

theorem jsonRoundTripW_sim (OW : OpsW) (hg : Good OW) (ev : Dict) (w : World) :
    (jsonRoundTripW OW ev w).1 = jsonRoundTrip OW.pure ev ∧ Ext w (jsonRoundTripW OW ev w).2 := by
  unfold jsonRoundTripW jsonRoundTrip
  have := flattenEventW_sim OW hg ev w
  rcases hq : flattenEventW OW ev w with ⟨r, w'⟩
  rw [hq] at this
  cases r with
  | error e => simp only at this ⊢; rw [← this.1]; exact ⟨rfl, this.2⟩
  | ok e => simp only at this ⊢; rw [← this.1]; exact ⟨rfl, this.2⟩


theorem extractFieldW_sim (OW : OpsW) (hg : Good OW) (field : Text) (ev : Dict) (w : World) :
    (extractFieldW OW field ev w).1 = extractField OW.pure field ev ∧ Ext w (extractFieldW OW field ev w).2 := by
  unfold extractFieldW Twisted.Log.FlatReent.extractField
  split
  · rename_i it hp
    cases hf : it.field with
    | none => exact ⟨rfl, alloc_ext w⟩
    | some f =>
      simp only
      have hk1 : (flatKeyW w.alloc.1 f.name f.spec (convRaw f.conv) w.alloc.2).1
          = (flatKey [] f.name f.spec (convRaw f.conv)).1 := by rw [flatKeyW_fst, alloc_get_new]
      have hkext : Ext w (flatKeyW w.alloc.1 f.name f.spec (convRaw f.conv) w.alloc.2).2 :=
        Frame.ext_of_new (alloc_ext w) (by rw [alloc_fst]; exact Nat.le_refl _) (flatKeyW_frame _ _ _ _ _)
      rw [hk1]
      generalize (flatKeyW w.alloc.1 f.name f.spec (convRaw f.conv) w.alloc.2).2 = wk at *
      cases hl : lookup ev kFlattened with
      | some x => simp only; exact ⟨trivial, hkext⟩
      | none =>
        simp only
        have hfe := flattenEventW_sim OW hg ev wk
        rcases hq : flattenEventW OW ev wk with ⟨r, w'⟩
        rw [hq] at hfe
        simp only at hfe ⊢
        rw [← hfe.1]
        cases r with
        | error e => exact ⟨rfl, hkext.trans hfe.2⟩
        | ok e' => exact ⟨rfl, hkext.trans hfe.2⟩
  · exact ⟨rfl, alloc_ext w⟩


theorem runAction_sim (OW : OpsW) (hg : Good OW) (a : Action) (w : World) :
    (runAction OW a w).1 = runActionP OW.pure a ∧ Ext w (runAction OW a w).2 := by
  unfold runAction runActionP
  by_cases h1 : a.kind = "fmt".toList
  · simp only [h1, if_true]
    cases hp : prep OW.pure a.prep a.ev with
    | error e => exact ⟨rfl, Ext.refl _⟩
    | ok P =>
      have := formatEventW_sim OW hg P w
      simp only
      rw [this.1]; exact ⟨rfl, this.2⟩
  · simp only [h1, if_false]
    by_cases h2 : a.kind = "json".toList
    · simp only [h2, if_true]
      have := flattenEventW_sim OW hg a.ev w
      rw [this.1]; exact ⟨rfl, this.2⟩
    · simp only [h2, if_false]
      by_cases h3 : a.kind = "flatfmt".toList
      · simp only [h3, if_true]
        have hfe := flattenEventW_sim OW hg a.ev w
        rw [hfe.1]
        cases hq : flattenEvent OW.pure a.ev with
        | error e => exact ⟨rfl, hfe.2⟩
        | ok ev' =>
          have := formatEventW_sim OW hg ev' (flattenEventW OW a.ev w).2
          simp only
          rw [this.1]; exact ⟨rfl, hfe.2.trans this.2⟩
      · simp only [h3, if_false]
        by_cases h4 : a.kind = "extract".toList
        · simp only [h4, if_true]
          cases hp : prep OW.pure a.prep a.ev with
          | error e => exact ⟨rfl, Ext.refl _⟩
          | ok P =>
            have hx := extractFieldW_sim OW hg a.field P w
            simp only
            rw [hx.1]
            cases hq : Twisted.Log.FlatReent.extractField OW.pure a.field P with
            | error e => exact ⟨rfl, hx.2⟩
            | ok v =>
              have := strOfW_sim OW hg v (extractFieldW OW a.field P w).2
              exact ⟨this.1, hx.2.trans this.2⟩
        · simp only [h4, if_false]
          by_cases h5 : a.kind = "log".toList
          · simp only [h5, if_true]
            exact ⟨trivial, (flattenEventW_sim OW hg a.ev w).2⟩
          · simp only [h5, if_false]
            exact ⟨trivial, Ext.refl _⟩

theorem runScript_sim (OW : OpsW) (hg : Good OW) (sc : List Action) : ∀ (w : World),
    (runScript OW sc w).1 = runScriptP OW.pure sc ∧ Ext w (runScript OW sc w).2 := by
  induction sc with
  | nil => intro w; exact ⟨rfl, Ext.refl _⟩
  | cons a rest ih =>
    intro w
    have h1 := runAction_sim OW hg a w
    have h2 := ih (runAction OW a w).2
    simp only [runScript, runScriptP]
    rw [h1.1, h2.1]
    exact ⟨rfl, h1.2.trans h2.2⟩

theorem liftOps_good (O : Ops) : Good (liftOps O) :=
  ⟨fun _ _ _ => ⟨rfl, Ext.refl _⟩, fun _ _ => Ext.refl _⟩

/-- hooks whose scripts run over machinery that does not interfere do not interfere either -/
theorem nextOps_good (OW : OpsW) (hg : Good OW) : Good (nextOps OW) := by
  refine ⟨?_, ?_⟩
  · intro c v w
    simp only [nextOps, convPure, nextPure]
    by_cases hr : c = 'r'
    · subst hr
      simp only [if_true]
      cases hs : hookScript v kR with
      | none => simpa [convPure] using hg.conv 'r' v w
      | some sc =>
        have := runScript_sim OW hg sc w
        simp only
        rw [this.1]; exact ⟨rfl, this.2⟩
    · by_cases ha : c = 'a'
      · subst ha
        simp only [hr, if_false, if_true]
        cases hs : hookScript v kR with
        | none => simpa [convPure] using hg.conv 'a' v w
        | some sc =>
          have := runScript_sim OW hg sc w
          simp only
          rw [this.1]; exact ⟨rfl, this.2⟩
      · simp only [hr, ha, if_false]
        cases hs : hookScript v kS with
        | none => simpa [convPure, hr, ha] using hg.conv c v w
        | some sc =>
          have := runScript_sim OW hg sc w
          simp only
          rw [this.1]; exact ⟨rfl, this.2⟩
  · intro v w
    simp only [nextOps]
    cases hs : hookScript v kL with
    | none => exact hg.look v w
    | some sc => exact (runScript_sim OW hg sc w).2

theorem opsLevel_good (O : Ops) : ∀ n, Good (opsLevel O n)
  | 0 => liftOps_good O
  | n + 1 => nextOps_good _ (opsLevel_good O n)

theorem opsLevel_pure (O : Ops) : ∀ n, (opsLevel O n).pure = pureLevel O n
  | 0 => rfl
  | n + 1 => by simp only [opsLevel, pureLevel, nextOps, opsLevel_pure O n]

theorem nextPure_fmt_nil (O : Ops) (h : ∀ v, O.fmt v [] = .ok (strOf O v)) :
    ∀ v, (nextPure O).fmt v [] = .ok (strOf (nextPure O) v) := by
  intro v
  cases v with
  | obj s r attrs ret =>
    simp only [nextPure, strOf]
    cases hs : hookScript (.obj s r attrs ret) kS with
    | none => simpa [strOf] using h (.obj s r attrs ret)
    | some sc => simp
  | text t => simpa [nextPure, strOf, hookScript] using h (.text t)
  | int n => simpa [nextPure, strOf, hookScript] using h (.int n)
  | bool b => simpa [nextPure, strOf, hookScript] using h (.bool b)
  | none => simpa [nextPure, strOf, hookScript] using h .none
  | list xs => simpa [nextPure, strOf, hookScript] using h (.list xs)
  | dict kvs => simpa [nextPure, strOf, hookScript] using h (.dict kvs)

theorem pureLevel_fmt_nil (O : Ops) (h : ∀ v, O.fmt v [] = .ok (strOf O v)) :
    ∀ n v, (pureLevel O n).fmt v [] = .ok (strOf (pureLevel O n) v)
  | 0 => h
  | n + 1 => nextPure_fmt_nil _ (pureLevel_fmt_nil O h n)

end TwistedProps.C56
