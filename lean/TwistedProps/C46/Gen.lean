import TwistedModel.Endpoints.Quote
import Generated.Quote
/-!
C46 — `internet/endpoints.py` `quoteStringArgument`, regenerated from the Python source by `harness/py2lean.py`
on every run (`lean/Generated/Quote.lean`) and proved equal to the hand model's `quote`
(`TwistedModel/Endpoints/Quote.lean`).

The translator renders `backslash, colon, equals = "\\:="` as three characters, the loop
`for c in backslash, colon, equals: argument = argument.replace(c, backslash + c)` as `List.foldl` of the generated
loop body over the list of those characters, and `str.replace` with a one-character pattern as its fixed
`pyReplace1`.  Here: `pyReplace1 c [backslash, c] = escapeChar c`, and the three-step fold is the model's
composition in the code's order (backslash first, then `:`, then `=`).
-/
namespace TwistedProps.C46
open Twisted.Endpoints.Quote

/-- the generated loop body with the code's `backslash` = the model's `escapeChar` -/
theorem gen_quoteStep_eq (argument : Text) (c : Char) :
    Generated.Quote.quoteStringArgumentStep '\\' argument c = escapeChar c argument := by
  simp only [Generated.Quote.quoteStringArgumentStep, Generated.Quote.pyReplace1, escapeChar]
  rfl

/-- generated `quoteStringArgument` = the model's `quote`, on every string -/
theorem gen_quote_eq (argument : Text) : Generated.Quote.quoteStringArgument argument = quote argument := by
  have hb : Char.ofNat 92 = '\\' := by decide
  have hc : Char.ofNat 58 = ':' := by decide
  have he : Char.ofNat 61 = '=' := by decide
  simp only [Generated.Quote.quoteStringArgument, quote, hb, hc, he, List.foldl_cons, List.foldl_nil,
    gen_quoteStep_eq]

end TwistedProps.C46
