import TwistedModel.Transport.Tls
/-! C17 helper lemmas: engine bookkeeping, the sender path (`_write`, `_appSendBuffer`, aggregator). -/
namespace TwistedProps.C17
open Twisted.Transport.Tls

/-- the fields of an endpoint the local invariants speak about -/
structure V where
  sentPlain : Bytes
  accepted : Bytes
  buf : List Bytes
  agg : List Bytes
  closed : Bool
  lost : Bool
  disc : Bool
  aborted : Bool
  rcvd : Bytes
  plain : Bytes
  recvPlain : Bytes
  lostN : Nat
  tGone : Bool
  late : Bool
  recMax : Nat
  buffering : Bool
  connected : Bool

def view (s : Side) : V :=
  { sentPlain := s.e.sentPlain, accepted := s.accepted, buf := s.buf, agg := s.agg, closed := s.closed,
    lost := s.lost, disc := s.disc, aborted := s.aborted, rcvd := s.rcvd, plain := s.e.plain,
    recvPlain := s.e.recvPlain, lostN := s.lostN, tGone := s.tGone, late := s.late, recMax := s.e.recMax,
    buffering := s.buffering, connected := s.connected }

@[simp] theorem view_tWrite (s : Side) (b : Bytes) : view (s.tWrite b) = view s := by
  unfold Side.tWrite; split <;> rfl
@[simp] theorem view_tLose (s : Side) : view s.tLose = view s := rfl
@[simp] theorem view_flushSend (s : Side) : view s.flushSend = view s := by
  unfold Side.flushSend; split
  · rfl
  · rw [view_tWrite]; rfl
theorem view_tlsShutdownFinished (s : Side) : view s.tlsShutdownFinished = { view s with lost := true } := by
  unfold Side.tlsShutdownFinished; rw [view_tLose, view_flushSend]; rfl

theorem shutdown_ghost (e : Eng) :
    e.shutdown.1.sentPlain = e.sentPlain ∧ e.shutdown.1.recvPlain = e.recvPlain ∧ e.shutdown.1.plain = e.plain ∧
    e.shutdown.1.recMax = e.recMax := by
  unfold Eng.shutdown; split
  · simp
  · split
    · simp
    · split
      · simp
      · split <;> simp

@[simp] theorem view_shutdownTLS (s : Side) : view s.shutdownTLS = view s := by
  have h := shutdown_ghost s.e
  unfold Side.shutdownTLS
  simp only []
  split
  · rw [view_tLose, view_flushSend]; simp [view, h]
  · rw [view_flushSend]; simp [view, h]

/-! engine lemmas -/
theorem doHandshakeF_ghost (f : Nat) (e : Eng) :
    (Eng.doHandshakeF f e).1.sentPlain = e.sentPlain ∧ (Eng.doHandshakeF f e).1.recvPlain = e.recvPlain ∧
    (Eng.doHandshakeF f e).1.plain = e.plain ∧ (Eng.doHandshakeF f e).1.recMax = e.recMax := by
  induction f generalizing e with
  | zero => simp [Eng.doHandshakeF]
  | succ f ih =>
    unfold Eng.doHandshakeF
    split
    · simp
    · split
      · simp
      · split
        · have := ih { e with outB := e.outB ++ record recHandshake [UInt8.ofNat (e.seen % 256)], seen := e.seen + 1 }
          simpa using this
        · split
          · simp
          · split
            · simp
            · rename_i rest _ _
              have := ih { e with inB := rest, seen := e.seen + 1 }
              simpa using this

theorem doHandshake_ghost (e : Eng) :
    e.doHandshake.1.sentPlain = e.sentPlain ∧ e.doHandshake.1.recvPlain = e.recvPlain ∧
    e.doHandshake.1.plain = e.plain ∧ e.doHandshake.1.recMax = e.recMax := doHandshakeF_ghost _ e

/-- what `recv` does to the plaintext bookkeeping: the bytes it returns plus what stays pending are
    what was pending plus what was newly decoded, in order -/
theorem recvF_spec (n f : Nat) (e : Eng) :
    ∃ t, (Eng.recvF n f e).1.recvPlain = e.recvPlain ++ t ∧
      e.plain ++ t = (Eng.recvF n f e).2.2 ++ (Eng.recvF n f e).1.plain ∧
      (Eng.recvF n f e).1.sentPlain = e.sentPlain ∧ (Eng.recvF n f e).1.recMax = e.recMax ∧
      ((Eng.recvF n f e).2.1 ≠ R.ok → (Eng.recvF n f e).2.2 = []) := by
  induction f generalizing e with
  | zero => exact ⟨[], by simp [Eng.recvF]⟩
  | succ f ih =>
    unfold Eng.recvF
    split
    · exact ⟨[], by simp⟩
    · rename_i hp
      have hp' : e.plain = [] := by simpa using hp
      split
      · exact ⟨[], by simp [hp']⟩
      · split
        · exact ⟨[], by simp [hp']⟩
        · split
          · exact ⟨[], by simp [hp']⟩
          · split
            · exact ⟨[], by simp [hp']⟩
            · rename_i ty p rest _
              split
              · obtain ⟨t, h1, h2, h3, h4, h5⟩ := ih { e with inB := rest, plain := p, recvPlain := e.recvPlain ++ p }
                refine ⟨p ++ t, ?_, ?_, ?_, ?_, ?_⟩
                · simpa using h1
                · simpa [hp'] using h2
                · simpa using h3
                · simpa using h4
                · exact h5
              · split
                · exact ⟨[], by simp [hp']⟩
                · exact ⟨[], by simp [hp']⟩

theorem send_spec (e : Eng) (d : Bytes) :
    (e.send d).1.recvPlain = e.recvPlain ∧ (e.send d).1.plain = e.plain ∧ (e.send d).1.recMax = e.recMax ∧
    ((e.send d).2.1 = R.ok → (e.send d).1.sentPlain = e.sentPlain ++ d.take (e.send d).2.2 ∧
        (e.send d).2.2 ≤ d.length ∧ (0 < e.recMax → d ≠ [] → 0 < (e.send d).2.2)) ∧
    ((e.send d).2.1 ≠ R.ok → (e.send d).1.sentPlain = e.sentPlain) ∧
    ((e.send d).2.1 ≠ R.zeroReturn) := by
  unfold Eng.send
  split
  · simp
  · split
    · simp
    · split
      · simp
      · simp only []
        split
        · rename_i h
          simp
          intro h1
          have : d.length = 0 := by omega
          exact List.length_eq_zero_iff.mp this
        · rename_i h
          simp
          refine ⟨by omega, ?_⟩
          intro h1 h2
          have : 0 < d.length := List.length_pos_iff.mpr h2
          omega

/-! local invariant of one endpoint -/

/-- sender bookkeeping with `X` = plaintext accepted from the application that is still above `_write` -/
structure Pend (v : V) (X : Bytes) : Prop where
  pre : v.sentPlain <+: v.accepted
  eq : v.lost = false → v.sentPlain ++ v.buf.flatten ++ X = v.accepted

structure Rest (v : V) : Prop where
  rm : 0 < v.recMax
  k1 : v.closed = true → v.lost = false → v.disc = true
  k2 : v.disc = true → v.closed = true
  ag : v.buffering = false → v.agg = []
  g2p : v.rcvd <+: v.recvPlain
  g2e : v.aborted = false → v.rcvd ++ v.plain = v.recvPlain
  late : v.late = false
  cn : v.connected = false → v.lost = true

def aggPart (v : V) : Bytes := if v.closed then [] else v.agg.flatten

structure GoodV (v : V) : Prop where
  pend : Pend v (aggPart v)
  rest : Rest v

def Good (s : Side) : Prop := GoodV (view s)

/-- effect of pushing `b` through `_write`: a prefix `t` reached the engine, the rest `u` is buffered (unless the
    TLS connection is/was lost); nothing else in the view changes -/
def SendStep (v v' : V) (b : Bytes) : Prop :=
  ∃ t u, b = t ++ u ∧ v'.sentPlain = v.sentPlain ++ t ∧ (v.lost = true → t = [] ∧ v'.lost = true) ∧
    (v'.lost = false → v'.buf.flatten = v.buf.flatten ++ u) ∧ (v.buf ≠ [] → t = [] ∧ v'.buf ≠ []) ∧
    v' = { v with sentPlain := v'.sentPlain, buf := v'.buf, lost := v'.lost }

theorem writeLoop_spec (f : Nat) (rest : Bytes) (s : Side) (hf : rest.length < f) (hr : 0 < s.e.recMax)
    (hl : s.lost = false) (hb : s.buf = []) :
    SendStep (view s) (view (Side.writeLoop f rest s)) rest := by
  induction f generalizing rest s with
  | zero => omega
  | succ f ih =>
    unfold Side.writeLoop
    split
    · rename_i h; subst h
      exact ⟨[], [], by simp, by simp, by simp [view, hl], by simp, by simp [view, hb], rfl⟩
    · rename_i hne
      have hs := send_spec s.e (rest.take 16384)
      generalize hg : s.e.send (rest.take 16384) = r at hs
      obtain ⟨e', r, n⟩ := r
      cases r
      · -- ok
        simp only at hs ⊢
        obtain ⟨h1, h2, h3, h4, -, -⟩ := hs
        obtain ⟨h4a, h4b, h4c⟩ := h4 trivial
        have hne' : List.take 16384 rest ≠ [] := by
          cases rest with
          | nil => exact absurd rfl hne
          | cons a l => simp
        have hn : 0 < n := h4c hr hne'
        have hlen : (List.take 16384 rest).length ≤ rest.length := by simp; omega
        have hIH := ih (rest.drop n) (Side.flushSend { s with e := e' }) (by simp; omega)
          (by have : (Side.flushSend { s with e := e' }).e.recMax = (view (Side.flushSend { s with e := e' })).recMax := rfl
              rw [this, view_flushSend]; simpa [view] using h3 ▸ hr)
          (by have : (Side.flushSend { s with e := e' }).lost = (view (Side.flushSend { s with e := e' })).lost := rfl
              rw [this, view_flushSend]; simpa [view] using hl)
          (by have : (Side.flushSend { s with e := e' }).buf = (view (Side.flushSend { s with e := e' })).buf := rfl
              rw [this, view_flushSend]; simpa [view] using hb)
        obtain ⟨t, u, e1, e2, e3, e4, e5, e6⟩ := hIH
        rw [view_flushSend] at e2 e3 e4 e5 e6
        have htt : List.take n (List.take 16384 rest) = List.take n rest := by
          rw [List.take_take]; congr 1; simp at h4b; omega
        refine ⟨rest.take n ++ t, u, ?_, ?_, ?_, ?_, ?_, ?_⟩
        · rw [List.append_assoc, ← e1, List.take_append_drop]
        · rw [e2]; simp [view, h4a, htt]
        · simp [view, hl]
        · intro h; have := e4 h; simpa [view] using this
        · simp [view, hb]
        · rw [e6]; simp [view, h1, h2, h3]
      · -- wantRead
        simp only at hs ⊢
        obtain ⟨h1, h2, h3, -, h5, -⟩ := hs
        refine ⟨[], rest, by simp, ?_, by simp [view, hl], ?_, by simp [view, hb], ?_⟩
        · simp [view, h5]
        · simp [view]
        · simp [view, h1, h2, h3, h5]
      · exact absurd rfl hs.2.2.2.2.2
      · -- error
        simp only at hs ⊢
        obtain ⟨h1, h2, h3, -, h5, -⟩ := hs
        rw [view_tlsShutdownFinished]
        refine ⟨[], rest, by simp, ?_, by simp [view, hl], by simp, by simp [view, hb], ?_⟩
        · simp [view, h5]
        · simp [view, h1, h2, h3, h5]

theorem write'_spec (s : Side) (b : Bytes) (hr : 0 < s.e.recMax) :
    SendStep (view s) (view (Side.write' s b)) b := by
  unfold Side.write'
  split
  · rename_i h
    exact ⟨[], b, by simp, by simp, by simp [view, h], by simp [view, h], by simp, rfl⟩
  · rename_i h
    split
    · rename_i hb
      exact ⟨[], b, by simp, by simp [view], by simp [view, h], by simp [view], by simp [view], by simp [view]⟩
    · rename_i hb
      exact writeLoop_spec _ b s (by omega) hr (by simpa using h) (by simpa using hb)

theorem SendStep.trans {v v' v'' : V} {b c : Bytes} (h1 : SendStep v v' b) (h2 : SendStep v' v'' c) :
    SendStep v v'' (b ++ c) := by
  obtain ⟨t1, u1, a1, a2, a3, a4, a5, a6⟩ := h1
  obtain ⟨t2, u2, b1, b2, b3, b4, b5, b6⟩ := h2
  have key : u1 = [] ∨ t2 = [] := by
    by_cases hl : v'.lost = true
    · exact Or.inr (b3 hl).1
    · have hl' : v'.lost = false := by simpa using hl
      by_cases hu : u1 = []
      · exact Or.inl hu
      · right
        apply (b5 _).1
        intro hb
        have := a4 hl'
        rw [hb] at this
        simp at this
        exact hu this.2
  have hcomb : b ++ c = (t1 ++ t2) ++ (u1 ++ u2) := by
    rcases key with h | h <;> subst h <;> simp [a1, b1]
  refine ⟨t1 ++ t2, u1 ++ u2, hcomb, ?_, ?_, ?_, ?_, ?_⟩
  · rw [b2, a2]; simp
  · intro hl
    obtain ⟨x, y⟩ := a3 hl
    obtain ⟨x', y'⟩ := b3 y
    exact ⟨by simp [x, x'], y'⟩
  · intro hl
    have hl' : v'.lost = false := by
      by_cases h : v'.lost = true
      · have := (b3 h).2; simp [hl] at this
      · simpa using h
    rw [b4 hl, a4 hl']; simp
  · intro hb
    obtain ⟨x, y⟩ := a5 hb
    obtain ⟨x', y'⟩ := b5 y
    exact ⟨by simp [x, x'], y'⟩
  · rw [b6, a6]

theorem SendStep.refl (v : V) : SendStep v v [] :=
  ⟨[], [], by simp, by simp, by intro h; exact ⟨rfl, h⟩, by simp, by simp, rfl⟩

theorem foldl_write'_spec (ps : List Bytes) (s : Side) (hr : 0 < s.e.recMax) :
    SendStep (view s) (view (ps.foldl Side.write' s)) ps.flatten ∧ 0 < (ps.foldl Side.write' s).e.recMax := by
  induction ps generalizing s with
  | nil => exact ⟨SendStep.refl _, hr⟩
  | cons p ps ih =>
    have h1 := write'_spec s p hr
    have hr' : 0 < (Side.write' s p).e.recMax := by
      obtain ⟨_, _, _, _, _, _, _, e6⟩ := h1
      have : (view (Side.write' s p)).recMax = (view s).recMax := by rw [e6]
      have h' : (Side.write' s p).e.recMax = s.e.recMax := this
      omega
    obtain ⟨h2, h3⟩ := ih (Side.write' s p) hr'
    exact ⟨by simpa using h1.trans h2, h3⟩

theorem Pend.step {v v' : V} {b Y : Bytes} (h : Pend v (b ++ Y)) (st : SendStep v v' b) : Pend v' Y := by
  obtain ⟨t, u, a1, a2, a3, a4, a5, a6⟩ := st
  have hacc : v'.accepted = v.accepted := by rw [a6]
  have comm : v.lost = false → v.sentPlain ++ t ++ (v.buf.flatten ++ u) ++ Y = v.accepted := by
    intro hl
    have := h.eq hl
    by_cases hb : v.buf = []
    · rw [hb] at this ⊢; simp at this ⊢; rw [← this, a1]; simp
    · have ht := (a5 hb).1; subst ht; simp at a1 ⊢; rw [← this, a1]; simp
  constructor
  · rw [hacc, a2]
    by_cases hl : v.lost = true
    · rw [(a3 hl).1]; simpa using h.pre
    · have := comm (by simpa using hl)
      rw [← this]; simp [List.append_assoc]
  · intro hl'
    have hl : v.lost = false := by
      by_cases hh : v.lost = true
      · have := (a3 hh).2; simp [hl'] at this
      · simpa using hh
    rw [hacc, a2, a4 hl']; exact comm hl

theorem Rest.step {v v' : V} {b : Bytes} (h : Rest v) (st : SendStep v v' b) : Rest v' := by
  obtain ⟨t, u, a1, a2, a3, a4, a5, a6⟩ := st
  have hl : v'.lost = false → v.lost = false := by
    intro hl'
    by_cases hh : v.lost = true
    · have := (a3 hh).2; simp [hl'] at this
    · simpa using hh
  rw [a6]
  exact ⟨h.rm, fun hc hl' => h.k1 hc (hl hl'), h.k2, h.ag, h.g2p, h.g2e, h.late,
    fun hc => by
      have := h.cn hc
      exact (a3 this).2⟩

/-- frame of a `SendStep` on the two counters that the connectionLost bookkeeping needs -/
theorem SendStep.keep {v v' : V} {b : Bytes} (st : SendStep v v' b) :
    v'.lostN = v.lostN ∧ v'.tGone = v.tGone := by
  obtain ⟨t, u, a1, a2, a3, a4, a5, a6⟩ := st
  rw [a6]; exact ⟨rfl, rfl⟩

theorem GoodV.setLost {v : V} (h : GoodV v) : GoodV { v with lost := true } :=
  ⟨⟨h.pend.pre, by simp⟩,
   ⟨h.rest.rm, by simp, h.rest.k2, h.rest.ag, h.rest.g2p, h.rest.g2e, h.rest.late, by simp⟩⟩

/-- `Keep s s'`: connectionLost bookkeeping untouched -/
def Keep (s s' : Side) : Prop := s'.lostN = s.lostN ∧ s'.tGone = s.tGone

theorem Keep.of_view {s s' : Side} (h : (view s').lostN = (view s).lostN ∧ (view s').tGone = (view s).tGone) :
    Keep s s' := h
theorem Keep.rfl' (s : Side) : Keep s s := ⟨rfl, rfl⟩
theorem Keep.trans {a b c : Side} (h1 : Keep a b) (h2 : Keep b c) : Keep a c :=
  ⟨h2.1.trans h1.1, h2.2.trans h1.2⟩

theorem tlsWrite_good (s : Side) (b Y : Bytes) (hp : Pend (view s) (b ++ Y)) (hr : Rest (view s))
    (hd : s.disc = false) :
    Pend (view (s.tlsWrite b)) Y ∧ Rest (view (s.tlsWrite b)) ∧ Keep s (s.tlsWrite b) ∧
      (view (s.tlsWrite b)).agg = (view s).agg ∧ (view (s.tlsWrite b)).closed = (view s).closed := by
  unfold Side.tlsWrite
  simp only [hd, Bool.false_eq_true, if_false]
  have st := write'_spec s b hr.rm
  refine ⟨hp.step st, hr.step st, Keep.of_view st.keep, ?_, ?_⟩
  · obtain ⟨_, _, _, _, _, _, _, a6⟩ := st; rw [a6]
  · obtain ⟨_, _, _, _, _, _, _, a6⟩ := st; rw [a6]

theorem GoodV.clearAgg_closed {v : V} (h : GoodV v) (hc : v.closed = true) : GoodV { v with agg := [] } := by
  obtain ⟨⟨p1, p2⟩, r⟩ := h
  refine ⟨⟨p1, ?_⟩, ⟨r.rm, r.k1, r.k2, fun _ => rfl, r.g2p, r.g2e, r.late, r.cn⟩⟩
  simpa [aggPart, hc] using p2

theorem GoodV.step_lost {v v' : V} {b : Bytes} (h : GoodV v) (hl : v.lost = true) (st : SendStep v v' b) :
    GoodV v' := by
  have r' := h.rest.step st
  obtain ⟨t, u, a1, a2, a3, a4, a5, a6⟩ := st
  obtain ⟨ht, hl'⟩ := a3 hl
  refine ⟨⟨?_, ?_⟩, r'⟩
  · have e1 : v'.accepted = v.accepted := by rw [a6]
    rw [e1, a2, ht]; simpa using h.pend.pre
  · intro hh; simp [hl'] at hh

theorem GoodV.flushAgg {v v' : V} (h : GoodV v) (hc : v.closed = false) (st : SendStep v v' v.agg.flatten) :
    GoodV { v' with agg := [] } := by
  have hp : Pend v (v.agg.flatten ++ []) := by
    have := h.pend; simpa [aggPart, hc] using this
  have p1 := hp.step st
  have r1 := h.rest.step st
  refine ⟨⟨p1.pre, ?_⟩, ⟨r1.rm, r1.k1, r1.k2, fun _ => rfl, r1.g2p, r1.g2e, r1.late, r1.cn⟩⟩
  have := p1.eq
  simp only [aggPart]
  split <;> simpa using this

theorem aggFlush_good (s : Side) (h : Good s) : Good s.aggFlush ∧ Keep s s.aggFlush := by
  unfold Side.aggFlush
  split
  · exact ⟨h, Keep.rfl' s⟩
  · by_cases hd : s.disc = true
    · have e : Side.tlsWrite { s with aggLeft := 64000 } s.agg.flatten = { s with aggLeft := 64000 } := by
        unfold Side.tlsWrite; rw [if_pos]; exact hd
      rw [e]
      exact ⟨h.clearAgg_closed (h.rest.k2 hd), ⟨rfl, rfl⟩⟩
    · have e : Side.tlsWrite { s with aggLeft := 64000 } s.agg.flatten =
          Side.write' { s with aggLeft := 64000 } s.agg.flatten := by
        unfold Side.tlsWrite; rw [if_neg]; exact hd
      rw [e]
      have st := write'_spec { s with aggLeft := 64000 } s.agg.flatten h.rest.rm
      have hk := st.keep
      by_cases hc : s.closed = true
      · have hl : (view s).lost = true := by
          by_cases hl : (view s).lost = true
          · exact hl
          · have := h.rest.k1 hc (by simpa using hl); exact absurd this hd
        have g := GoodV.step_lost h hl st
        have hc' : (view (Side.write' { s with aggLeft := 64000 } s.agg.flatten)).closed = true := by
          obtain ⟨_, _, _, _, _, _, _, a6⟩ := st; rw [a6]; exact hc
        exact ⟨g.clearAgg_closed hc', hk⟩
      · have hc' : (view s).closed = false := by
          have : s.closed = false := by simpa using hc
          exact this
        exact ⟨GoodV.flushAgg h hc' st, hk⟩

end TwistedProps.C17
