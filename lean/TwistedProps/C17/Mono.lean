import TwistedProps.C17.Wire
/-!
C17 helper lemmas: monotonicity — what an application has received only grows, and once it has called loseConnection
the record of what it wrote before (`accepted`) is frozen.  Used to carry "exactly" from the clean-close point to
every later state.
-/
namespace TwistedProps.C17
open Twisted.Transport.Tls

def Mono (s s' : Side) : Prop :=
  s.rcvd <+: s'.rcvd ∧ (s.closed = true → s'.closed = true ∧ s'.accepted = s.accepted)

theorem Mono.refl (s : Side) : Mono s s := ⟨List.prefix_refl _, fun h => ⟨h, rfl⟩⟩
theorem Mono.trans {a b c : Side} (h1 : Mono a b) (h2 : Mono b c) : Mono a c :=
  ⟨h1.1.trans h2.1, fun h => ⟨(h2.2 (h1.2 h).1).1, (h2.2 (h1.2 h).1).2.trans (h1.2 h).2⟩⟩
theorem Mono.of_same {s s' : Side} (h1 : s'.rcvd = s.rcvd) (h2 : s'.accepted = s.accepted) (h3 : s'.closed = s.closed) :
    Mono s s' := ⟨h1 ▸ List.prefix_refl _, fun h => ⟨h3 ▸ h, h2⟩⟩

theorem tLose_mono (s : Side) : Mono s s.tLose := Mono.of_same rfl rfl rfl

theorem flushSend_mono (s : Side) : Mono s s.flushSend := by
  unfold Side.flushSend
  split
  · exact Mono.refl _
  · unfold Side.tWrite
    split
    · exact Mono.of_same rfl rfl rfl
    · exact Mono.of_same rfl rfl rfl

theorem appData_mono (s : Side) (b : Bytes) : Mono s (s.appData b) :=
  ⟨List.prefix_append _ _, fun h => ⟨h, rfl⟩⟩

theorem setClosed_mono (s : Side) : Mono s { s with closed := true } :=
  ⟨List.prefix_refl _, fun _ => ⟨rfl, rfl⟩⟩

theorem tlsShutdownFinished_mono (s : Side) : Mono s s.tlsShutdownFinished := by
  unfold Side.tlsShutdownFinished
  exact (Mono.of_same (s := s) (s' := { s with lost := true }) rfl rfl rfl).trans
    ((flushSend_mono _).trans (tLose_mono _))

theorem shutdownTLS_mono (s : Side) : Mono s s.shutdownTLS := by
  unfold Side.shutdownTLS
  simp only []
  have h1 : Mono s (Side.flushSend { s with e := s.e.shutdown.1 }) :=
    (Mono.of_same (s := s) (s' := { s with e := s.e.shutdown.1 }) rfl rfl rfl).trans (flushSend_mono _)
  split
  · exact h1.trans (tLose_mono _)
  · exact h1

theorem writeLoop_mono (f : Nat) (rest : Bytes) (s : Side) : Mono s (Side.writeLoop f rest s) := by
  induction f generalizing rest s with
  | zero => exact Mono.refl _
  | succ f ih =>
    unfold Side.writeLoop
    split
    · exact Mono.refl _
    · generalize s.e.send (rest.take 16384) = r
      obtain ⟨e', r, n⟩ := r
      have h0 : Mono s { s with e := e' } := Mono.of_same (s := s) (s' := { s with e := e' }) rfl rfl rfl
      cases r <;> simp only
      · exact h0.trans ((flushSend_mono _).trans (ih _ _))
      · exact Mono.of_same (s := s) (s' := { s with e := e', buf := s.buf ++ [rest] }) rfl rfl rfl
      · exact h0.trans (tlsShutdownFinished_mono _)
      · exact h0.trans (tlsShutdownFinished_mono _)

theorem write'_mono (s : Side) (b : Bytes) : Mono s (Side.write' s b) := by
  unfold Side.write'
  split
  · exact Mono.refl _
  · split
    · exact Mono.of_same rfl rfl rfl
    · exact writeLoop_mono _ _ _

theorem tlsWrite_mono (s : Side) (b : Bytes) : Mono s (s.tlsWrite b) := by
  unfold Side.tlsWrite
  split
  · exact Mono.refl _
  · exact write'_mono _ _

theorem aggFlush_mono (s : Side) : Mono s s.aggFlush := by
  unfold Side.aggFlush
  split
  · exact Mono.refl _
  · exact (Mono.of_same (s := s) (s' := { s with aggLeft := 64000 }) rfl rfl rfl).trans
      ((tlsWrite_mono _ _).trans (Mono.of_same rfl rfl rfl))

theorem aggWrite_mono (s : Side) (b : Bytes) : Mono s (s.aggWrite b) := by
  unfold Side.aggWrite
  simp only []
  have h0 : Mono s { s with agg := s.agg ++ [b], aggLeft := s.aggLeft - b.length } := Mono.of_same rfl rfl rfl
  split
  · exact h0.trans (aggFlush_mono _)
  · split
    · exact h0
    · exact Mono.of_same rfl rfl rfl

theorem transportWrite_mono (s : Side) (b : Bytes) : Mono s (s.transportWrite b) := by
  unfold Side.transportWrite
  split
  · exact aggWrite_mono _ _
  · exact tlsWrite_mono _ _

theorem appWrite_mono (s : Side) (b : Bytes) : Mono s (s.appWrite b) := by
  unfold Side.appWrite
  have h0 : Mono s (if s.closed then s else { s with accepted := s.accepted ++ b }) := by
    split
    · exact Mono.refl _
    · rename_i hc
      exact ⟨List.prefix_refl _, fun h => absurd h hc⟩
  exact h0.trans (transportWrite_mono _ _)

theorem foldl_write'_mono (ps : List Bytes) (s : Side) : Mono s (ps.foldl Side.write' s) := by
  induction ps generalizing s with
  | nil => exact Mono.refl _
  | cons p ps ih => exact (write'_mono s p).trans (ih _)

theorem unbuffer_mono (s : Side) : Mono s s.unbuffer := by
  unfold Side.unbuffer
  simp only []
  have h0 : Mono s (s.buf.foldl Side.write' { s with buf := [] }) :=
    (Mono.of_same (s := s) (s' := { s with buf := [] }) rfl rfl rfl).trans (foldl_write'_mono _ _)
  split
  · exact h0
  · split
    · exact h0.trans (shutdownTLS_mono _)
    · exact h0

theorem checkHandshake_mono (s : Side) : Mono s s.checkHandshake := by
  unfold Side.checkHandshake
  split
  · exact Mono.refl _
  · generalize s.e.doHandshake = r
    obtain ⟨e', r⟩ := r
    have h0 : Mono s { s with e := e' } := Mono.of_same (s := s) (s' := { s with e := e' }) rfl rfl rfl
    cases r <;> simp only
    · have h1 : Mono s { s with e := e', hsDone := true, hsN := s.hsN + 1 } :=
        Mono.of_same (s := s) (s' := { s with e := e', hsDone := true, hsN := s.hsN + 1 }) rfl rfl rfl
      split
      · exact h1.trans (appWrite_mono _ _)
      · exact h1
    · exact h0.trans (flushSend_mono _)
    · exact h0.trans (tlsShutdownFinished_mono _)
    · exact h0.trans (tlsShutdownFinished_mono _)

theorem recvLoop_mono (f : Nat) (s : Side) : Mono s (Side.recvLoop f s) := by
  induction f generalizing s with
  | zero => exact Mono.refl _
  | succ f ih =>
    unfold Side.recvLoop
    split
    · exact Mono.refl _
    · generalize s.e.recv 32768 = r
      obtain ⟨e', r, b⟩ := r
      have h0 : Mono s { s with e := e' } := Mono.of_same (s := s) (s' := { s with e := e' }) rfl rfl rfl
      cases r <;> simp only
      · refine Mono.trans ?_ (ih _)
        split
        · exact h0
        · exact h0.trans (appData_mono _ _)
      · exact h0
      · exact (h0.trans ((shutdownTLS_mono _).trans (tlsShutdownFinished_mono _))).trans (ih _)
      · exact (h0.trans (tlsShutdownFinished_mono _)).trans (ih _)

theorem flushReceive_mono (s : Side) : Mono s s.flushReceive := by
  unfold Side.flushReceive
  exact (recvLoop_mono _ _).trans (flushSend_mono _)

theorem drHead_mono (s0 : Side) : Mono s0 (drHead s0) := by
  unfold drHead
  split
  · exact Mono.refl _
  · exact checkHandshake_mono _

theorem drTail_mono (s1 : Side) : Mono s1 (drTail s1) := by
  unfold drTail
  split
  · exact Mono.refl _
  · simp only []
    refine Mono.trans ?_ (flushReceive_mono _)
    split
    · exact unbuffer_mono _
    · exact Mono.refl _

theorem drRest_mono (s0 : Side) : Mono s0 (drRest s0) := (drHead_mono s0).trans (drTail_mono _)

theorem connectionLost_mono (s : Side) : Mono s s.connectionLost := by
  unfold Side.connectionLost
  simp only []
  refine Mono.trans ?_ (Mono.of_same rfl rfl rfl)
  split
  · exact Mono.refl _
  · have h0 : Mono s { s with e := { s.e with eof := true } } :=
      Mono.of_same (s := s) (s' := { s with e := { s.e with eof := true } })
        rfl rfl rfl
    exact h0.trans ((flushReceive_mono _).trans (Mono.of_same rfl rfl rfl))

theorem abortConnection_mono (s : Side) : Mono s s.abortConnection := by
  unfold Side.abortConnection
  exact (Mono.of_same (s := s) (s' := { s with aborted := true, disc := true }) rfl rfl rfl).trans
    ((shutdownTLS_mono _).trans (tLose_mono _))

theorem loseTail_mono (s1 : Side) :
    Mono s1 (if ({ s1 with disc := true } : Side).buf.isEmpty then Side.shutdownTLS { s1 with disc := true }
      else { s1 with disc := true }) := by
  split
  · exact (Mono.of_same (s := s1) (s' := { s1 with disc := true }) rfl rfl rfl).trans (shutdownTLS_mono _)
  · exact Mono.of_same rfl rfl rfl

theorem tlsLoseConnection_mono (s : Side) : Mono s s.tlsLoseConnection := by
  unfold Side.tlsLoseConnection
  split
  · exact Mono.refl _
  · have h1 : Mono s (if (!s.hsDone && s.buf.isEmpty) = true then Side.abortConnection s else s) := by
      split
      · exact abortConnection_mono _
      · exact Mono.refl _
    exact h1.trans (loseTail_mono _)

theorem appLose_mono (s : Side) : Mono s s.appLose := by
  unfold Side.appLose
  have h1 : Mono s (if s.buffering = true then Side.aggFlush s else s) := by
    split
    · exact aggFlush_mono _
    · exact Mono.refl _
  exact h1.trans ((setClosed_mono _).trans (tlsLoseConnection_mono _))

theorem tick_mono (s : Side) : Mono s s.tick := by
  unfold Side.tick
  split
  · exact (Mono.of_same (s := s) (s' := { s with aggSched := false }) rfl rfl rfl).trans (aggFlush_mono _)
  · exact Mono.refl _


/-! ## the two endpoints -/

def MonoW (w w' : World) : Prop := ∀ who, Mono (w.get who) (w'.get who)

theorem MonoW.refl (w : World) : MonoW w w := fun _ => Mono.refl _
theorem MonoW.trans {a b c : World} (h1 : MonoW a b) (h2 : MonoW b c) : MonoW a c :=
  fun who => (h1 who).trans (h2 who)

theorem MonoW.set (w : World) (who : Who) (x' : Side) (p : Mono (w.get who) x') : MonoW w (w.set who x') := by
  intro q
  cases who <;> cases q
  · exact p
  · exact Mono.refl _
  · exact Mono.refl _
  · exact p

theorem step_mono (w : World) (op : Op) : MonoW w (w.step op) := by
  cases op with
  | W who st n => exact MonoW.set w who _ (appWrite_mono _ _)
  | L who => exact MonoW.set w who _ (appLose_mono _)
  | T who => exact MonoW.set w who _ (tick_mono _)
  | D who n =>
    unfold World.step
    simp only []
    split
    · exact MonoW.refl _
    · have h1 : MonoW w (w.set who.other { w.get who.other with out := (w.get who.other).out.drop n }) :=
        MonoW.set w who.other _ (Mono.of_same rfl rfl rfl)
      refine h1.trans (MonoW.set _ who _ ?_)
      have e : (w.set who.other { w.get who.other with out := (w.get who.other).out.drop n }).get who = w.get who := by
        cases who <;> rfl
      rw [e, dataReceived_eq]
      exact (Mono.of_same (s := w.get who)
        (s' := { w.get who with e := (w.get who).e.bioWrite (List.take n (w.get who.other).out) }) rfl rfl rfl).trans
        (drRest_mono _)
  | F who =>
    unfold World.step
    simp only []
    split
    · exact MonoW.set w who _ ((Mono.of_same (s := w.get who) (s' := { w.get who with tGone := true }) rfl rfl rfl).trans
        (connectionLost_mono _))
    · exact MonoW.refl _
  | E who =>
    unfold World.step
    simp only []
    split
    · exact MonoW.set w who _ ((Mono.of_same (s := w.get who) (s' := { w.get who with tDisc := true, tGone := true })
        rfl rfl rfl).trans (connectionLost_mono _))
    · exact MonoW.refl _

theorem run_mono (ops : List Op) (w : World) : MonoW w (w.run ops) := by
  induction ops generalizing w with
  | nil => exact MonoW.refl _
  | cons op ops ih => exact (step_mono w op).trans (ih _)

theorem drain_mono (n : Nat) (w : World) : MonoW w (w.drain n) := by
  induction n generalizing w with
  | zero => exact MonoW.refl _
  | succ n ih => exact (run_mono _ w).trans (ih _)

theorem run_append (w : World) (a b : List Op) : w.run (a ++ b) = (w.run a).run b := by
  simp [World.run, List.foldl_append]

end TwistedProps.C17
