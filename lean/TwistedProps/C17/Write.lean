import TwistedProps.C17.Send
/-! C17 helper lemmas: application writes, aggregator, un-buffering preserve the local invariant. -/
namespace TwistedProps.C17
open Twisted.Transport.Tls

theorem aggWrite_good (s : Side) (b : Bytes) (h1 : GoodV { view s with agg := s.agg ++ [b] }) :
    Good (s.aggWrite b) ∧ Keep s (s.aggWrite b) := by
  unfold Side.aggWrite
  simp only []
  split
  · have := aggFlush_good { s with agg := s.agg ++ [b], aggLeft := s.aggLeft - b.length } h1
    exact ⟨this.1, this.2⟩
  · split
    · exact ⟨h1, ⟨rfl, rfl⟩⟩
    · exact ⟨h1, ⟨rfl, rfl⟩⟩

theorem GoodV.acceptAgg {v : V} (h : GoodV v) (hb : v.buffering = true) (b : Bytes) :
    GoodV { v with accepted := if v.closed then v.accepted else v.accepted ++ b, agg := v.agg ++ [b] } := by
  obtain ⟨⟨p1, p2⟩, r⟩ := h
  refine ⟨⟨?_, ?_⟩, ⟨r.rm, r.k1, r.k2, fun hh => by simp [hb] at hh, r.g2p, r.g2e, r.late, r.cn⟩⟩
  · show v.sentPlain <+: (if v.closed then v.accepted else v.accepted ++ b)
    split
    · exact p1
    · exact p1.trans (List.prefix_append _ _)
  · intro hl
    have := p2 hl
    show v.sentPlain ++ v.buf.flatten ++ (if v.closed then [] else (v.agg ++ [b]).flatten) = (if v.closed then v.accepted else v.accepted ++ b)
    simp only [aggPart] at this
    split
    · rename_i hc; simpa [hc] using this
    · rename_i hc; simp [hc] at this; simp [← this]

theorem appWrite_good (s : Side) (b : Bytes) (h : Good s) : Good (s.appWrite b) ∧ Keep s (s.appWrite b) := by
  unfold Side.appWrite Side.transportWrite
  by_cases hbuf : s.buffering = true
  · have e : (if s.closed then s else { s with accepted := s.accepted ++ b }).buffering = true := by
      split <;> exact hbuf
    rw [if_pos e]
    have g := GoodV.acceptAgg h hbuf b
    by_cases hc : s.closed = true
    · rw [if_pos hc]
      have hcv : (view s).closed = true := hc
      rw [if_pos hcv] at g
      exact aggWrite_good s b g
    · rw [if_neg hc]
      have hcv : ¬ (view s).closed = true := hc
      rw [if_neg hcv] at g
      have := aggWrite_good { s with accepted := s.accepted ++ b } b g
      exact ⟨this.1, this.2⟩
  · have hbuf' : s.buffering = false := by simpa using hbuf
    have e : (if s.closed then s else { s with accepted := s.accepted ++ b }).buffering = false := by
      split <;> exact hbuf'
    rw [if_neg (by simp [e])]
    have hag : s.agg = [] := h.rest.ag hbuf'
    by_cases hc : s.closed = true
    · rw [if_pos hc]
      unfold Side.tlsWrite
      split
      · exact ⟨h, Keep.rfl' s⟩
      · rename_i hd
        have hl : s.lost = true := by
          by_cases hl : s.lost = true
          · exact hl
          · have hl' : (view s).lost = false := by
              have : s.lost = false := by simpa using hl
              exact this
            exact absurd (h.rest.k1 hc hl') hd
        unfold Side.write'
        rw [if_pos hl]
        exact ⟨h, Keep.rfl' s⟩
    · have hc' : s.closed = false := by simpa using hc
      rw [if_neg hc]
      have hd : s.disc = false := by
        by_cases hd : s.disc = true
        · exact absurd (h.rest.k2 hd) hc
        · simpa using hd
      have hp : Pend (view { s with accepted := s.accepted ++ b }) (b ++ []) := by
        obtain ⟨⟨p1, p2⟩, r⟩ := h
        constructor
        · exact p1.trans (List.prefix_append _ _)
        · intro hl
          have := p2 hl
          simp only [aggPart] at this
          have hc2 : (view s).closed = false := hc'
          have ha2 : (view s).agg = [] := hag
          simp [hc2, ha2] at this
          show s.e.sentPlain ++ s.buf.flatten ++ (b ++ []) = s.accepted ++ b
          simp [view] at this
          simp [← this]
      have hr : Rest (view { s with accepted := s.accepted ++ b }) := by
        obtain ⟨_, r⟩ := h
        exact ⟨r.rm, r.k1, r.k2, r.ag, r.g2p, r.g2e, r.late, r.cn⟩
      obtain ⟨p1, r1, k1, ag1, cl1⟩ := tlsWrite_good { s with accepted := s.accepted ++ b } b [] hp hr hd
      refine ⟨⟨⟨p1.pre, ?_⟩, r1⟩, ⟨k1.1, k1.2⟩⟩
      have := p1.eq
      have e2 : (view (Side.tlsWrite { s with accepted := s.accepted ++ b } b)).agg = [] := by rw [ag1]; exact hag
      simp only [aggPart, e2]
      split <;> simpa using this

theorem tick_good (s : Side) (h : Good s) : Good s.tick ∧ Keep s s.tick := by
  unfold Side.tick
  split
  · have := aggFlush_good { s with aggSched := false } h
    exact ⟨this.1, this.2⟩
  · exact ⟨h, Keep.rfl' s⟩

theorem shutdownTLS_good (s : Side) (h : Good s) : Good s.shutdownTLS ∧ Keep s s.shutdownTLS := by
  unfold Good Keep
  have e := view_shutdownTLS s
  have e1 : s.shutdownTLS.lostN = (view s.shutdownTLS).lostN := rfl
  have e2 : s.shutdownTLS.tGone = (view s.shutdownTLS).tGone := rfl
  rw [e1, e2, e]
  exact ⟨h, rfl, rfl⟩

theorem unbuffer_good (s : Side) (h : Good s) : Good s.unbuffer ∧ Keep s s.unbuffer := by
  unfold Side.unbuffer
  simp only []
  have hr0 : 0 < ({ s with buf := [] } : Side).e.recMax := h.rest.rm
  obtain ⟨st, _⟩ := foldl_write'_spec s.buf { s with buf := [] } hr0
  have hp : Pend (view { s with buf := [] }) (s.buf.flatten ++ aggPart (view s)) := by
    obtain ⟨⟨p1, p2⟩, r⟩ := h
    exact ⟨p1, fun hl => by have := p2 hl; simpa [view, List.append_assoc] using this⟩
  have hrr : Rest (view { s with buf := [] }) := by
    obtain ⟨_, r⟩ := h
    exact ⟨r.rm, r.k1, r.k2, r.ag, r.g2p, r.g2e, r.late, r.cn⟩
  have p1 := hp.step st
  have r1 := hrr.step st
  have hk := st.keep
  have hagg : aggPart (view (List.foldl Side.write' { s with buf := [] } s.buf)) = aggPart (view s) := by
    obtain ⟨_, _, _, _, _, _, _, a6⟩ := st
    rw [a6]; rfl
  have g1 : Good (List.foldl Side.write' { s with buf := [] } s.buf) := ⟨by rw [hagg]; exact p1, r1⟩
  have k1 : Keep s (List.foldl Side.write' { s with buf := [] } s.buf) := ⟨hk.1, hk.2⟩
  split
  · exact ⟨g1, k1⟩
  · split
    · have := shutdownTLS_good _ g1
      exact ⟨this.1, k1.trans this.2⟩
    · exact ⟨g1, k1⟩

end TwistedProps.C17
