import TwistedProps.C17.World
import TwistedProps.C17.Wire
/-! C17 helper lemmas: quiescent worlds (nothing but an application can make the world move). -/
namespace TwistedProps.C17
open Twisted.Transport.Tls

/-- No network delivery (`D`), timer (`T`), close completion (`F`) or EOF (`E`) is enabled — the negated guards of
    `World.step`; the same conditions as `World.quiescent()` of harness/corr/C17.py plus "no EOF pending". -/
structure Quiescent (w : World) : Prop where
  wire : ∀ who, (w.get who).tGone = true ∨ (w.get who.other).out = []
  timer : ∀ who, ((w.get who).buffering && (w.get who).aggSched) = false
  closing : ∀ who, (w.get who).tDisc = true → (w.get who).tGone = true
  eof : ∀ who, (w.get who.other).tDisc = true → (w.get who.other).out = [] → (w.get who).tGone = true

def isApp : Op → Bool
  | .W .. => true
  | .L .. => true
  | _ => false

theorem set_get (w : World) (who : Who) : w.set who (w.get who) = w := by cases who <;> rfl

theorem other_other (who : Who) : who.other.other = who := by cases who <;> rfl

/-- `Quiescent` really is a fixpoint of every non-application step, with any segment size -/
theorem Quiescent.fix {w : World} (h : Quiescent w) (op : Op) (ha : isApp op = false) : w.step op = w := by
  cases op with
  | W who st n => simp [isApp] at ha
  | L who => simp [isApp] at ha
  | T who =>
    show w.set who (w.get who).tick = w
    have := h.timer who
    unfold Side.tick
    rw [if_neg (by simp [this])]
    exact set_get w who
  | D who n =>
    unfold World.step
    simp only []
    rw [if_pos]
    rcases h.wire who with h1 | h1 <;> simp [h1]
  | F who =>
    unfold World.step
    simp only []
    rw [if_neg]
    intro hc
    simp only [Bool.and_eq_true, Bool.not_eq_true'] at hc
    have := h.closing who hc.1
    simp [this] at hc
  | E who =>
    unfold World.step
    simp only []
    rw [if_neg]
    intro hc
    simp only [Bool.and_eq_true, Bool.not_eq_true', List.isEmpty_iff] at hc
    have := h.eof who hc.1.1 hc.1.2
    simp [this] at hc

theorem Quiescent.run {w : World} (h : Quiescent w) (ops : List Op) (ha : ∀ op ∈ ops, isApp op = false) :
    w.run ops = w := by
  induction ops with
  | nil => rfl
  | cons op ops ih =>
    show (w.step op).run ops = w
    rw [h.fix op (ha op (by simp))]
    exact ih (fun o ho => ha o (by simp [ho]))

/-- a quiescent world is a fixpoint of the fair drain -/
theorem Quiescent.drain {w : World} (h : Quiescent w) (n : Nat) : w.drain n = w := by
  induction n with
  | zero => rfl
  | succ n ih =>
    show (w.run drainRound).drain n = w
    rw [h.run drainRound (by intro op hop; simp [drainRound] at hop; rcases hop with h | h | h | h | h | h | h | h <;> subst h <;> rfl)]
    exact ih

/-- in a quiescent world, a transport that was told to close is closed, and so is the peer's -/
theorem Quiescent.both_gone {w : World} (h : Quiescent w) (who : Who) (hd : (w.get who).tDisc = true) :
    (w.get who).tGone = true ∧ (w.get who.other).tGone = true := by
  refine ⟨h.closing who hd, ?_⟩
  by_cases ho : (w.get who).out = []
  · have := h.eof who.other
    rw [other_other] at this
    exact this hd ho
  · have := h.wire who.other
    rw [other_other] at this
    rcases this with h1 | h1
    · exact h1
    · exact absurd h1 ho

end TwistedProps.C17
